"""Fail-closed translator: porepy/models/units.py + porepy/compositional/materials.py
-> coq/Gen/C43_tables.v  (tie T of property C43).

Regenerated on every run of ``./check C43`` from the CURRENT source text.  What is read:

* class ``Units`` in ``models/units.py``
    - the base units: the list literal of the ``if key not in [...]`` test in ``__init__``
      and the statements ``self.<b> = kwargs.get("<b>", <default>)`` (both must agree);
    - every ``@property`` method: body = [docstring] ``return <expr>`` with
      ``<expr> ::= self.<name> | <number> | np.pi | math.pi | <expr> * <expr> |
      <expr> / <expr> | <expr> ** <integer literal> | +<expr> | (<expr>)``
      (``self.<name>`` naming another property is inlined; cycles abort);
    - the names of all other functions of the class (``other_attrs``).
* every class in ``compositional/materials.py`` with an ``SI_units`` class attribute:
  ``SI_units: ClassVar[...] = {..} | dict({..}) | dict(k="..") | dict(**Other.SI_units)``,
  optionally followed by ``SI_units.update({..})`` statements in the class body;
  and the dataclass FIELDS of each such class with their defaults (``<name>: <ann> =
  <number>``; inherited fields first; the utility fields of the base class are the names
  removed by ``constants.pop("<name>")`` in ``Constants.__post_init__``; a class with an
  SI_units table must be decorated with ``@dataclass(...)``).

Any other AST shape raises ``TranslateError`` (the check reports a broken tie).
"""
from __future__ import annotations

import ast
import os
import sys
from fractions import Fraction


class TranslateError(Exception):
    pass


def _fail(node, msg, fn):
    line = getattr(node, "lineno", "?")
    raise TranslateError(f"{fn}:{line}: {msg}")


def _cstr(s: str) -> str:
    if '"' in s or "\n" in s or "\\" in s or any(ord(c) > 126 or ord(c) < 32 for c in s):
        raise TranslateError(f"string {s!r} cannot be emitted as a Coq literal")
    return f'"{s}"'


def _cq(fr: Fraction) -> str:
    return f"({fr.numerator} # {fr.denominator})"


# --------------------------------------------------------------------------------------
# units.py
# --------------------------------------------------------------------------------------
def _is_docstring(stmt):
    return (isinstance(stmt, ast.Expr) and isinstance(stmt.value, ast.Constant)
            and isinstance(stmt.value.value, str))


def _number(node, fn):
    """A numeric literal as an exact Fraction (floats: their binary value)."""
    if isinstance(node, ast.Constant) and type(node.value) in (int, float):
        v = node.value
        if isinstance(v, float) and (v != v or v in (float("inf"), float("-inf"))):
            _fail(node, "non-finite literal", fn)
        return Fraction(v)
    if isinstance(node, ast.UnaryOp) and isinstance(node.op, (ast.USub, ast.UAdd)):
        v = _number(node.operand, fn)
        return -v if isinstance(node.op, ast.USub) else v
    _fail(node, f"expected a numeric literal, got {ast.dump(node)[:80]}", fn)


def _expr(node, fn):
    """Property body -> nested tuple expression (names unresolved)."""
    if isinstance(node, ast.Attribute):
        if isinstance(node.value, ast.Name) and node.value.id == "self":
            return ("name", node.attr)
        if (isinstance(node.value, ast.Name) and node.value.id in ("np", "numpy", "math")
                and node.attr == "pi"):
            return ("pi",)
        _fail(node, f"unrecognised attribute {ast.dump(node)[:80]}", fn)
    if isinstance(node, ast.Constant):
        return ("const", _number(node, fn))
    if isinstance(node, ast.UnaryOp) and isinstance(node.op, ast.UAdd):
        return _expr(node.operand, fn)
    if isinstance(node, ast.UnaryOp) and isinstance(node.op, ast.USub):
        return ("const", _number(node, fn))
    if isinstance(node, ast.BinOp):
        if isinstance(node.op, ast.Mult):
            return ("mul", _expr(node.left, fn), _expr(node.right, fn))
        if isinstance(node.op, ast.Div):
            return ("div", _expr(node.left, fn), _expr(node.right, fn))
        if isinstance(node.op, ast.Pow):
            p = _number(node.right, fn)
            if p.denominator != 1 or (isinstance(node.right, ast.Constant)
                                      and isinstance(node.right.value, float)):
                _fail(node, "only integer literal exponents are translated", fn)
            return ("pow", _expr(node.left, fn), int(p))
        _fail(node, f"unrecognised operator {type(node.op).__name__}", fn)
    _fail(node, f"unrecognised expression {ast.dump(node)[:80]}", fn)


def _resolve(e, bases, props, stack, fn):
    k = e[0]
    if k == "name":
        n = e[1]
        if n in bases:
            return ("base", n)
        if n in props:
            if n in stack:
                raise TranslateError(f"{fn}: cyclic property definition via {n}")
            return _resolve(props[n], bases, props, stack + [n], fn)
        raise TranslateError(f"{fn}: self.{n} is neither a base unit nor a property")
    if k in ("const", "pi"):
        return e
    if k in ("mul", "div"):
        return (k, _resolve(e[1], bases, props, stack, fn), _resolve(e[2], bases, props, stack, fn))
    if k == "pow":
        return ("pow", _resolve(e[1], bases, props, stack, fn), e[2])
    raise TranslateError("internal: " + repr(e))


def _coq_expr(e):
    k = e[0]
    if k == "base":
        return f"(UBase {_cstr(e[1])})"
    if k == "const":
        return f"(UConst {_cq(e[1])})"
    if k == "pi":
        return "UPi"
    if k == "mul":
        return f"(UMul {_coq_expr(e[1])} {_coq_expr(e[2])})"
    if k == "div":
        return f"(UDiv {_coq_expr(e[1])} {_coq_expr(e[2])})"
    if k == "pow":
        return f"(UPow {_coq_expr(e[1])} ({e[2]}))"
    raise TranslateError("internal: " + repr(e))


def translate_units(path):
    fn = os.path.basename(path)
    tree = ast.parse(open(path).read(), filename=path)
    classes = [n for n in tree.body if isinstance(n, ast.ClassDef) and n.name == "Units"]
    if len(classes) != 1:
        raise TranslateError(f"{fn}: expected exactly one class Units")
    cls = classes[0]
    init = None
    props_raw = {}
    others = []
    for st in cls.body:
        if _is_docstring(st):
            continue
        if isinstance(st, ast.AnnAssign) and st.value is None and isinstance(st.target, ast.Name):
            continue  # bare annotation  m: number
        if isinstance(st, ast.FunctionDef):
            decos = [ast.unparse(d) for d in st.decorator_list]
            if decos == ["property"]:
                body = [b for b in st.body if not _is_docstring(b)]
                if len(body) != 1 or not isinstance(body[0], ast.Return) or body[0].value is None:
                    _fail(st, f"property {st.name}: body is not a single return statement", fn)
                if len(st.args.args) != 1 or st.args.args[0].arg != "self":
                    _fail(st, f"property {st.name}: unexpected signature", fn)
                props_raw[st.name] = _expr(body[0].value, fn)
            elif not decos:
                if st.name == "__init__":
                    init = st
                others.append(st.name)
            else:
                _fail(st, f"unrecognised decorators {decos} on {st.name}", fn)
            continue
        _fail(st, f"unrecognised statement in class Units: {type(st).__name__}", fn)
    if init is None:
        raise TranslateError(f"{fn}: Units.__init__ not found")

    # base units: the membership list and the kwargs.get assignments
    key_lists = []
    gets = []
    for node in ast.walk(init):
        if (isinstance(node, ast.Compare) and len(node.ops) == 1
                and isinstance(node.ops[0], ast.NotIn)
                and isinstance(node.left, ast.Name) and node.left.id == "key"):
            lst = node.comparators[0]
            if not isinstance(lst, (ast.List, ast.Tuple, ast.Set)) or not all(
                    isinstance(e, ast.Constant) and isinstance(e.value, str) for e in lst.elts):
                _fail(node, "the list of permitted keys is not a literal list of strings", fn)
            key_lists.append([e.value for e in lst.elts])
        tgt = val = None
        if isinstance(node, ast.AnnAssign):
            tgt, val = node.target, node.value
        elif isinstance(node, ast.Assign) and len(node.targets) == 1:
            tgt, val = node.targets[0], node.value
        if (tgt is not None and isinstance(tgt, ast.Attribute)
                and isinstance(tgt.value, ast.Name) and tgt.value.id == "self"):
            ok = (isinstance(val, ast.Call) and isinstance(val.func, ast.Attribute)
                  and val.func.attr == "get" and isinstance(val.func.value, ast.Name)
                  and val.func.value.id == "kwargs" and len(val.args) == 2
                  and not val.keywords and isinstance(val.args[0], ast.Constant)
                  and val.args[0].value == tgt.attr)
            if not ok:
                _fail(node, f"assignment to self.{tgt.attr} is not kwargs.get(\"{tgt.attr}\", "
                            "<default>)", fn)
            gets.append((tgt.attr, _number(val.args[1], fn)))
    if len(key_lists) != 1:
        raise TranslateError(f"{fn}: expected exactly one `key not in [...]` test in __init__")
    names = [g[0] for g in gets]
    if sorted(names) != sorted(key_lists[0]) or len(set(names)) != len(names):
        raise TranslateError(f"{fn}: permitted keys {key_lists[0]} differ from the attributes "
                             f"set in __init__ {names}")
    bases = [(b, dict(gets)[b]) for b in key_lists[0]]
    base_names = [b for b, _ in bases]
    for p in props_raw:
        if p in base_names:
            raise TranslateError(f"{fn}: {p} is both a base unit and a property")
    derived = [(p, _resolve(e, base_names, props_raw, [p], fn)) for p, e in props_raw.items()]
    if "convert_units" not in others:
        raise TranslateError(f"{fn}: Units.convert_units not found")
    return bases, derived, others


# --------------------------------------------------------------------------------------
# materials.py
# --------------------------------------------------------------------------------------
def _str_dict(node, fn):
    if not isinstance(node, ast.Dict):
        _fail(node, "expected a dict display", fn)
    out = []
    for k, v in zip(node.keys, node.values):
        if not (isinstance(k, ast.Constant) and isinstance(k.value, str)
                and isinstance(v, ast.Constant) and isinstance(v.value, str)):
            _fail(node, "SI_units entries must be string literal : string literal", fn)
        out.append((k.value, v.value))
    return out


def _merge(dst, items):
    d = dict(dst)
    order = [k for k, _ in dst]
    for k, v in items:
        if k not in d:
            order.append(k)
        d[k] = v
    return [(k, d[k]) for k in order]


def _si_value(node, tables, fn):
    if isinstance(node, ast.Dict):
        return _str_dict(node, fn)
    if isinstance(node, ast.Call) and isinstance(node.func, ast.Name) and node.func.id == "dict":
        out = []
        if len(node.args) > 1:
            _fail(node, "dict() with several positional arguments", fn)
        if node.args:
            out = _str_dict(node.args[0], fn)
        for kw in node.keywords:
            if kw.arg is None:
                v = kw.value
                if (isinstance(v, ast.Attribute) and v.attr == "SI_units"
                        and isinstance(v.value, ast.Name) and v.value.id in tables):
                    out = _merge(out, tables[v.value.id])
                else:
                    _fail(node, f"unrecognised ** argument {ast.dump(v)[:80]}", fn)
            else:
                if not (isinstance(kw.value, ast.Constant) and isinstance(kw.value.value, str)):
                    _fail(node, "dict(k=v): v is not a string literal", fn)
                out = _merge(out, [(kw.arg, kw.value.value)])
        return out
    _fail(node, f"unrecognised SI_units value {ast.dump(node)[:80]}", fn)


def translate_materials(path):
    fn = os.path.basename(path)
    tree = ast.parse(open(path).read(), filename=path)
    tables = {}
    for cls in tree.body:
        if not isinstance(cls, ast.ClassDef):
            continue
        cur = None
        for st in cls.body:
            tgt = val = None
            if isinstance(st, ast.AnnAssign):
                tgt, val = st.target, st.value
            elif isinstance(st, ast.Assign) and len(st.targets) == 1:
                tgt, val = st.targets[0], st.value
            if tgt is not None and isinstance(tgt, ast.Name) and tgt.id == "SI_units":
                if val is None:
                    _fail(st, "SI_units annotated without a value", fn)
                cur = _si_value(val, tables, fn)
                continue
            # any other statement that mentions SI_units must be SI_units.update({...})
            if any(isinstance(n, ast.Name) and n.id == "SI_units" for n in ast.walk(st)):
                ok = (isinstance(st, ast.Expr) and isinstance(st.value, ast.Call)
                      and isinstance(st.value.func, ast.Attribute)
                      and st.value.func.attr == "update"
                      and isinstance(st.value.func.value, ast.Name)
                      and st.value.func.value.id == "SI_units"
                      and len(st.value.args) == 1 and not st.value.keywords and cur is not None)
                if not ok:
                    _fail(st, "unrecognised statement touching SI_units in a class body", fn)
                cur = _merge(cur, _str_dict(st.value.args[0], fn))
        if cur is not None:
            tables[cls.name] = cur
    if not tables:
        raise TranslateError(f"{fn}: no SI_units tables found")
    return tables


def translate_material_fields(path, tables):
    """Dataclass fields (name, default) of every class that has an SI_units table."""
    fn = os.path.basename(path)
    tree = ast.parse(open(path).read(), filename=path)
    classes = {c.name: c for c in tree.body if isinstance(c, ast.ClassDef)}
    # utility fields: popped in Constants.__post_init__
    utility = []
    base = classes.get("Constants")
    if base is None:
        raise TranslateError(f"{fn}: class Constants not found")
    post = [f for f in base.body if isinstance(f, ast.FunctionDef) and f.name == "__post_init__"]
    if len(post) != 1:
        raise TranslateError(f"{fn}: Constants.__post_init__ not found")
    for node in ast.walk(post[0]):
        if (isinstance(node, ast.Call) and isinstance(node.func, ast.Attribute)
                and node.func.attr == "pop" and isinstance(node.func.value, ast.Name)
                and node.func.value.id == "constants"):
            if not (len(node.args) == 1 and isinstance(node.args[0], ast.Constant)
                    and isinstance(node.args[0].value, str)):
                _fail(node, "constants.pop(...) with a non-literal argument", fn)
            utility.append(node.args[0].value)
    if not utility:
        raise TranslateError(f"{fn}: no constants.pop(...) in Constants.__post_init__")

    def is_dataclass(cls):
        for d in cls.decorator_list:
            f = d.func if isinstance(d, ast.Call) else d
            if isinstance(f, ast.Name) and f.id == "dataclass":
                return True
            if isinstance(f, ast.Attribute) and f.attr == "dataclass":
                return True
        return False

    memo = {}

    def fields_of(name, stack):
        if name in memo:
            return memo[name]
        if name in stack:
            raise TranslateError(f"{fn}: cyclic inheritance via {name}")
        cls = classes[name]
        out = []
        # dataclass field order: fields of the bases in reverse MRO, then own fields
        for b in reversed(cls.bases):
            if isinstance(b, ast.Name) and b.id in classes:
                if b.id in tables or b.id == "Constants":
                    out = _merge(out, fields_of(b.id, stack + [name]))
            elif isinstance(b, ast.Name):
                continue  # imported, non-dataclass mixin (checked by the tie)
            else:
                _fail(cls, f"unrecognised base class expression of {name}", fn)
        if not is_dataclass(cls):
            raise TranslateError(f"{fn}: class {name} has an SI_units table but is not "
                                 "decorated with @dataclass")
        for st in cls.body:
            if not isinstance(st, ast.AnnAssign) or not isinstance(st.target, ast.Name):
                continue
            fname = st.target.id
            if "ClassVar" in ast.unparse(st.annotation):
                continue
            if fname in utility:
                continue
            if st.value is None:
                _fail(st, f"field {name}.{fname} has no default", fn)
            out = _merge(out, [(fname, _number(st.value, fn))])
        memo[name] = out
        return out

    return {name: fields_of(name, []) for name in tables}, utility


# --------------------------------------------------------------------------------------
def render(bases, derived, others, tables, src_units, src_mat, fields=None):
    L = []
    L.append("(* GENERATED on every run by harness/translator/units_tables.py from")
    L.append(f"     {src_units}")
    L.append(f"     {src_mat}")
    L.append("   Do not edit; not committed. *)")
    L.append("From Coq Require Import String List ZArith QArith.")
    L.append("Import ListNotations.")
    L.append("From PP Require Import Model.C43.")
    L.append("Open Scope string_scope.")
    L.append("")
    L.append("(* base units of class Units with the defaults of Units.__init__ *)")
    L.append("Definition base_units : list (string * Q) :=")
    L.append("  [" + "; ".join(f"({_cstr(b)}, {_cq(d)})" for b, d in bases) + "].")
    L.append("Definition base_names : list string := map fst base_units.")
    L.append("")
    L.append("(* bodies of the @property methods of class Units *)")
    L.append("Definition derived_table : list (string * uexpr) :=")
    L.append("  [" + ";\n   ".join(f"({_cstr(p)}, {_coq_expr(e)})" for p, e in derived) + "].")
    L.append("")
    L.append("(* the other functions defined in class Units *)")
    L.append("Definition other_attrs : list string :=")
    L.append("  [" + "; ".join(_cstr(o) for o in others) + "].")
    L.append("")
    L.append("(* SI_units dictionaries of the material constants classes *)")
    L.append("Definition si_tables : list (string * list (string * string)) :=")
    rows = []
    for cname, tab in tables.items():
        ent = ";\n      ".join(f"({_cstr(k)}, {_cstr(v)})" for k, v in tab)
        rows.append(f"({_cstr(cname)},\n     [{ent}])")
    L.append("  [" + ";\n   ".join(rows) + "].")
    L.append("")
    if fields is not None:
        L.append("(* dataclass fields (with defaults) of the material constants classes *)")
        L.append("Definition class_fields : list (string * list (string * Q)) :=")
        rows = []
        for cname, fl in fields.items():
            ent = ";\n      ".join(f"({_cstr(k)}, {_cq(v)})" for k, v in fl)
            rows.append(f"({_cstr(cname)},\n     [{ent}])")
        L.append("  [" + ";\n   ".join(rows) + "].")
        L.append("")
    return "\n".join(L)


def generate(repo, out_path):
    src_units = os.path.join(repo, "src", "porepy", "models", "units.py")
    src_mat = os.path.join(repo, "src", "porepy", "compositional", "materials.py")
    bases, derived, others = translate_units(src_units)
    tables = translate_materials(src_mat)
    fields, utility = translate_material_fields(src_mat, tables)
    text = render(bases, derived, others, tables, src_units, src_mat, fields)
    os.makedirs(os.path.dirname(out_path), exist_ok=True)
    old = open(out_path).read() if os.path.exists(out_path) else None
    if old != text:
        tmp = out_path + ".tmp"
        with open(tmp, "w") as f:
            f.write(text)
        os.replace(tmp, out_path)
    return {"bases": bases, "derived": derived, "others": others, "tables": tables,
            "fields": fields, "utility": utility}


if __name__ == "__main__":
    here = os.path.dirname(os.path.dirname(os.path.dirname(os.path.abspath(__file__))))
    repo = os.environ.get("VERIF_REPO", "/repo")
    try:
        info = generate(repo, os.path.join(here, "coq", "Gen", "C43_tables.v"))
    except TranslateError as e:
        print("translator failed (fail-closed):", e)
        sys.exit(1)
    print("generated coq/Gen/C43_tables.v:", len(info["bases"]), "base units,",
          len(info["derived"]), "derived units,", len(info["tables"]), "SI_units tables")
