"""C35 — sparse-matrix utilities and index helpers against dense reference semantics.

Utilities with a Coq model AND theorems (tie = raw arrays compared by Coq, then dense):
  expand_index_pointers, expand_indices_nd, expand_indices_add_increment, rlencode,
  rldecode, slice_sparse_matrix, slice_indices, zero_rows, zero_columns, stack_mat,
  stack_diag, merge_matrices, block_diag_index (both call forms), block_diag_matrix,
  csr/csc_matrix_from_sparse_blocks (blocks in the requested format),
  csr/csc_matrix_from_dense_blocks.
Oracle-only (dense numpy reference on generated inputs, no Coq model):
  sparse_kronecker_product (a wrapper of scipy.sparse.kron), format conversion of blocks
  handed to *_from_sparse_blocks in the other format, and every DATA TYPE question (the
  Coq models work with exact values; result data types are checked by the oracle).
"""
from fractions import Fraction

import numpy as np
import scipy.sparse as sps

from harness.core import Prop, cz, cnat, clist, cbool

import porepy as pp

mo = pp.matrix_operations
ao = pp.array_operations

ERR = {IndexError: "IndexErr", ValueError: "ValueErr"}


# ------------------------------------------------------------------ helpers
DTYPES = ["bool", "int8", "int32", "int64", "float32", "float64"]
FLOATS = [-2.5, -1.25, -0.5, 0.0, 0.5, 0.75, 1.5, 2.5, 3.0]   # mostly non-integral, all k/4
INTS = [-3, -2, -1, 0, 1, 2, 3, 4]


def gen_vals(rng, dt, k):
    """k values of dtype dt as plain python numbers (bool as 0/1)."""
    if dt == "bool":
        return [rng.choice([1, 1, 0]) for _ in range(k)]
    if dt.startswith("float"):
        return [rng.choice(FLOATS) for _ in range(k)]
    return [rng.choice(INTS) for _ in range(k)]


def dt_of(M):
    return M.get("dtype", "int64")


def arr(vals, dt):
    return np.array(vals, dtype=np.dtype(dt))


def mk(M):
    """scipy matrix with exactly the given raw arrays and data type (no sorting, no summing)."""
    arrs = (arr(M["data"], dt_of(M)), np.array(M["indices"], dtype=np.int32),
            np.array(M["indptr"], dtype=np.int32))
    if M["fmt"] == "csr":
        return sps.csr_matrix(arrs, shape=(M["nmaj"], M["nmin"]))
    return sps.csc_matrix(arrs, shape=(M["nmin"], M["nmaj"]))


def ints(a):
    a = np.asarray(a)
    out = [int(x) for x in a.ravel()]
    assert all(float(o) == float(x) for o, x in zip(out, a.ravel())), "non-integer value"
    return out


def nums(a):
    """Exact python numbers of a data array (bool -> 0/1, integers -> int, floats -> float)."""
    a = np.asarray(a)
    if a.dtype.kind in "bui":
        return [int(x) for x in a.ravel()]
    assert a.dtype.kind == "f", a.dtype
    return [float(x) for x in a.ravel()]


def q4(x):
    """Values are multiples of 1/4: the Coq side works with 4*x in Z (all models are linear)."""
    f = Fraction(x) * 4
    assert f.denominator == 1, f"value {x} is not a multiple of 1/4"
    return int(f)


def cz4(x):
    return cz(q4(x))


def dump(S):
    fmt = S.getformat()
    assert fmt in ("csr", "csc")
    nmaj, nmin = (S.shape if fmt == "csr" else S.shape[::-1])
    return {"fmt": fmt, "nmaj": int(nmaj), "nmin": int(nmin), "indptr": ints(S.indptr),
            "indices": ints(S.indices), "data": nums(S.data), "dtype": str(S.data.dtype)}


def dense_of_raw(M):
    """Independent dense reference of a raw triple: list of lines (duplicates summed)."""
    D = [[0] * M["nmin"] for _ in range(M["nmaj"])]
    for i in range(M["nmaj"]):
        for k in range(M["indptr"][i], M["indptr"][i + 1]):
            D[i][M["indices"][k]] += M["data"][k]
    return D


def sane(S):
    """The raw arrays of S describe a valid matrix.  Checked BEFORE any scipy routine touches a
    result: toarray() on malformed storage reads or writes out of bounds (segfault)."""
    if S.getformat() not in ("csr", "csc"):
        return True
    return raw_ok(dump(S))


def full_of(S):
    """toarray() as exact numbers, or None for malformed storage."""
    if not sane(S):
        return None
    return [nums(r) for r in S.toarray()]


def lines_of(S):
    """Dense lines of a scipy result (rows for csr, columns for csc); None if malformed."""
    if not sane(S):
        return None
    A = S.toarray()
    if S.getformat() == "csc":
        A = A.T
    return [nums(r) for r in A]


def same_raw(R, M):
    """Raw storage and data type of a dumped result equal those of the case matrix M."""
    return all(R[k] == M[k] for k in ("fmt", "nmaj", "nmin", "indptr", "indices", "data")) \
        and R["dtype"] == dt_of(M)


def promoted(*Ms):
    return str(np.result_type(*[np.dtype(dt_of(M)) for M in Ms]))


def raw_ok(R):
    """Structural sanity of a raw result (what scipy's check_format asks)."""
    ip = R["indptr"]
    return (len(ip) == R["nmaj"] + 1 and ip[0] == 0 and all(a <= b for a, b in zip(ip, ip[1:]))
            and ip[-1] == len(R["indices"]) == len(R["data"])
            and all(0 <= j < R["nmin"] for j in R["indices"]))


def gen_mat(rng, fmt=None, nmaj=None, nmin=None, dtype=None, nodup=False):
    fmt = fmt or rng.choice(["csr", "csc"])
    dtype = dtype or rng.choice(DTYPES)
    nmaj = rng.randint(0, 5) if nmaj is None else nmaj
    nmin = rng.randint(0, 5) if nmin is None else nmin
    indptr, indices, data = [0], [], []
    # duplicate indices are summed by toarray(); for bool data scipy's sum is a logical or,
    # which is not the arithmetic reference: no duplicates there
    dup = rng.random() < 0.12 and dtype != "bool" and not nodup
    for _ in range(nmaj):
        if nmin > 0 and rng.random() > 0.3:
            k = rng.randint(1, min(nmin, 4))
            if dup:
                idx = [rng.randrange(nmin) for _ in range(k)]
            else:
                idx = rng.sample(range(nmin), k)  # unsorted, duplicate free
            indices += idx
            data += gen_vals(rng, dtype, len(idx))
        indptr.append(len(indices))
    return {"fmt": fmt, "nmaj": nmaj, "nmin": nmin, "indptr": indptr, "indices": indices,
            "data": data, "dtype": dtype}


def ccsr(M):
    return (f"(mkcsr {cnat(M['nmaj'])} {cnat(M['nmin'])} {clist(M['indptr'], cnat)} "
            f"{clist(M['indices'], cnat)} {clist(M['data'], cz4)})")


def cres(r, f):
    return f"(Ok {f(r['ok'])})" if "ok" in r else f"(Err {r['err']})"


def cllz(ll):
    """list of lists of DATA values (scaled by 4)"""
    return clist(ll, lambda l: clist(l, cz4))


def guarded(f):
    try:
        return {"ok": f()}
    except (IndexError, ValueError) as e:
        return {"err": ERR[type(e)]}


# ------------------------------------------------------------------ the property
class C35(Prop):
    id = "C35"
    props_file = "Props/C35.v"
    preamble = ("From Coq Require Import List ZArith.\nImport ListNotations.\n"
                "From PP Require Import Lib.Csr Model.C35.\n")
    n_cases = (600, 12000)
    design_ref = "DESIGN.md §5 C35"
    level_text = (
        "Coq theorems over an executable transcription of the utilities, with compressed storage "
        "(one record for csr and csc, lines along the compressed axis) and its dense reference "
        "to_dense (duplicates summed, stored zeros kept): expand_index_pointers = concatenated "
        "aranges for all integer bounds, with broadcasting and the ValueError branch; "
        "expand_indices_nd (order F and C) and expand_indices_add_increment = closed form of the "
        "ravelled broadcast array; rldecode = np.repeat for all counts (zero/negative included), "
        "element types and operand lengths (IndexError exactly when a positive count lies beyond A); "
        "rlencode round-trips through rldecode with positive counts and maximal compression; "
        "slice_sparse_matrix / slice_indices return exactly the selected stored lines (any order, "
        "repeats) and hence the dense A[ind,:] / A[:,ind], IndexError otherwise; zero_rows / "
        "zero_columns zero exactly the selected lines and keep the structure; stack_mat = "
        "vstack/hstack; stack_diag = [[A,0],[0,B]] densely; merge_matrices (as repaired) replaces "
        "line lines[k] by line k of B for distinct lines IN ANY ORDER (argsort + np.insert + mask + "
        "cumsum bookkeeping), densely A[lines,:] = B / A[:,lines] = B, with its three ValueError "
        "checks; block_diag_index(m) and block_diag_index(m, n) = closed forms (zero extents "
        "allowed); csr/csc_matrix_from_sparse_blocks = block diagonal of the (rectangular) dense "
        "blocks; block_diag_matrix and csr/csc_matrix_from_dense_blocks = block diagonal of the "
        "line-major square reshapes of the values (incl. the tile/reshape index construction and the "
        "ValueError on a wrong data size); all for every well-formed matrix (unsorted or duplicate "
        "indices, empty lines, empty extents). The models are tied to the code on every run: the real functions and the "
        "models are executed on the same generated csr/csc triples and index sets and Coq compares "
        "the raw indptr/indices/data/shape and the dense form. Every utility of the property, "
        "modelled or not, is also checked against an independent dense numpy reference on the "
        "generated inputs.")
    level_note = (
        "NOT proved (oracle-only, no Coq model): sparse_kronecker_product (a two-line wrapper of "
        "scipy.sparse.kron(...).tocsc(): there is no porepy logic to transcribe); blocks given to "
        "*_from_sparse_blocks in the other storage format (scipy's asformat converts them first). "
        "DATA TYPES are outside the Coq models: the models compute with exact values (every generated "
        "value is a multiple of 1/4 and enters Coq multiplied by 4; all modelled operations are "
        "copies and sums); that the implementation neither truncates nor narrows values is checked by "
        "the oracle, which compares exact values and the result data type with numpy's promotion "
        "(stack_mat with a non-empty B, stack_diag, *_from_sparse_blocks, sparse_kronecker_product "
        "for nd > 1) or with the operand's type (all others; merge_matrices keeps A's type and casts "
        "B's values like the dense assignment does - that elementwise cast is applied by numpy in the "
        "harness before the values enter the model). Tied but not proved: the IndexError branch of merge_matrices "
        "(a line number outside A). np.insert, np.argsort, fancy-index assignment, boolean masks and "
        "slice assignment are modelled by their documented semantics (insert: stable, in front of the "
        "old element at that position), not by numpy's implementation. csc is covered by reading the "
        "same record column-wise (the code does not branch on the format apart from the shape); no "
        "separate transpose theorem. Trusted: Coq kernel + vm_compute; the harness (generator, "
        "conversion of boolean masks / single ints to index lists with numpy, literal emission); "
        "integer data stand for floats; scipy's constructor keeps the raw arrays it is given; "
        "negative (wrap-around) indices and malformed storage are outside the theorems' guards and "
        "not generated. The theorems are about the models; the implementation is covered on the "
        "generated inputs only.")
    technique = ("Coq proof (list induction over compressed storage, cumulative-sum/scatter "
                 "invariants, insertion-sort permutation argument for the unsorted merge) + vm_compute "
                 "execution correspondence + dense numpy oracle")
    rule = ("per case one utility with random small inputs: csr/csc triples with 0-5 lines, 0-5 "
            "minor extent, ~30% empty lines, unsorted indices, 12% with duplicate indices, stored "
            "zeros; index sets unsorted with repeats (slice/zero), unique unsorted and 30% sorted (merge, "
            "plus ~12% invalid: shape/count mismatch, repeated or out-of-range line), boolean "
            "masks and single ints; integer bounds of any sign, empty and reversed ranges, "
            "broadcast and mismatching lengths (expand); counts with zeros and negatives, 2-D "
            "operands (rldecode); blocks with zero extents; DATA TYPES: every matrix / value array draws "
            "its dtype from bool, int8, int32, int64, float32, float64 independently (so A vs B in "
            "merge/stack and the blocks of a block list mix types in every order; merge: 50% equal "
            "types), float values mostly non-integral multiples of 1/4 so that truncation is visible; "
            "bool matrices and the mixed-type B of a merge carry no duplicate indices; INDEX TYPES: the "
            "integer bound / count / line-number / size arguments of expand_index_pointers, "
            "expand_indices_*, rldecode, slice_*, zero_*, merge_matrices, block_diag_index/matrix are "
            "numpy arrays of a type drawn from uint8..uint64, int8..int64 (65% not int64), values in "
            "range, selections permuted / repeated / decreasing; "
            "non-trivial = non-empty operand; "
            "distinct by (case, output)")
    trusted = ["values are multiples of 1/4 and enter Coq as 4*x in Z (all modelled operations are "
               "copies/sums, hence linear); numpy's elementwise cast of B to A's dtype in merge",
               "sps.csr_matrix((data, indices, indptr), shape) stores the arrays unchanged"]
    assumptions = ["line/index arguments are non-negative (no numpy wrap-around) numpy integer arrays",
                   "matrices are well-formed compressed storage (scipy check_format)",
                   "rlencode of a 0 x 0 array (no rows and no columns; numpy skips the bounds check "
                   "and returns one empty column with count 0) is not generated: the model sees "
                   "only the list of columns and answers IndexError for every array without columns"]

    FNS = [("expand", 10), ("expand_nd", 3), ("expand_incr", 2), ("rlencode", 7),
           ("rldecode", 9), ("slice", 12), ("slice_indices", 5), ("zero", 8),
           ("stack_mat", 8), ("stack_diag", 8), ("merge", 12), ("blocks_sparse", 5),
           ("blocks_dense", 3), ("bdi", 5), ("bdm", 2), ("kron", 3)]

    # -------------------------------------------------------------- generator
    def generate(self, rng, n, tier):
        names = [f for f, _ in self.FNS]
        weights = [w for _, w in self.FNS]
        for _ in range(n):
            fn = rng.choices(names, weights)[0]
            case = getattr(self, "g_" + fn)(rng)
            self._index_dtype(rng, case)
            yield case

    #: data types of integer index / count / pointer arguments
    IDTYPES = ["uint8", "uint16", "uint32", "uint64", "int8", "int16", "int32", "int64"]
    #: per utility: the integer-array arguments that receive the drawn type
    INDEX_ARGS = {"expand": ["lo", "hi"], "expand_nd": ["ind"], "expand_incr": ["x"],
                  "rldecode": ["n"], "slice": ["ind"], "slice_indices": ["ind"], "zero": ["ind"],
                  "merge": ["lines"], "bdi": ["m", "n"], "bdm": ["sz"]}

    def _index_dtype(self, rng, case):
        """Draw the dtype of the integer arguments (65% narrow/unsigned) and keep the values in
        its range: unsigned types get no negative value (bounds are shifted, counts clipped)."""
        args = [a for a in self.INDEX_ARGS.get(case["fn"], []) if isinstance(case.get(a), list)]
        if not args:
            return
        idt = rng.choice(self.IDTYPES) if rng.random() < 0.65 else "int64"
        case["idt"] = idt
        if idt.startswith("u"):
            low = min([v for a in args for v in case[a]] + [0])
            if low < 0:
                if case["fn"] == "rldecode":
                    case["n"] = [max(c, 0) for c in case["n"]]
                else:
                    for a in args:
                        case[a] = [v - low for v in case[a]]

    def g_expand(self, rng):
        k = rng.choice([0, 1, 1, 2, 3, 4, 5, 6])
        r = rng.random()
        lo = [rng.randint(-4, 8) for _ in range(k)]
        if r < 0.65:
            hi = [l + rng.choice([-2, -1, 0, 0, 1, 1, 2, 3, 4]) for l in lo]
        elif r < 0.75:
            hi = [rng.randint(-4, 8)]
        elif r < 0.85:
            hi = [rng.randint(-4, 8) for _ in range(k)]
            lo = [rng.randint(-4, 8)]
        else:
            hi = [rng.randint(-4, 10) for _ in range(rng.randint(0, 5))]
        return {"fn": "expand", "lo": lo, "hi": hi}

    def g_expand_nd(self, rng):
        return {"fn": "expand_nd", "ind": [rng.randint(0, 9) for _ in range(rng.randint(0, 5))],
                "nd": rng.randint(1, 4), "order": rng.choice(["F", "C"])}

    def g_expand_incr(self, rng):
        return {"fn": "expand_incr", "x": [rng.randint(0, 9) for _ in range(rng.randint(0, 5))],
                "n": rng.randint(0, 4), "incr": rng.choice([0, 1, 7, 200, -3])}

    def g_rlencode(self, rng):
        m = rng.choice([0, 1, 1, 2, 3])
        k = rng.choice([0, 1, 2, 3, 5, 8, 10])
        if m == 0 and k == 0:
            k = 1  # a 0 x 0 array: numpy skips the bounds check of A[:, [-1]]; not modelled
        dt = rng.choice(DTYPES)
        pool = {"bool": [0, 1]}.get(dt, FLOATS[3:6] if dt.startswith("float") else [0, 1, 2])
        cols, cur = [], None
        for _ in range(k):
            if cur is None or rng.random() < 0.45:
                cur = [rng.choice(pool) for _ in range(m)]
            cols.append(list(cur))
        return {"fn": "rlencode", "m": m, "cols": cols, "dtype": dt}

    def g_rldecode(self, rng):
        k = rng.randint(0, 6)
        n = [rng.choice([0, 0, 1, 1, 2, 3, 4]) for _ in range(k)]
        if rng.random() < 0.06:
            n = [c if rng.random() < 0.7 else -rng.randint(1, 2) for c in n]
        la = k
        r = rng.random()
        if r < 0.12:
            la = k + rng.randint(1, 3)
        elif r < 0.2 and k > 0:
            la = k - rng.randint(1, k)
        dt = rng.choice(DTYPES)
        if rng.random() < 0.15:
            A = [gen_vals(rng, dt, 2) for _ in range(la)]
            return {"fn": "rldecode", "A2": A, "n": n, "dtype": dt}
        return {"fn": "rldecode", "A": gen_vals(rng, dt, la), "n": n, "dtype": dt}

    def _lines(self, rng, M, unique=False, bad=0.05):
        nm = M["nmaj"]
        if nm == 0:
            return [] if rng.random() > bad else [0]
        if unique:
            return rng.sample(range(nm), rng.randint(0, nm))
        ind = [rng.randrange(nm) for _ in range(rng.randint(0, nm + 2))]
        if rng.random() < bad:
            ind.insert(rng.randint(0, len(ind)), nm + rng.randint(0, 1))
        return ind

    def g_slice(self, rng):
        M = gen_mat(rng)
        r = rng.random()
        if r < 0.12 and M["nmaj"] > 0:
            return {"fn": "slice", "M": M, "kind": "bool",
                    "mask": [rng.random() < 0.5 for _ in range(M["nmaj"])]}
        if r < 0.2 and M["nmaj"] > 0:
            return {"fn": "slice", "M": M, "kind": "int", "ind": [rng.randrange(M["nmaj"])]}
        return {"fn": "slice", "M": M, "kind": "array", "ind": self._lines(rng, M)}

    def g_slice_indices(self, rng):
        M = gen_mat(rng)
        if rng.random() < 0.15 and M["nmaj"] > 0:
            return {"fn": "slice_indices", "M": M, "kind": "bool",
                    "mask": [rng.random() < 0.5 for _ in range(M["nmaj"])]}
        return {"fn": "slice_indices", "M": M, "kind": "array", "ind": self._lines(rng, M)}

    def g_zero(self, rng):
        M = gen_mat(rng)
        return {"fn": "zero", "M": M, "ind": self._lines(rng, M)}

    def g_stack_mat(self, rng):
        A = gen_mat(rng)
        nmin = A["nmin"] if rng.random() > 0.06 else A["nmin"] + 1
        B = gen_mat(rng, fmt=A["fmt"], nmin=nmin,
                    nmaj=0 if rng.random() < 0.15 else None)
        return {"fn": "stack_mat", "A": A, "B": B}

    def g_stack_diag(self, rng):
        A = gen_mat(rng)
        B = gen_mat(rng, fmt=A["fmt"], nmaj=0 if rng.random() < 0.2 else None)
        return {"fn": "stack_diag", "A": A, "B": B}

    def g_merge(self, rng):
        A = gen_mat(rng, nmaj=rng.randint(1, 6))
        lines = self._lines(rng, A, unique=True)
        if rng.random() < 0.3:
            lines = sorted(lines)
        nb, nmin = len(lines), A["nmin"]
        r = rng.random()
        if r < 0.03:
            nmin += 1                                  # ValueError: shape mismatch
        elif r < 0.06:
            nb += 1                                    # ValueError: one line of B too many
        elif r < 0.09 and lines:
            lines = lines + [rng.choice(lines)]        # ValueError: repeated line
            nb += 1
        elif r < 0.12:
            lines = lines + [A["nmaj"] + rng.randint(0, 1)]   # IndexError: no such line
            rng.shuffle(lines)
            nb += 1
        # half of the merges mix the data types of A and B.  B's values are then cast to A's
        # type entry by entry (np.insert), which equals the dense assignment A[lines] = B only
        # if B has no duplicate entries: none are generated in that case
        dtb = A["dtype"] if rng.random() < 0.5 else rng.choice(DTYPES)
        B = gen_mat(rng, fmt=A["fmt"], nmaj=nb, nmin=nmin, dtype=dtb, nodup=(dtb != A["dtype"]))
        return {"fn": "merge", "A": A, "B": B, "lines": lines}

    def g_blocks_sparse(self, rng):
        fmt = rng.choice(["csr", "csc"])
        same = rng.random() < 0.7      # blocks already in the requested format (the modelled path)
        blocks = []
        for _ in range(rng.choice([0, 1, 1, 2, 2, 3, 3, 4])):
            b = gen_mat(rng, fmt=fmt if same else None, nmaj=rng.randint(0, 3), nmin=rng.randint(0, 3))
            blocks.append(b)
        return {"fn": "blocks_sparse", "fmt": fmt, "blocks": blocks}

    def g_blocks_dense(self, rng):
        bs, nb = rng.randint(1, 3), rng.randint(0, 3)
        dt = rng.choice(DTYPES)
        extra = rng.choice([1, 2]) if rng.random() < 0.08 else 0    # ValueError: wrong data size
        return {"fn": "blocks_dense", "fmt": rng.choice(["csr", "csc"]), "bs": bs, "nb": nb,
                "data": gen_vals(rng, dt, bs * bs * nb + extra), "dtype": dt}

    def g_bdi(self, rng):
        k = rng.randint(1, 4)
        lo = 0 if rng.random() < 0.3 else 1
        m = [rng.randint(lo, 3) for _ in range(k)]
        if rng.random() < 0.5:
            return {"fn": "bdi", "m": m, "n": None}
        return {"fn": "bdi", "m": m, "n": [rng.randint(lo, 3) for _ in range(k)]}

    def g_bdm(self, rng):
        sz = [rng.randint(1, 3) for _ in range(rng.randint(1, 3))]
        dt = rng.choice(DTYPES)
        return {"fn": "bdm", "sz": sz, "vals": gen_vals(rng, dt, sum(s * s for s in sz)), "dtype": dt}

    def g_kron(self, rng):
        return {"fn": "kron", "M": gen_mat(rng, nmaj=rng.randint(0, 3), nmin=rng.randint(0, 3)),
                "nd": rng.randint(1, 3)}

    # -------------------------------------------------------------- implementation
    @staticmethod
    def _index(case):
        """(argument for the real call, effective index list) of a slicing case."""
        if case["kind"] == "bool":
            mask = np.array(case["mask"], dtype=bool)
            return mask, [int(i) for i in np.where(mask)[0]]
        if case["kind"] == "int":
            return int(case["ind"][0]), list(case["ind"])
        return np.array(case["ind"], dtype=np.dtype(case.get("idt", "int64"))), list(case["ind"])

    def run_impl(self, case):
        fn = case["fn"]
        ia = lambda l: np.array(l, dtype=np.dtype(case.get("idt", "int64")))
        if fn == "expand":
            return guarded(lambda: ints(ao.expand_index_pointers(ia(case["lo"]), ia(case["hi"]))))
        if fn == "expand_nd":
            return {"ok": ints(ao.expand_indices_nd(ia(case["ind"]), case["nd"], case["order"]))}
        if fn == "expand_incr":
            return {"ok": ints(ao.expand_indices_add_increment(ia(case["x"]), case["n"], case["incr"]))}
        if fn == "rlencode":
            A = arr(case["cols"], dt_of(case)).reshape(len(case["cols"]), case["m"]).T

            def f():
                v, num = mo.rlencode(A)
                return {"cols": [nums(c) for c in v.T], "num": ints(num), "dtype": str(v.dtype)}
            return guarded(f)
        if fn == "rldecode":
            if "A2" in case:
                A = arr(case["A2"], dt_of(case)).reshape(len(case["A2"]), 2)
                r = guarded(lambda: mo.rldecode(A, ia(case["n"])))
                if "ok" in r:
                    r = {"ok": [nums(x) for x in r["ok"]], "dtype": str(r["ok"].dtype)}
                return r
            r = guarded(lambda: mo.rldecode(arr(case["A"], dt_of(case)), ia(case["n"])))
            if "ok" in r:
                r = {"ok": nums(r["ok"]), "dtype": str(r["ok"].dtype)}
            return r
        if fn == "slice":
            arg, _ = self._index(case)

            def f():
                S = mo.slice_sparse_matrix(mk(case["M"]), arg)
                return {"raw": dump(S), "dense": lines_of(S)}
            return guarded(f)
        if fn == "slice_indices":
            arg, _ = self._index(case)

            def f():
                ix, ai = mo.slice_indices(mk(case["M"]), arg, return_array_ind=True)
                return {"ix": ints(ix), "ai": ints(ai)}
            return guarded(f)
        if fn == "zero":
            def f():
                A = mk(case["M"])
                (mo.zero_rows if case["M"]["fmt"] == "csr" else mo.zero_columns)(A, ia(case["ind"]))
                return {"raw": dump(A), "dense": lines_of(A)}
            return guarded(f)
        if fn == "stack_mat":
            def f():
                A, B = mk(case["A"]), mk(case["B"])
                mo.stack_mat(A, B)
                return {"raw": dump(A), "dense": lines_of(A)}
            return guarded(f)
        if fn == "stack_diag":
            def f():
                A, B = mk(case["A"]), mk(case["B"])
                C = mo.stack_diag(A, B)
                return {"raw": dump(C), "dense": lines_of(C), "A": dump(A), "B": dump(B)}
            return guarded(f)
        if fn == "merge":
            def f():
                A, B = mk(case["A"]), mk(case["B"])
                mo.merge_matrices(A, B, ia(case["lines"]), case["A"]["fmt"])
                return {"raw": dump(A), "dense": lines_of(A), "B": dump(B)}
            return guarded(f)
        if fn == "blocks_sparse":
            blocks = [mk(b) for b in case["blocks"]]
            f = mo.csr_matrix_from_sparse_blocks if case["fmt"] == "csr" else mo.csc_matrix_from_sparse_blocks

            def g():
                S = f(blocks)
                return {"raw": dump(S), "full": full_of(S), "shape": [int(s) for s in S.shape]}
            return guarded(g)
        if fn == "blocks_dense":
            f = mo.csr_matrix_from_dense_blocks if case["fmt"] == "csr" else mo.csc_matrix_from_dense_blocks
            def g():
                S = f(arr(case["data"], dt_of(case)), case["bs"], case["nb"])
                return {"raw": dump(S), "full": full_of(S)}
            return guarded(g)
        if fn == "bdi":
            if case["n"] is None:
                return {"ok": {"i": ints(mo.block_diag_index(ia(case["m"])))}}
            i, j = mo.block_diag_index(ia(case["m"]), ia(case["n"]))
            return {"ok": {"i": ints(i), "j": ints(j)}}
        if fn == "bdm":
            S = mo.block_diag_matrix(arr(case["vals"], dt_of(case)), ia(case["sz"]))
            return {"ok": {"raw": dump(S), "full": full_of(S)}}
        if fn == "kron":
            S = mo.sparse_kronecker_product(mk(case["M"]), case["nd"])
            return {"ok": {"full": full_of(S), "fmt": S.getformat(), "dtype": str(S.dtype)}}
        raise ValueError(fn)

    # -------------------------------------------------------------- oracle (dense reference)
    @staticmethod
    def _malformed(res):
        o = res.get("ok") if isinstance(res, dict) else None
        return isinstance(o, dict) and any(k in o and o[k] is None for k in ("dense", "full"))

    def oracle(self, case, res):
        fn = case["fn"]
        if self._malformed(res):
            return (f"{fn}: the result is not valid compressed storage (index pointer / indices / "
                    f"data inconsistent with the shape): {res['ok'].get('raw')}")
        return getattr(self, "o_" + fn)(case, res)

    def o_expand(self, case, res):
        lo, hi = case["lo"], case["hi"]
        if len(lo) == 1:
            lo = lo * len(hi)
        if len(hi) == 1:
            hi = hi * len(lo)
        if len(lo) != len(hi):
            return None  # outside the documented domain
        exp = [x for l, h in zip(lo, hi) for x in range(l, h)]
        if res.get("ok") != exp:
            return f"expand_index_pointers returned {res}, concatenated aranges are {exp}"

    def o_expand_nd(self, case, res):
        ind, nd = case["ind"], case["nd"]
        A = np.array([[nd * i + d for i in ind] for d in range(nd)], dtype=int).reshape(nd, len(ind))
        exp = ints(A.ravel(case["order"]))
        if res["ok"] != exp:
            return f"expand_indices_nd returned {res['ok']}, expected {exp}"

    def o_expand_incr(self, case, res):
        exp = [v + case["incr"] * k for v in case["x"] for k in range(case["n"])]
        if res["ok"] != exp:
            return f"expand_indices_add_increment returned {res['ok']}, expected {exp}"

    def o_rlencode(self, case, res):
        cols = case["cols"]
        if not cols:
            return None  # no columns: outside the domain (IndexError is acceptable)
        if "ok" not in res:
            return f"rlencode raised {res['err']} on a non-empty array"
        v, num = res["ok"]["cols"], res["ok"]["num"]
        if len(v) != len(num) or any(c <= 0 for c in num):
            return f"rlencode counts {num} for {len(v)} columns"
        dec = [c for c, k in zip(v, num) for _ in range(k)]
        if dec != cols:
            return f"np.repeat(rlencode(A)) = {dec} differs from A = {cols}"
        if any(a == b for a, b in zip(v, v[1:])):
            return "rlencode kept two equal neighbouring columns"
        if res["ok"]["dtype"] != dt_of(case):
            return f"rlencode changed the data type {dt_of(case)} -> {res['ok']['dtype']}"

    def o_rldecode(self, case, res):
        A = case.get("A", case.get("A2"))
        n = case["n"]
        if len(A) < len(n) or any(c < 0 for c in n):
            return None  # outside the documented domain
        exp = [a for a, c in zip(A, n) for _ in range(c)]  # np.repeat(A[:len(n)], n)
        if res.get("ok") != exp:
            return f"rldecode returned {res}, np.repeat gives {exp}"
        if res["dtype"] != dt_of(case):
            return f"rldecode changed the data type {dt_of(case)} -> {res['dtype']}"

    def _sel_oracle(self, case, res, what):
        M = case["M"]
        _, ind = self._index(case)
        if any(i >= M["nmaj"] for i in ind):
            if "ok" in res:
                return f"{what} accepted an out-of-range line"
            return None
        if "ok" not in res:
            return f"{what} raised {res['err']} on valid lines {ind}"
        return ind

    def o_slice(self, case, res):
        ind = self._sel_oracle(case, res, "slice_sparse_matrix")
        if not isinstance(ind, list):
            return ind
        D = dense_of_raw(case["M"])
        exp = [D[i] for i in ind]
        R = res["ok"]["raw"]
        if not raw_ok(R) or R["fmt"] != case["M"]["fmt"]:
            return f"slice_sparse_matrix returned malformed storage {R}"
        if (R["nmaj"], R["nmin"]) != (len(ind), case["M"]["nmin"]) or res["ok"]["dense"] != exp:
            return f"slice {ind}: dense result {res['ok']['dense']} differs from dense slicing {exp}"
        if R["dtype"] != dt_of(case["M"]):
            return f"slice_sparse_matrix changed the data type {dt_of(case['M'])} -> {R['dtype']}"

    def o_slice_indices(self, case, res):
        ind = self._sel_oracle(case, res, "slice_indices")
        if not isinstance(ind, list):
            return ind
        M = case["M"]
        ai = [k for i in ind for k in range(M["indptr"][i], M["indptr"][i + 1])]
        if res["ok"]["ai"] != ai or res["ok"]["ix"] != [M["indices"][k] for k in ai]:
            return f"slice_indices {ind} returned {res['ok']}, storage positions are {ai}"

    def o_zero(self, case, res):
        M = case["M"]
        if any(i >= M["nmaj"] for i in case["ind"]):
            return None
        if "ok" not in res:
            return f"zero_rows/zero_columns raised {res['err']}"
        D = dense_of_raw(M)
        for i in case["ind"]:
            D[i] = [0] * M["nmin"]
        R = res["ok"]["raw"]
        if res["ok"]["dense"] != D:
            return f"zeroing lines {case['ind']}: dense {res['ok']['dense']} differs from {D}"
        if (R["indptr"], R["indices"]) != (M["indptr"], M["indices"]):
            return "zero_rows/zero_columns changed the sparsity structure"
        if R["dtype"] != dt_of(M):
            return f"zero_rows/zero_columns changed the data type {dt_of(M)} -> {R['dtype']}"

    def o_stack_mat(self, case, res):
        A, B = case["A"], case["B"]
        if A["nmin"] != B["nmin"]:
            return None if "err" in res else "stack_mat accepted mismatching shapes"
        if "ok" not in res:
            return f"stack_mat raised {res['err']}"
        exp = dense_of_raw(A) + dense_of_raw(B)
        R = res["ok"]["raw"]
        if not raw_ok(R) or (R["nmaj"], R["nmin"]) != (A["nmaj"] + B["nmaj"], A["nmin"]) \
                or res["ok"]["dense"] != exp:
            return f"stack_mat: {res['ok']} differs from the dense stack {exp}"
        # np.vstack / np.hstack promote; with no lines in B the operand is returned untouched
        if B["nmaj"] > 0 and R["dtype"] != promoted(A, B):
            return f"stack_mat: data type {R['dtype']}, dense stacking gives {promoted(A, B)}"

    def o_stack_diag(self, case, res):
        A, B = case["A"], case["B"]
        if "ok" not in res:
            return f"stack_diag raised {res['err']}"
        exp = [r + [0] * B["nmin"] for r in dense_of_raw(A)] + \
              [[0] * A["nmin"] + r for r in dense_of_raw(B)]
        R = res["ok"]["raw"]
        if not raw_ok(R) or (R["nmaj"], R["nmin"]) != (A["nmaj"] + B["nmaj"], A["nmin"] + B["nmin"]) \
                or res["ok"]["dense"] != exp:
            return (f"stack_diag: shape {(R['nmaj'], R['nmin'])} dense {res['ok']['dense']} differs "
                    f"from block diagonal {exp}")
        if R["dtype"] != promoted(A, B):
            return f"stack_diag: data type {R['dtype']}, the dense block diagonal has {promoted(A, B)}"
        if not same_raw(res["ok"]["A"], A) or not same_raw(res["ok"]["B"], B):
            return "stack_diag modified an operand"

    def o_merge(self, case, res):
        A, B, lines = case["A"], case["B"], case["lines"]
        valid = (A["nmin"] == B["nmin"] and len(lines) == B["nmaj"] and len(set(lines)) == len(lines)
                 and all(i < A["nmaj"] for i in lines))
        if not valid:
            return None if "err" in res else "merge_matrices accepted invalid input"
        if "ok" not in res:
            return f"merge_matrices raised {res['err']} on valid input"
        # dense reference with numpy's own assignment semantics: the dense A keeps its data
        # type and the lines of B are cast to it
        DA = arr(dense_of_raw(A), dt_of(A)).reshape(A["nmaj"], A["nmin"])
        DB = arr(dense_of_raw(B), dt_of(B)).reshape(B["nmaj"], B["nmin"])
        if lines:
            DA[np.array(lines, dtype=int), :] = DB
        exp = [nums(r) for r in DA]
        R = res["ok"]["raw"]
        if not raw_ok(R) or (R["nmaj"], R["nmin"]) != (A["nmaj"], A["nmin"]) or res["ok"]["dense"] != exp:
            return f"merge_matrices lines {lines}: {res['ok']['dense']} differs from dense assignment {exp}"
        if R["dtype"] != dt_of(A):
            return f"merge_matrices changed the data type of A: {dt_of(A)} -> {R['dtype']}"
        if not same_raw(res["ok"]["B"], B):
            return "merge_matrices modified B"

    @staticmethod
    def _full(M):
        D = arr(dense_of_raw(M), dt_of(M)).reshape(M["nmaj"], M["nmin"])
        return D if M["fmt"] == "csr" else D.T

    def o_blocks_sparse(self, case, res):
        if not case["blocks"]:
            return None      # no block at all: outside the domain (ValueError is acceptable)
        if "ok" not in res:
            return f"cs{case['fmt'][2]}_matrix_from_sparse_blocks raised {res['err']}"
        fulls = [self._full(b) for b in case["blocks"]]
        nr, nc = sum(f.shape[0] for f in fulls), sum(f.shape[1] for f in fulls)
        # scipy.linalg.block_diag semantics: the data type is numpy's promotion of all blocks
        edt = promoted(*case["blocks"])
        E = np.zeros((nr, nc), dtype=np.dtype(edt))
        r = c = 0
        for f in fulls:
            E[r:r + f.shape[0], c:c + f.shape[1]] = f
            r, c = r + f.shape[0], c + f.shape[1]
        got = np.array(res["ok"]["full"], dtype=float).reshape(res["ok"]["shape"])
        if got.shape != E.shape or (got != E.astype(float)).any() or res["ok"]["raw"]["fmt"] != case["fmt"] \
                or not raw_ok(res["ok"]["raw"]):
            return (f"cs{case['fmt'][2]}_matrix_from_sparse_blocks: {got.tolist()} differs from "
                    f"block_diag {E.tolist()} (block data types {[dt_of(b) for b in case['blocks']]})")
        if res["ok"]["raw"]["dtype"] != edt:
            return (f"cs{case['fmt'][2]}_matrix_from_sparse_blocks: data type {res['ok']['raw']['dtype']}, "
                    f"block_diag of the dense blocks has {edt}")

    def o_blocks_dense(self, case, res):
        bs, nb, d = case["bs"], case["nb"], case["data"]
        if len(d) != bs * bs * nb:
            return None if "err" in res else "cs*_matrix_from_dense_blocks accepted data of the wrong size"
        if "ok" not in res:
            return f"cs*_matrix_from_dense_blocks raised {res['err']}"
        E = np.zeros((bs * nb, bs * nb), dtype=float)
        for b in range(nb):
            blk = np.array(d[b * bs * bs:(b + 1) * bs * bs], dtype=float).reshape(bs, bs)
            E[b * bs:(b + 1) * bs, b * bs:(b + 1) * bs] = blk if case["fmt"] == "csr" else blk.T
        got = np.array(res["ok"]["full"], dtype=float).reshape(bs * nb, bs * nb)
        if (got != E).any() or not raw_ok(res["ok"]["raw"]):
            return f"cs{case['fmt'][2]}_matrix_from_dense_blocks: {got.tolist()} differs from {E.tolist()}"
        if res["ok"]["raw"]["dtype"] != dt_of(case):
            return f"cs{case['fmt'][2]}_matrix_from_dense_blocks changed the data type {dt_of(case)} -> {res['ok']['raw']['dtype']}"

    def o_bdi(self, case, res):
        m, n = case["m"], case["n"]
        if n is None:
            exp, off = [], 0
            for s in m:
                exp += [off + a for _ in range(s) for a in range(s)]
                off += s
            if res["ok"]["i"] != exp:
                return f"block_diag_index({m}) = {res['ok']['i']}, expected {exp}"
            return None
        ei, ej, ro, co = [], [], 0, 0
        for a, b in zip(m, n):
            for c in range(b):
                ei += [ro + r for r in range(a)]
                ej += [co + c] * a
            ro, co = ro + a, co + b
        if (res["ok"]["i"], res["ok"]["j"]) != (ei, ej):
            return f"block_diag_index({m},{n}) = {res['ok']}, expected {(ei, ej)}"

    def o_bdm(self, case, res):
        sz, v = case["sz"], case["vals"]
        N = sum(sz)
        E = np.zeros((N, N), dtype=float)
        off = p = 0
        for s in sz:
            E[off:off + s, off:off + s] = np.array(v[p:p + s * s], dtype=float).reshape(s, s)
            off, p = off + s, p + s * s
        if res["ok"]["full"] != [nums(r) for r in E]:
            return f"block_diag_matrix: {res['ok']['full']} differs from {E.tolist()}"
        if res["ok"]["raw"]["dtype"] != dt_of(case):
            return f"block_diag_matrix changed the data type {dt_of(case)} -> {res['ok']['raw']['dtype']}"

    def o_kron(self, case, res):
        F, nd = self._full(case["M"]), case["nd"]
        E = np.kron(F.astype(float), np.eye(nd)).reshape(F.shape[0] * nd, F.shape[1] * nd)
        got = np.array(res["ok"]["full"], dtype=float).reshape(E.shape)
        if (got != E).any():
            return f"sparse_kronecker_product nd={nd}: {got.tolist()} differs from np.kron {E.tolist()}"
        # np.kron(A, np.eye(nd)) is a float64 array; for nd = 1 the operand itself is returned
        edt = "float64" if nd > 1 else dt_of(case["M"])
        if res["ok"]["dtype"] != edt:
            return f"sparse_kronecker_product nd={nd}: data type {res['ok']['dtype']}, np.kron gives {edt}"

    # -------------------------------------------------------------- Coq tie
    def coq_case(self, case, res):
        fn = case["fn"]
        if self._malformed(res):
            return "false"      # no model output is malformed storage; the oracle reports it
        if fn == "expand":
            return (f"agree_lz (expand_index_pointers {clist(case['lo'], cz)} {clist(case['hi'], cz)}) "
                    f"{cres(res, lambda l: clist(l, cz))}")
        if fn == "expand_nd":
            return (f"eqb_listZ (expand_indices_nd {clist(case['ind'], cz)} {cnat(case['nd'])} "
                    f"{cbool(case['order'] == 'F')}) {clist(res['ok'], cz)}")
        if fn == "expand_incr":
            return (f"eqb_listZ (expand_indices_add_increment {clist(case['x'], cz)} {cnat(case['n'])} "
                    f"{cz(case['incr'])}) {clist(res['ok'], cz)}")
        if fn == "rlencode":
            r = cres(res, lambda o: f"({cllz(o['cols'])}, {clist(o['num'], cz)})")  # cols scaled
            return f"agree_rlencode (rlencode eqb_listZ {cllz(case['cols'])}) {r}"
        if fn == "rldecode":
            if "A2" in case:
                return (f"agree_llz (rldecode {cllz(case['A2'])} {clist(case['n'], cz)}) "
                        f"{cres(res, cllz)}")
            return (f"agree_lz (rldecode {clist(case['A'], cz4)} {clist(case['n'], cz)}) "
                    f"{cres(res, lambda l: clist(l, cz4))}")
        if fn == "slice":
            _, ind = self._index(case)
            m = f"(slice_sparse_matrix {ccsr(case['M'])} {clist(ind, cnat)})"
            if "err" in res:
                return f"agree_csr {m} (Err {res['err']})"
            return (f"andb (agree_csr {m} (Ok {ccsr(res['ok']['raw'])})) "
                    f"(agree_dense {m} {cllz(res['ok']['dense'])})")
        if fn == "slice_indices":
            _, ind = self._index(case)
            r = cres(res, lambda o: f"({clist(o['ix'], cnat)}, {clist(o['ai'], cnat)})")
            return f"agree_slice_indices (slice_indices {ccsr(case['M'])} {clist(ind, cnat)}) {r}"
        if fn == "zero":
            m = f"(zero_lines {ccsr(case['M'])} {clist(case['ind'], cnat)})"
            if "err" in res:
                return f"agree_csr {m} (Err {res['err']})"
            return (f"andb (agree_csr {m} (Ok {ccsr(res['ok']['raw'])})) "
                    f"(agree_dense {m} {cllz(res['ok']['dense'])})")
        if fn == "stack_mat":
            m = f"(stack_mat {ccsr(case['A'])} {ccsr(case['B'])})"
            if "err" in res:
                return f"agree_csr {m} (Err {res['err']})"
            return (f"andb (agree_csr {m} (Ok {ccsr(res['ok']['raw'])})) "
                    f"(agree_dense {m} {cllz(res['ok']['dense'])})")
        if fn == "stack_diag":
            if "err" in res:
                return "false"
            m = f"(Ok (stack_diag {ccsr(case['A'])} {ccsr(case['B'])}))"
            return (f"andb (agree_csr {m} (Ok {ccsr(res['ok']['raw'])})) "
                    f"(agree_dense {m} {cllz(res['ok']['dense'])})")
        if fn == "merge":
            # the values of B enter A's arrays through np.insert, which casts them to A's data
            # type: that elementwise cast is done here with numpy, the model copies values
            Bc = dict(case["B"], data=nums(arr(case["B"]["data"], dt_of(case["B"])).astype(
                np.dtype(dt_of(case["A"])))))
            m = (f"(merge_matrices {ccsr(case['A'])} {ccsr(Bc)} "
                 f"{clist(case['lines'], cnat)})")
            if "err" in res:
                return f"agree_csr {m} (Err {res['err']})"
            return (f"andb (agree_csr {m} (Ok {ccsr(res['ok']['raw'])})) "
                    f"(agree_dense {m} {cllz(res['ok']['dense'])})")
        if fn == "blocks_sparse":
            if any(b["fmt"] != case["fmt"] for b in case["blocks"]):
                return None    # scipy converts the format of such blocks first: oracle only
            m = f"(csx_from_sparse_blocks {clist(case['blocks'], ccsr)})"
            if "err" in res:
                return f"agree_csr {m} (Err {res['err']})"
            R = res["ok"]["raw"]
            F = np.array(res["ok"]["full"], dtype=float).reshape(res["ok"]["shape"])
            D = [nums(r) for r in (F if R["fmt"] == "csr" else F.T)]
            return f"andb (agree_csr {m} (Ok {ccsr(R)})) (agree_dense {m} {cllz(D)})"
        if fn == "bdm":
            m = f"(block_diag_matrix {clist(case['vals'], cz4)} {clist(case['sz'], cnat)})"
            return (f"andb (agree_csr {m} (Ok {ccsr(res['ok']['raw'])})) "
                    f"(agree_dense {m} {cllz(res['ok']['full'])})")
        if fn == "blocks_dense":
            m = (f"(csx_from_dense_blocks {clist(case['data'], cz4)} {cnat(case['bs'])} "
                 f"{cnat(case['nb'])})")
            if "err" in res:
                return f"agree_csr {m} (Err {res['err']})"
            F = np.array(res["ok"]["full"], dtype=float).reshape(case["bs"] * case["nb"], case["bs"] * case["nb"])
            D = [nums(r) for r in (F if case["fmt"] == "csr" else F.T)]
            return f"andb (agree_csr {m} (Ok {ccsr(res['ok']['raw'])})) (agree_dense {m} {cllz(D)})"
        if fn == "bdi":
            if case["n"] is None:
                return (f"eqb_listN (block_diag_index1 {clist(case['m'], cnat)}) "
                        f"{clist(res['ok']['i'], cnat)}")
            return (f"agree_lzlz (block_diag_index2 {clist(case['m'], cz)} {clist(case['n'], cz)}) "
                    f"(Ok ({clist(res['ok']['i'], cz)}, {clist(res['ok']['j'], cz)}))")
        return None  # oracle-only utilities

    def coq_diag(self, case, res):
        fn = case["fn"]
        if fn == "expand":
            return f"expand_index_pointers {clist(case['lo'], cz)} {clist(case['hi'], cz)}"
        if fn == "rldecode" and "A" in case:
            return f"rldecode {clist(case['A'], cz4)} {clist(case['n'], cz)}"
        if fn == "rlencode":
            return f"rlencode eqb_listZ {cllz(case['cols'])}"
        if fn in ("slice", "slice_indices"):
            _, ind = self._index(case)
            f = "slice_sparse_matrix" if fn == "slice" else "slice_indices"
            return f"{f} {ccsr(case['M'])} {clist(ind, cnat)}"
        if fn == "zero":
            return f"zero_lines {ccsr(case['M'])} {clist(case['ind'], cnat)}"
        if fn in ("stack_mat", "stack_diag"):
            return f"{fn} {ccsr(case['A'])} {ccsr(case['B'])}"
        if fn == "merge":
            return f"merge_matrices {ccsr(case['A'])} {ccsr(case['B'])} {clist(case['lines'], cnat)}"
        if fn == "blocks_sparse":
            return f"csx_from_sparse_blocks {clist(case['blocks'], ccsr)}"
        if fn == "bdm":
            return f"block_diag_matrix {clist(case['vals'], cz4)} {clist(case['sz'], cnat)}"
        if fn == "blocks_dense":
            return f"csx_from_dense_blocks {clist(case['data'], cz4)} {cnat(case['bs'])} {cnat(case['nb'])}"
        return None

    def nontrivial(self, case, res):
        fn = case["fn"]
        if fn == "expand":
            return bool(res.get("ok"))
        if fn in ("rlencode",):
            return len(case["cols"]) > 1
        if fn == "rldecode":
            return bool(res.get("ok"))
        for k in ("M", "A"):
            if k in case and isinstance(case[k], dict):
                return len(case[k]["indices"]) > 0
        return True

    def finding_key(self, case, res, why):
        fn = case["fn"]
        if fn == "merge":
            lines = case["lines"]
            return "merge_matrices: unsorted lines" if lines != sorted(lines) else "merge_matrices"
        if fn == "rldecode":
            return "rldecode: zero counts" if any(c == 0 for c in case["n"]) else "rldecode"
        if fn == "stack_diag":
            return ("stack_diag: B without lines" if case["B"]["nmaj"] == 0 and case["B"]["nmin"] > 0
                    else "stack_diag")
        return fn + "-mismatch"

    def shrink(self, case, still_fails):
        # drop elements of the list-valued arguments one at a time
        case = dict(case)
        for key in ("lo", "hi", "n", "A", "ind", "cols"):
            if isinstance(case.get(key), list):
                changed = True
                while changed and len(case[key]) > 0:
                    changed = False
                    for i in range(len(case[key])):
                        c = dict(case, **{key: case[key][:i] + case[key][i + 1:]})
                        if still_fails(c):
                            case = c
                            changed = True
                            break
        return case

    def extra_evidence(self):
        return {"utilities_with_coq_model_and_theorems": [
                    "expand_index_pointers", "expand_indices_nd", "expand_indices_add_increment",
                    "rlencode", "rldecode", "slice_sparse_matrix", "slice_indices", "zero_rows",
                    "zero_columns", "stack_mat", "stack_diag", "merge_matrices",
                    "block_diag_index(m)", "block_diag_index(m, n)", "block_diag_matrix",
                    "csr_matrix_from_sparse_blocks", "csc_matrix_from_sparse_blocks",
                    "csr_matrix_from_dense_blocks", "csc_matrix_from_dense_blocks"],
                "utilities_oracle_only": ["sparse_kronecker_product",
                                          "*_from_sparse_blocks with blocks of the other format",
                                          "result data types of all utilities"],
                "data_types_generated": DTYPES}


PROP = C35()
