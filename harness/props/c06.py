"""C06 — restricted assembly (subset of equations, equations restricted to grids, subset of
variables) of pp.ad.EquationSystem is a slice of the full system, rows in the order the
equations were set, row indices reported per equation; residual-only assembly = residual of
the full assembly."""
import numpy as np
import scipy.sparse as sps

from harness.core import Prop, cz, cnat, cbool, clist, coption
from harness.props.c05 import get_mdg, grid_numbers, QUICK_GRIDS, THOROUGH_GRIDS, C05

import porepy as pp

VNAMES = ["v0", "v1", "v2", "v3", "v4"]
ENAMES = ["e0", "e1", "e2", "e3", "e4", "e5", "e6"]
ERRS = {KeyError: "KeyErr", ValueError: "ValueErr", AssertionError: "AssertErr",
        IndexError: "IndexErr"}

_C05 = C05()


# ----------------------------------------------------------------------------------------
# independent bookkeeping (generator + oracle)
# ----------------------------------------------------------------------------------------
def gsize(sds, intfs, kind, g, dof):
    c, f, n = dof
    if kind == "sd":
        nc, nf, nn = sds[g]
        return nc * c + nf * f + nn * n
    return intfs[g] * c


def grank(sds, g):
    return g[1] if g[0] == "sd" else len(sds) + g[1]


class VarLayout:
    """dof layout the property C05 prescribes (variables are only created here)."""

    def __init__(self, sds, intfs, vars_):
        self.sds, self.intfs = sds, intfs
        self.atoms = []          # creation order: (name, kind, g, dof)
        self.groups = []
        for name, dof, kind, grids in vars_:
            ids = []
            for g in grids:
                ids.append(len(self.atoms))
                self.atoms.append((name, kind, g, tuple(dof)))
            self.groups.append(ids)
        order = sorted(range(len(self.atoms)),
                       key=lambda i: (grank(sds, (self.atoms[i][1], self.atoms[i][2])), i))
        self.start, pos = {}, 0
        for i in order:
            n = self.size(i)
            self.start[i] = (pos, n)
            pos += n
        self.total = pos

    def size(self, i):
        name, kind, g, dof = self.atoms[i]
        return gsize(self.sds, self.intfs, kind, g, dof)

    def parse(self, refs):
        if refs is None:
            return list(range(len(self.atoms)))
        ids = []
        for r in refs:
            if r[0] == "id":
                ids.append(r[1])
            elif r[0] == "name":
                ids += [i for i, a in enumerate(self.atoms) if a[0] == r[1]]
            else:
                ids += list(r[1])
        return ids

    def cols(self, refs):
        out = []
        for i in self.parse(refs):
            a, n = self.start[i]
            out += list(range(a, a + n))
        return sorted(out)


class EqShadow:
    """name -> (operator, grids, info) in insertion order; the row layout the property
    prescribes: equations in insertion order, inside an equation the grids in md-grid order
    (subdomains, then interfaces)."""

    def __init__(self, sds, intfs):
        self.sds, self.intfs = sds, intfs
        self.eqs = {}

    def blocks(self, name):
        op, grids, info = self.eqs[name]
        gs = sorted({tuple(g) for g in grids}, key=lambda g: grank(self.sds, g))
        out, pos = [], 0
        for g in gs:
            n = gsize(self.sds, self.intfs, g[0], g[1], info)
            out.append((g, pos, n))
            pos += n
        return out, pos

    def size(self, name):
        return self.blocks(name)[1]

    def offsets(self):
        off, pos = {}, 0
        for name in self.eqs:
            off[name] = pos
            pos += self.size(name)
        return off, pos

    def kept(self, arg):
        """name -> None (whole equation) | list of grids; or the string 'invalid'."""
        if arg is None:
            return {n: None for n in self.eqs}
        kind, body = arg
        req = {}

        def restr(entries):
            for name, _byop, grids in entries:
                if name not in self.eqs:
                    return False
                dom = {tuple(g) for g in self.eqs[name][1]}
                if any(tuple(g) not in dom for g in grids):
                    return False
                req[name] = [tuple(g) for g in grids]
            return True

        if kind == "dict":
            if not restr(body):
                return "invalid"
        else:
            for it in body:
                if it[0] == "name":
                    if it[1] not in self.eqs:
                        return "invalid"
                    req[it[1]] = None
                elif not restr(it[1]):
                    return "invalid"
        return req

    def rows(self, kept):
        """global rows (in the full system) and the per-equation lengths, in insertion
        order."""
        off, _ = self.offsets()
        rows, lens = [], []
        for name in self.eqs:
            if name not in kept:
                continue
            blocks, n = self.blocks(name)
            if kept[name] is None:
                loc = list(range(n))
            else:
                loc = []
                for g, a, k in blocks:
                    if g in kept[name]:
                        loc += list(range(a, a + k))
            rows += [off[name] + i for i in loc]
            lens.append((name, len(loc)))
        return rows, lens


def _zl(l):
    return "([" + "; ".join(str(int(x)) for x in l) + "])%Z"


def to_dense(rows, ncols):
    M = np.zeros((len(rows), ncols))
    for i, r in enumerate(rows):
        for c, v in r:
            M[i, c] = v
    return M


class C06(Prop):
    id = "C06"
    props_file = "Props/C06.v"
    preamble = ("From Coq Require Import List ZArith.\nImport ListNotations.\n"
                "From PP Require Import Model.C05 Model.C06 Model.C07 Model.C06_schur "
                "Proofs.C06_schur.\n")
    n_cases = (120, 2400)
    design_ref = "DESIGN.md §5 C06"
    level_text = ("Coq theorems over an executable transcription of EquationSystem's equation "
                  "bookkeeping (set_equation, remove_equation, _parse_equations, "
                  "_parse_single_equation, assemble with and without Jacobian, "
                  "assembled_equation_indices) on top of C05's dof-layout model: after ANY "
                  "history of set/remove/assemble calls (failing ones included) and for ANY "
                  "restriction argument (None, list of names / per-item dictionaries, dictionary "
                  "name -> grids) that the parser accepts and any variable selection, the "
                  "assembled rows are exactly the rows `rows_spec` of the full system, strictly "
                  "increasing, i.e. in equation-insertion order and md-grid order inside an "
                  "equation; a later mention of an equation overrides an earlier one; the columns "
                  "are the sorted dof indices of the selected variables (C05); the reported "
                  "assembled_equation_indices are consecutive ranges partitioning 0..n_rows-1 in "
                  "that order (empty blocks included); residual-only assembly returns the residual "
                  "of the Jacobian assembly and leaves the reported indices untouched; the parser "
                  "rejects exactly unknown equations / grids outside an equation's domain. The "
                  "same slice theorem holds over histories that also contain update_equation "
                  "calls and Schur assemblies (C06_rows_histories); update_equation = remove + "
                  "set with the stored grids / size info as defaults, the equation moves to the "
                  "end of the insertion order (C06_update); after a successful "
                  "assemble_schur_complement_system the reported indices are exactly those of "
                  "assemble(equations=primary_equations) (C06_schur_indices, repaired code); the "
                  "size hypothesis is decided by a checker proved sound and complete "
                  "(C06_sized_checker) and evaluated on every generated history. Tie: "
                  "real EquationSystems with random integer-valued linear and nonlinear AD "
                  "equations on generated md-grids; Coq recomputes every assembled matrix, "
                  "right-hand side and index report from the evaluated equations and compares.")
    level_note = ("Trusted: Coq kernel + vm_compute; the harness (generator, literal emission, "
                  "mapping of grids/variables/equations to indices). What an equation evaluates "
                  "to (its AdArray) is an input of the model (evaluation itself: C01/C02); the "
                  "theorems assume each operator yields as many rows as set_equation was told "
                  "(set_equation does not check this; mismatching operators are in the tie only). "
                  "Name string and Operator object as equation reference are not distinguished "
                  "(the code resolves both to the name first). The `state` argument of assemble is exercised per case: "
                  "either the stored values, or (30% of the cases) a different vector handed to "
                  "every assemble / Schur call, the operators being evaluated at that vector "
                  "(one evaluation table per case). Not modelled: "
                  "TypeError for unparsable items, SubSystem.")
    technique = ("Coq proof (invariant over operation histories + refinement of the parser to a "
                 "last-mention specification) + vm_compute execution correspondence")
    rule = ("random systems: 2-4 variables (cell/face/node dofs, subdomains and interfaces) on 16 "
            "(quick) / 20 (thorough) Cartesian md-grids with 0-2 fractures, integer state; 2-6 "
            "equations built from random sparse integer matrices (sums of linear forms, products "
            "of two linear forms, squares, constants) on random grid subsets incl. empty ones, "
            "equations without grids, zero-row equations; histories of set/remove/assemble with "
            "restrictions as list / dict / list with dict items, repeated and overriding "
            "mentions, empty selections, Operator objects as keys, variable subsets (objects, "
            "names, md-variables, duplicates, empty), residual-only calls, calls with an explicit state vector (overwritten afterwards); "
            "update_equation with default / new grids and size info (directed: grids omitted and "
            "another number of rows per grid entity, followed by assemblies restricted to a "
            "subset of the equation's grids), unknown names and grids "
            "outside the md-grid (equation lost); Schur assemblies with an all-zero inverter "
            "whose primary variables are searched such that the secondary block is square, "
            "assembled_equation_indices read after every call; error inputs (unknown "
            "names, grids outside the domain, duplicate names, duplicate/unknown grids, stale "
            "variables, operators with a wrong number of rows); non-trivial = a successful "
            "Jacobian assembly restricted to a proper subset of rows with at least two "
            "equations present; distinct by (case, output)")
    trusted = ["integer-valued float matrices/vectors (exact in binary64) stand for the Jacobian "
               "and residual; explicit zeros are dropped before comparison",
               "the harness maps Variable/grid/equation objects to indices and evaluates every "
               "operator once per case with EquationSystem.evaluate (the model's input)"]
    assumptions = ["each equation's operator evaluates to as many rows as its declared "
                   "equations_per_grid_entity gives on its grids",
                   "variables are created on grids of the md-grid only"]

    # ------------------------------------------------------------------ generation
    def _operator(self, rng, lay, rows):
        """spec of an AD expression with [rows] rows: sum of terms + constant; a term is a
        product of 1-2 linear forms  M @ variable  or the square of one."""
        def form():
            v = rng.randrange(len(lay.atoms))
            n = lay.size(v)
            trip = []
            for i in range(rows):
                for j in rng.sample(range(n), min(n, rng.choice([0, 1, 1, 1, 2]))):
                    trip.append([i, j, rng.choice([-2, -1, 1, 2, 3])])
            return [v, trip]
        terms = []
        for _ in range(rng.randint(1, 2)):
            k = rng.choice(["lin", "lin", "prod", "sq"])
            terms.append([k, [form() for _ in range(2 if k == "prod" else 1)]])
        return {"rows": rows, "terms": terms,
                "const": [rng.randint(-4, 4) for _ in range(rows)]}

    def _eqarg(self, rng, sh, bad=False):
        names = list(sh.eqs)
        r = rng.random()
        if r < 0.12:
            return None

        def entry(name):
            dom = [list(g) for g in sh.eqs[name][1]] if name in sh.eqs else []
            dom = [list(t) for t in sorted({tuple(g) for g in dom})]
            k = rng.randint(0, len(dom))
            gs = rng.sample(dom, k)
            if gs and rng.random() < 0.1:
                gs.append(rng.choice(gs))
            if bad and rng.random() < 0.5:
                gs.append(["sd" if rng.random() < 0.5 else "intf", rng.randrange(3)])
            return [name, rng.random() < 0.3, gs]

        def pick():
            if bad and rng.random() < 0.4:
                return rng.randrange(len(ENAMES))
            return rng.choice(names) if names else rng.randrange(len(ENAMES))

        def restr(maxn):
            out, seen = [], set()
            for _ in range(rng.randint(0, maxn)):
                e = entry(pick())
                if (e[0], e[1]) in seen:
                    continue
                seen.add((e[0], e[1]))
                out.append(e)
            return out

        if r < 0.45:
            return ["dict", restr(4)]
        items = []
        for _ in range(rng.randint(0, 5)):
            if rng.random() < 0.6:
                items.append(["name", pick(), rng.random() < 0.3])
            else:
                items.append(["dict", restr(2)])
        return ["list", items]

    def _schur_op(self, rng, sh, lay):
        """a Schur assembly; the primary variables are chosen such that the secondary block is
        square whenever a few random tries find such a choice (otherwise an error path)"""
        pe = self._eqarg(rng, sh, bad=rng.random() < 0.05)
        kept = sh.kept(pe)
        pv = self._vrefs(rng, lay)
        if kept != "invalid" and kept:
            rows_p, _ = sh.rows(kept)
            _, ntot = sh.offsets()
            want = lay.total - (ntot - len(rows_p))     # number of primary columns
            atoms = list(range(len(lay.atoms)))
            for _ in range(40):
                sub = rng.sample(atoms, rng.randint(1, len(atoms)))
                if sum(lay.size(i) for i in sub) == want and 0 < want < lay.total:
                    pv = [["id", i] for i in sub]
                    break
        return ["schur", pe, pv]

    def _vrefs(self, rng, lay, stale=None):
        r = rng.random()
        n = len(lay.atoms)
        if r < 0.3:
            return None
        if r < 0.36:
            return []
        out = []
        for _ in range(rng.randint(1, 3)):
            q = rng.random()
            if q < 0.5:
                out.append(["id", rng.randrange(n)])
            elif q < 0.8:
                out.append(["name", rng.randrange(len(VNAMES))])
            else:
                out.append(["md", list(rng.choice(lay.groups))])
        if stale is not None and rng.random() < 0.06:
            out.append(["id", stale])
        return out

    def generate(self, rng, n, tier):
        pool = QUICK_GRIDS if tier == "quick" else THOROUGH_GRIDS
        cap = 45 if tier == "quick" else 70
        for _ in range(n):
            spec = rng.choice(pool)
            sds, intfs = grid_numbers(spec)
            # ---- variables
            vars_, total = [], 0
            for k in range(rng.randint(2, 4)):
                intf = bool(intfs) and rng.random() < 0.35
                ng = len(intfs) if intf else len(sds)
                grids = rng.sample(range(ng), rng.randint(1, ng))
                dof = [rng.choice([1, 1, 1, 2]), 0, 0]
                if not intf and rng.random() < 0.15:
                    dof = [rng.choice([0, 1]), rng.choice([0, 1]), rng.choice([0, 1])]
                kind = "intf" if intf else "sd"
                sz = sum(gsize(sds, intfs, kind, g, dof) for g in grids)
                if total + sz > cap:
                    dof = [1, 0, 0]
                    grids = grids[:1]
                    sz = gsize(sds, intfs, kind, grids[0], dof)
                total += sz
                vars_.append([k, dof, kind, grids])
            junk = rng.random() < 0.15      # one more variable, removed again (stale object)
            lay = VarLayout(sds, intfs, vars_)
            stale = len(lay.atoms) if junk else None
            state = [rng.randint(-3, 3) for _ in range(lay.total)]
            # ---- equation histories
            sh = EqShadow(sds, intfs)
            operators, ops = [], []
            mismatch = rng.random() < 0.06
            nops = rng.randint(4, 14 if tier == "quick" else 24)
            dirty = True
            for _k in range(nops):
                r = rng.random()
                if (r < 0.3 and len(sh.eqs) < 6) or len(sh.eqs) < 2:
                    e = rng.random()
                    name = rng.choice([i for i in range(len(ENAMES)) if i not in sh.eqs]
                                      or [0])
                    if e < 0.05 and sh.eqs:
                        name = rng.choice(list(sh.eqs))       # duplicate name
                    intf = bool(intfs) and rng.random() < 0.35
                    ng = len(intfs) if intf else len(sds)
                    kind = "intf" if intf else "sd"
                    k = 0 if rng.random() < 0.07 else rng.randint(1, ng)
                    grids = [[kind, i] for i in rng.sample(range(ng), k)]
                    if 0.05 <= e < 0.08 and grids:
                        grids.append(rng.choice(grids))       # grid listed twice
                    elif 0.08 <= e < 0.11:
                        grids.append([kind, ng + 1])          # grid not in the md-grid
                    info = [rng.choice([0, 1, 1, 1, 2]), 0, 0]
                    if not intf and rng.random() < 0.12:
                        info = [rng.choice([0, 1]), rng.choice([0, 1]), rng.choice([0, 1])]
                    known = [g for g in grids
                             if g[1] < (len(sds) if g[0] == "sd" else len(intfs))]
                    rows = sum(gsize(sds, intfs, g[0], g[1], info)
                               for g in {tuple(g) for g in known})
                    if rows > 40:
                        info = [1, 0, 0]
                        rows = sum(gsize(sds, intfs, g[0], g[1], info)
                                   for g in {tuple(g) for g in known})
                    if mismatch and rng.random() < 0.5:
                        rows = max(0, rows + rng.choice([-2, -1, 1, 3]))
                    operators.append(self._operator(rng, lay, rows))
                    ops.append(["set", name, len(operators) - 1, grids, info])
                    ok = (name not in sh.eqs and len({tuple(g) for g in grids}) == len(grids)
                          and len(known) == len(grids))
                    if ok:
                        sh.eqs[name] = (len(operators) - 1, grids, tuple(info))
                    dirty = True
                elif r < 0.38:
                    name = (rng.choice(list(sh.eqs)) if sh.eqs and rng.random() < 0.85
                            else rng.randrange(len(ENAMES)))
                    ops.append(["remove", name])
                    sh.eqs.pop(name, None)
                    dirty = True
                elif r < 0.44 and not mismatch:
                    # update_equation: known name (default or new grids / size info) or unknown
                    known = bool(sh.eqs) and rng.random() < 0.85
                    name = rng.choice(list(sh.eqs)) if known else rng.choice(
                        [i for i in range(len(ENAMES)) if i not in sh.eqs])
                    grids, info = None, None
                    if known:
                        _, g0, i0 = sh.eqs[name]
                        kind = g0[0][0] if g0 else ("intf" if intfs and rng.random() < 0.3 else "sd")
                        ng = len(intfs) if kind == "intf" else len(sds)
                        newg, newi = g0, list(i0)
                        directed = len(g0) >= 2 and rng.random() < 0.5
                        if directed:
                            # grids omitted, another number of rows per grid entity; followed
                            # below by assemblies restricted to a subset of the (old) grids
                            info = [rng.choice([c for c in (1, 2, 3) if c != i0[0]]), 0, 0]
                            newi = info
                        elif rng.random() < 0.5:
                            grids = [[kind, i] for i in rng.sample(range(ng), rng.randint(0, ng))]
                            if rng.random() < 0.08:
                                grids.append([kind, ng + 1])       # not in the md-grid
                            newg = grids
                        if not directed and rng.random() < 0.4:
                            info = [rng.choice([0, 1, 1, 2]), 0, 0]
                            newi = info
                        okg = [g for g in newg if g[1] < ng]
                        rows = sum(gsize(sds, intfs, g[0], g[1], newi)
                                   for g in {tuple(g) for g in okg})
                        valid = len(okg) == len(newg)
                    else:
                        if rng.random() < 0.5:
                            grids = [["sd", 0]]
                        if rng.random() < 0.5:
                            info = [1, 0, 0]
                        rows, valid = rng.randint(0, 3), False
                    operators.append(self._operator(rng, lay, rows))
                    ops.append(["update", name, len(operators) - 1, grids, info])
                    if known:
                        del sh.eqs[name]
                        if valid:
                            sh.eqs[name] = (len(operators) - 1, newg, tuple(newi))
                    dirty = True
                    if known and valid and directed:
                        ops.append(["asm", True, None, None])
                        dirty = False
                        dom = [list(t) for t in sorted({tuple(g) for g in newg})]
                        for _j in range(rng.randint(1, 2)):
                            sub = rng.sample(dom, rng.randint(1, len(dom) - 1))
                            others = [n for n in sh.eqs if n != name]
                            if others and rng.random() < 0.5:
                                arg = ["list", [["name", rng.choice(others), False],
                                                ["dict", [[name, rng.random() < 0.3, sub]]]]]
                            else:
                                arg = ["dict", [[name, rng.random() < 0.3, sub]]]
                            ops.append(["asm", rng.random() < 0.8, arg, self._vrefs(rng, lay)])
                elif r < 0.54 and sh.eqs and not mismatch:
                    ops.append(self._schur_op(rng, sh, lay))
                else:
                    if dirty:
                        ops.append(["asm", True, None, None])
                        dirty = False
                    bad = rng.random() < 0.08
                    ops.append(["asm", rng.random() < 0.75, self._eqarg(rng, sh, bad),
                                self._vrefs(rng, lay, stale)]
                               + ([True] if rng.random() < 0.25 else []))   # state= given
            case = {"grid": spec, "sds": sds, "intfs": intfs, "vars": vars_, "junk": junk,
                    "state": state, "operators": operators, "ops": ops}
            if rng.random() < 0.3:
                # every assemble / Schur call gets an explicit state that differs from the
                # stored values; the operators are evaluated at that state
                case["state2"] = [x + rng.choice([-2, -1, 1, 2]) if rng.random() < 0.7 else x
                                  for x in state]
            yield case

    # ------------------------------------------------------------------ implementation
    def _build(self, case):
        mdg = get_mdg(case["grid"])
        sdl, ifl = mdg.subdomains(), mdg.interfaces()
        sds, intfs = grid_numbers(case["grid"])
        assert sds == case["sds"] and intfs == case["intfs"], "md-grid differs from the case"
        es = pp.ad.EquationSystem(mdg)
        created, mds = [], {}
        for name, dof, kind, grids in case["vars"]:
            info = dict(zip(("cells", "faces", "nodes"), dof))
            md = es.create_variables(
                VNAMES[name], info,
                subdomains=[sdl[i] for i in grids] if kind == "sd" else None,
                interfaces=[ifl[i] for i in grids] if kind == "intf" else None)
            ids = list(range(len(created), len(created) + len(md.sub_vars)))
            created += list(md.sub_vars)
            mds[tuple(ids)] = md
        if case.get("junk"):
            md = es.create_variables(VNAMES[-1], {"cells": 1}, subdomains=[sdl[0]])
            created += list(md.sub_vars)
            es.remove_variables([md])
        es.set_variable_values(np.array(case["state"], dtype=float), iterate_index=0)
        return mdg, sdl, ifl, es, created, mds

    def _expr(self, es, created, spec):
        rows = spec["rows"]

        def form(f):
            v, trip = f
            n = es.dofs_of([created[v]]).size
            M = sps.csr_matrix(
                ([float(t[2]) for t in trip], ([t[0] for t in trip], [t[1] for t in trip])),
                shape=(rows, n))
            return pp.ad.SparseArray(M) @ created[v]
        e = pp.ad.DenseArray(np.array(spec["const"], dtype=float))
        for kind, forms in spec["terms"]:
            if kind == "lin":
                e = e + form(forms[0])
            elif kind == "prod":
                e = e + form(forms[0]) * form(forms[1])
            else:
                e = e + form(forms[0]) ** 2
        return e

    @staticmethod
    def _sparse_rows(A):
        A = sps.csr_matrix(A)
        A.sum_duplicates()
        A.sort_indices()
        rows = []
        for i in range(A.shape[0]):
            sl = slice(A.indptr[i], A.indptr[i + 1])
            row = []
            for c, x in zip(A.indices[sl], A.data[sl]):
                assert float(int(x)) == float(x), "non-integer matrix entry"
                if x != 0:
                    row.append([int(c), int(x)])
            rows.append(row)
        return rows

    @staticmethod
    def _ints(v):
        out = [int(x) for x in np.asarray(v, dtype=float)]
        assert all(float(i) == float(x) for i, x in zip(out, np.asarray(v, dtype=float)))
        return out

    def run_impl(self, case):
        mdg, sdl, ifl, es, created, mds = self._build(case)
        nd = int(es.num_dofs())

        def grid(g):
            l = sdl if g[0] == "sd" else ifl
            if g[1] < len(l):
                return l[g[1]]
            # a grid that is not part of the md-grid
            if g[0] == "sd":
                x = pp.CartGrid([1, 1])
                x.compute_geometry()
                return x
            return _foreign_mortar()

        # every operator is evaluated once: the model's input
        evals, exprs = [], []
        s2 = case.get("state2")
        for spec in case["operators"]:
            e = self._expr(es, created, spec)
            ad = es.evaluate(e, derivative=True, state=(
                None if s2 is None else np.array(s2, dtype=float)))
            assert ad.jac.shape == (spec["rows"], nd) and ad.val.shape == (spec["rows"],)
            evals.append([self._sparse_rows(ad.jac), self._ints(ad.val)])
            exprs.append(e)
        registered = {}

        def eqkey(name, byop):
            if byop and name in registered:
                return registered[name]
            return ENAMES[name]

        def eqarg(a):
            if a is None:
                return None
            if a[0] == "dict":
                return {eqkey(n, b): [grid(g) for g in gs] for n, b, gs in a[1]}
            out = []
            for it in a[1]:
                if it[0] == "name":
                    out.append(eqkey(it[1], it[2]))
                else:
                    out.append({eqkey(n, b): [grid(g) for g in gs] for n, b, gs in it[1]})
            return out

        def vrefs(refs):
            if refs is None:
                return None
            out = []
            for r in refs:
                if r[0] == "id":
                    out.append(created[r[1]])
                elif r[0] == "name":
                    out.append(VNAMES[r[1]])
                else:
                    out.append(mds[tuple(r[1])])
            return out

        def indices():
            out = []
            for k, v in es.assembled_equation_indices.items():
                out.append([ENAMES.index(k), [int(x) for x in v]])
            return out

        outs = []
        for o in case["ops"]:
            try:
                if o[0] == "set":
                    _, name, opid, grids, info = o
                    # a fresh copy of the expression, so that one Operator object never
                    # carries two names
                    e = self._expr(es, created, case["operators"][opid])
                    e.set_name(ENAMES[name])
                    es.set_equation(e, [grid(g) for g in grids],
                                    dict(zip(("cells", "faces", "nodes"), info)))
                    registered[name] = e
                    outs.append([["done"], indices()])
                elif o[0] == "remove":
                    es.remove_equation(ENAMES[o[1]])
                    registered.pop(o[1], None)
                    outs.append([["done"], indices()])
                elif o[0] == "update":
                    _, name, opid, grids, info = o
                    e = self._expr(es, created, case["operators"][opid])
                    try:
                        es.update_equation(
                            ENAMES[name], e,
                            grids=None if grids is None else [grid(g) for g in grids],
                            equations_per_grid_entity=None if info is None else dict(
                                zip(("cells", "faces", "nodes"), info)))
                        registered[name] = e
                    except Exception:
                        if ENAMES[name] not in es.equations:
                            registered.pop(name, None)
                        raise
                    outs.append([["done"], indices()])
                elif o[0] == "schur":
                    es.assemble_schur_complement_system(
                        eqarg(o[1]), vrefs(o[2]), inverter=lambda M: sps.csr_matrix(M.shape),
                        state=None if s2 is None else np.array(s2, dtype=float))
                    outs.append([["done"], indices()])
                else:
                    _, jac, a, refs = o[:4]
                    kw = {}
                    if s2 is not None or (len(o) > 4 and o[4]):
                        # the state vector handed over explicitly (the stored values, or in
                        # state2-cases a different vector); overwritten afterwards (aliasing
                        # probe)
                        st_arr = np.array(case["state"] if s2 is None else s2, dtype=float)
                        kw = {"state": st_arr}
                    if jac:
                        A, b = es.assemble(equations=eqarg(a), variables=vrefs(refs), **kw)
                        assert A.shape[0] == b.size
                        outs.append([["jac", self._sparse_rows(A), self._ints(b),
                                      int(A.shape[1])], indices()])
                    else:
                        b = es.assemble(evaluate_jacobian=False, equations=eqarg(a),
                                        variables=vrefs(refs), **kw)
                        outs.append([["res", self._ints(b)], indices()])
                    if kw:
                        kw["state"][:] = 977.0
            except (KeyError, ValueError, AssertionError, IndexError) as e:
                outs.append([["err", ERRS[[t for t in ERRS if isinstance(e, t)][0]]],
                             indices()])
        return {"ndofs": nd, "evals": evals, "outs": outs}

    # ------------------------------------------------------------------ oracle
    def oracle(self, case, res):
        sds, intfs = case["sds"], case["intfs"]
        lay = VarLayout(sds, intfs, case["vars"])
        if lay.total != res["ndofs"]:
            return f"num_dofs {res['ndofs']}, variables have {lay.total}"
        sh = EqShadow(sds, intfs)
        full = None                # (A dense, b) of the last full assembly of the current system
        prev_ind = []
        sized = True
        n_stale = len(lay.atoms)
        for k, (o, (out, ind)) in enumerate(zip(case["ops"], res["outs"])):
            where = f"op {k} {o[0]}: "
            if o[0] == "set":
                _, name, opid, grids, info = o
                known = [g for g in grids
                         if g[1] < (len(sds) if g[0] == "sd" else len(intfs))]
                ok = (name not in sh.eqs and len({tuple(g) for g in grids}) == len(grids)
                      and len(known) == len(grids))
                if out == ["done"]:
                    if name in sh.eqs:
                        return where + "a second equation with the same name was accepted"
                    if not ok:
                        return None        # accepted an ill-formed grid list: outside the property
                    sh.eqs[name] = (opid, grids, tuple(info))
                    full = None
                elif ok:
                    return where + f"a well-formed set_equation was rejected: {out}"
                if ind != prev_ind:
                    return where + "set_equation changed assembled_equation_indices"
            elif o[0] == "remove":
                if out == ["done"]:
                    if o[1] not in sh.eqs:
                        return where + "removal of an unknown equation was accepted"
                    del sh.eqs[o[1]]
                    full = None
                elif o[1] in sh.eqs:
                    return where + f"removal of a known equation was rejected: {out}"
            elif o[0] == "update":
                _, name, opid, grids, info = o
                if name in sh.eqs:
                    _, g0, i0 = sh.eqs[name]
                    newg = g0 if grids is None else grids
                    newi = tuple(i0 if info is None else info)
                    valid = (all(g[1] < (len(sds) if g[0] == "sd" else len(intfs)) for g in newg)
                             and len({tuple(g) for g in newg}) == len(newg))
                    if out == ["done"]:
                        if not valid:
                            return None
                        del sh.eqs[name]
                        sh.eqs[name] = (opid, newg, newi)     # moves to the end
                        full = None
                    elif valid:
                        return where + f"a well-formed update_equation was rejected: {out}"
                    else:
                        del sh.eqs[name]      # removed, then set_equation failed
                        full = None
                elif out == ["done"]:
                    return where + "update of an unknown equation was accepted"
                if ind != prev_ind:
                    return where + "update_equation changed assembled_equation_indices"
            elif o[0] == "schur":
                kept = sh.kept(o[1])
                if out == ["done"] and kept != "invalid":
                    _, lens = sh.rows(kept)
                    pos, exp_ind = 0, []
                    for n, ln in lens:
                        exp_ind.append([n, list(range(pos, pos + ln))])
                        pos += ln
                    if ind != exp_ind:
                        return where + ("assembled_equation_indices after the Schur assembly "
                                        f"{str(ind)[:200]}, expected the rows of the primary "
                                        f"block per primary equation {str(exp_ind)[:200]}")
            else:
                _, jac, a, refs = o[:4]
                sized = all(case["operators"][sh.eqs[n][0]]["rows"] == sh.size(n)
                            for n in sh.eqs)
                if not sized:
                    return None            # operators with a wrong row count: outside the property
                kept = sh.kept(a)
                vids = lay.parse(refs)
                vars_ok = all(i < n_stale for i in vids)
                if kept == "invalid" or (jac and not vars_ok):
                    if out[0] != "err":
                        return where + "an invalid restriction / unknown variable was accepted"
                    prev_ind = ind
                    continue
                if out[0] == "err":
                    return where + f"a valid (restricted) assembly raised {out[1]}"
                rows, lens = sh.rows(kept)
                cols = []
                if jac:
                    cols = (lay.cols(refs) if refs
                            else (list(range(lay.total)) if refs is None else []))
                is_full = a is None and refs is None and jac
                if is_full:
                    # the full system: the equations stacked in insertion order
                    A = to_dense(out[1], out[3])
                    b = np.array(out[2], dtype=float)
                    stack_A, stack_b = [], []
                    for n in sh.eqs:
                        ev = res["evals"][sh.eqs[n][0]]
                        stack_A += ev[0]
                        stack_b += ev[1]
                    if (A.shape != (len(stack_b), lay.total)
                            or not np.array_equal(A, to_dense(stack_A, lay.total))
                            or not np.array_equal(b, -np.array(stack_b, dtype=float))):
                        return where + ("the full system is not the equations stacked in "
                                        "the order they were set")
                    full = (A, b)
                if full is None:
                    prev_ind = ind if jac else prev_ind
                    continue
                A_full, b_full = full
                if jac:
                    A = to_dense(out[1], out[3])
                    b = np.array(out[2], dtype=float)
                    if out[3] != len(cols):
                        return where + f"{out[3]} columns, the variables have {len(cols)} dofs"
                    exp_A = A_full[rows][:, cols] if rows else np.zeros((0, len(cols)))
                    if A.shape != exp_A.shape or not np.array_equal(A, exp_A):
                        return where + ("restricted Jacobian differs from the slice "
                                        f"rows={rows[:30]} cols={cols[:30]} of the full one")
                    if not np.array_equal(b, b_full[rows]):
                        return where + f"restricted residual differs from full[{rows[:30]}]"
                    pos, exp_ind = 0, []
                    for n, ln in lens:
                        exp_ind.append([n, list(range(pos, pos + ln))])
                        pos += ln
                    if ind != exp_ind:
                        return where + (f"assembled_equation_indices {str(ind)[:200]}, expected "
                                        f"consecutive blocks {str(exp_ind)[:200]}")
                else:
                    b = np.array(out[1], dtype=float)
                    if not np.array_equal(b, b_full[rows]):
                        return where + f"residual-only assembly differs from full residual[{rows[:30]}]"
                    if ind != prev_ind:
                        return where + "residual-only assembly changed assembled_equation_indices"
            prev_ind = ind
        return None

    # ------------------------------------------------------------------ Coq emission
    @staticmethod
    def _dom(g):
        return f"{'Sd' if g[0] == 'sd' else 'Intf'} {cnat(g[1])}"

    def _restr(self, entries):
        return clist(entries, lambda e: f"({cnat(e[0])}, {clist(e[2], self._dom)})")

    def _eqarg_c(self, a):
        if a is None:
            return "ENone"
        if a[0] == "dict":
            return f"(EDict {self._restr(a[1])})"
        return "(EList " + clist(
            a[1], lambda it: f"IName {cnat(it[1])}" if it[0] == "name"
            else f"IDict {self._restr(it[1])}") + ")"

    def _eop(self, o):
        if o[0] == "set":
            _, name, opid, grids, info = o
            return (f"ESet {cnat(name)} {cnat(opid)} {clist(grids, self._dom)} "
                    f"({cnat(info[0])}, {cnat(info[1])}, {cnat(info[2])})")
        if o[0] == "remove":
            return f"ERemove {cnat(o[1])}"
        if o[0] == "schur":
            raise ValueError("schur op has no eop form")
        return f"EAssemble {cbool(o[1])} {self._eqarg_c(o[2])} {_C05._crefs(o[3])}"

    @staticmethod
    def _srow(r):
        return "[" + "; ".join(f"{int(p[0])}; {int(p[1])}" for p in r) + "]"

    def _obs(self, pair):
        out, ind = pair
        if out[0] == "done":
            x = "YDone"
        elif out[0] == "err":
            x = f"YErr {out[1]}"
        elif out[0] == "jac":
            x = f"YJac ({clist(out[1], self._srow)})%Z {_zl(out[2])} {cz(out[3])}"
        else:
            x = f"YRes {_zl(out[1])}"

        def one(e):
            n, l = e
            if l == list(range(l[0] if l else 0, (l[0] if l else 0) + len(l))):
                return f"({cnat(n)}, ({cz(l[0] if l else 0)}, {cz(len(l))}))"
            return None
        if all(one(e) is not None for e in ind):
            y = "(ranges " + clist(ind, one) + ")"
        else:
            y = clist(ind, lambda e: f"({cnat(e[0])}, {clist(e[1], cnat)})")
        return f"({x}, {y})"

    def _vops(self, case):
        ops = []
        for name, dof, kind, grids in case["vars"]:
            ops.append(["create", name, dof, False, grids if kind == "sd" else None,
                        grids if kind == "intf" else None, False])
        if case.get("junk"):
            n = sum(len(v[3]) for v in case["vars"])
            ops.append(["create", len(VNAMES) - 1, [1, 0, 0], False, [0], None, False])
            ops.append(["remove", [["md", [n]]]])
        return clist(ops, _C05._cop)

    def _evtab(self, res):
        def row(p):
            flat = [p[1]] + [x for cv in p[0] for x in cv]
            return "[" + "; ".join(str(int(x)) for x in flat) + "]"
        return "(" + clist(res["evals"],
                           lambda ev: clist(list(zip(ev[0], ev[1])), row)) + ")%Z"

    def _sop(self, o):
        if o[0] == "schur":
            return f"SSchur {self._eqarg_c(o[1])} {_C05._crefs(o[2])}"
        if o[0] == "update":
            _, name, opid, grids, info = o
            gs = coption(grids, lambda l: clist(l, self._dom))
            inf = coption(info, lambda t: f"({cnat(t[0])}, {cnat(t[1])}, {cnat(t[2])})")
            return f"SUpdate {cnat(name)} {cnat(opid)} {gs} {inf}"
        return f"SBase ({self._eop(o)})"

    def _sized_at_end(self, case, res):
        """does every registered operator have the declared number of rows (replay of the
        successful set / remove / update calls)"""
        sds, intfs = case["sds"], case["intfs"]
        eqs = {}
        for o, (out, _ind) in zip(case["ops"], res["outs"]):
            if o[0] == "set" and out == ["done"]:
                eqs[o[1]] = (o[2], o[3], o[4])
            elif o[0] == "remove" and out == ["done"]:
                eqs.pop(o[1], None)
            elif o[0] == "update" and o[1] in eqs:
                _, g0, i0 = eqs[o[1]]
                if out == ["done"]:
                    del eqs[o[1]]
                    eqs[o[1]] = (o[2], g0 if o[3] is None else o[3], i0 if o[4] is None else o[4])
                elif out[0] == "err" and out[1] == "AssertErr":
                    del eqs[o[1]]
        for opid, grids, info in eqs.values():
            rows = sum(gsize(sds, intfs, g[0], g[1], info) for g in {tuple(g) for g in grids})
            if case["operators"][opid]["rows"] != rows:
                return False
        return True

    def coq_case(self, case, res):
        sops = clist(case['ops'], self._sop)
        return (f"andb (agree6s {_C05._cgrid(case)} {self._vops(case)} {self._evtab(res)} "
                f"{sops} {clist(res['outs'], self._obs)}) "
                f"(Bool.eqb (sized_final {_C05._cgrid(case)} {self._vops(case)} "
                f"{self._evtab(res)} {sops}) {cbool(self._sized_at_end(case, res))})")

    def coq_diag(self, case, res):
        return (f"let s := final {_C05._cgrid(case)} {self._vops(case)} in "
                f"map (fun x => match fst x with XAsm (AJac A b n) => (1, length A, n, snd x) "
                f"| XAsm (ARes b) => (2, length b, 0, snd x) | XErr _ => (3, 0, 0, snd x) "
                f"| _ => (0, 0, 0, snd x) end) "
                f"(snd (srun 0%Z Z.opp (eval_of (num_dofs s) {self._evtab(res)}) "
                f"{_C05._cgrid(case)} s einit {clist(case['ops'], self._sop)}))")

    def nontrivial(self, case, res):
        sh_n = 0
        for o, (out, ind) in zip(case["ops"], res["outs"]):
            if o[0] == "asm" and o[1] and o[2] is not None and out[0] == "jac":
                if len(ind) >= 2 and len(out[2]) > 0:
                    return True
        return False

    def finding_key(self, case, res, why):
        if "after the Schur assembly" in why:
            return ("assemble_schur_complement_system: assembled_equation_indices overwritten "
                    "by the inner assemble calls")
        return "restricted-assembly: " + (why.split(":")[1].strip()[:60] if ":" in why else why[:60])

    def shrink(self, case, still_fails):
        ops = list(case["ops"])
        changed = True
        while changed and len(ops) > 1:
            changed = False
            for i in range(len(ops)):
                c = dict(case, ops=ops[:i] + ops[i + 1:])
                if still_fails(c):
                    ops = c["ops"]
                    changed = True
                    break
        return dict(case, ops=ops)


_FOREIGN = {}


def _foreign_mortar():
    """an interface grid that is not part of any generated md-grid"""
    if "m" not in _FOREIGN:
        from porepy.applications.md_grids.mdg_library import square_with_orthogonal_fractures
        mdg, _ = square_with_orthogonal_fractures("cartesian", {"cell_size": 0.5}, [0])
        _FOREIGN["mdg"] = mdg
        _FOREIGN["m"] = mdg.interfaces()[0]
    return _FOREIGN["m"]


PROP = C06()
