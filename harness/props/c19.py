"""C19 — computed grid geometry satisfies the divergence theorem."""
import warnings
from fractions import Fraction as F

import numpy as np
import scipy.sparse as sps

from harness.core import Prop, clist

import porepy as pp

TOL = F(1, 10 ** 9)


def build(case):
    k = case["kind"]
    if k == "cart":
        g = pp.CartGrid(np.array(case["dims"]))
    elif k == "tensor":
        g = pp.TensorGrid(*[np.array(c, dtype=float) for c in case["coords"]])
    elif k == "tri":
        g = pp.StructuredTriangleGrid(np.array(case["dims"]))
    elif k == "tet":
        g = pp.StructuredTetrahedralGrid(np.array(case["dims"]))
    else:
        raise ValueError(k)
    nd = g.dim
    lo, hi = g.nodes.min(axis=1), g.nodes.max(axis=1)
    measure = 1.0
    for d in range(nd):
        measure *= float(hi[d] - lo[d])
    interior = [i for i in range(g.num_nodes)
                if all(lo[d] < g.nodes[d, i] < hi[d] for d in range(nd))]
    mode = case.get("perturb", "none")
    pert = case.get("pert", [])
    if case.get("taper") and nd == 3:
        # (x, y, z) -> (x (1 + z/8), y (1 + z/8), z): planes stay planes, boxes become frusta
        # (planar faces, cells without central symmetry); dyadic coordinates stay dyadic
        z0, z1 = float(lo[2]), float(hi[2])
        s = 1.0 + g.nodes[2] / 8.0
        g.nodes[0] *= s
        g.nodes[1] *= s
        prim = lambda z: (1.0 + z / 8.0) ** 3 * 8.0 / 3.0
        measure = float(hi[0] - lo[0]) * float(hi[1] - lo[1]) * (prim(z1) - prim(z0))
    targets = interior if mode == "interior" else (list(range(g.num_nodes)) if mode == "all" else [])
    for j, i in enumerate(targets):
        for d in range(nd):
            g.nodes[d, i] += case["scale"] * pert[(j * nd + d) % len(pert)]
    for f in case.get("swap_faces", []):
        if nd == 2 and g.num_faces:
            f = f % g.num_faces
            a, b = g.face_nodes.indptr[f], g.face_nodes.indptr[f + 1]
            g.face_nodes.indices[a:b] = g.face_nodes.indices[a:b][::-1].copy()
    return g, (measure if mode != "all" else None)


def qz(x):
    """Q literal in Q_scope from an exact rational."""
    fr = F(x)
    n, d = fr.numerator, fr.denominator
    s = f"{n}" if d == 1 else f"({n}#{d})"
    return s if n >= 0 else (f"({n})" if d == 1 else f"({n}#{d})")


def qpt(p):
    return f"({qz(p[0])},{qz(p[1])})"


class C19(Prop):
    id = "C19"
    props_file = "Props/C19.v"
    preamble = ("From Coq Require Import List ZArith QArith.\nImport ListNotations.\n"
                "From PP Require Import Model.C19.\nOpen Scope Q_scope.\n")
    n_cases = (45, 500)
    design_ref = "DESIGN.md §5 C19"
    level_text = (
        "Coq theorems (exact rational arithmetic, all node coordinates, any number of faces per "
        "cell) over an executable transcription of Grid._compute_geometry_2d (oriented branch) and "
        "_compute_geometry_1d: for every cell whose traversed faces pass the code's own "
        "orientation check (every node as often end as start: closed node loops, not necessarily "
        "one loop, any orientation) the signed face normals sum to zero, the computed volume equals "
        "the shoelace area and does not depend on the temporary centre, sum +-x_f.n_f = 2|K| and "
        "sum +-(x_f.n_f) x_f = 3|K| x_c; |n_f|^2 = area^2; volumes returned by the oriented branch "
        "are never negative and are positive for cells star-shaped w.r.t. their temporary centre "
        "(in particular counter-clockwise convex cells); 1-D: the flip rule makes the normal point "
        "out of the cell it is computed from, and for outward normals the three identities hold "
        "with volume |x2-x1| > 0.  Tie: Coq recomputes areas^2, face centres, normals, volumes, "
        "cell centres of real Cartesian / tensor / triangle grids (1-D, 2-D, dyadic node "
        "perturbations, faces with reversed node order to reach the fallback decision) in Q and "
        "compares with relative tolerance 1e-9.  3-D grids (Cartesian, tensor, tetrahedral, "
        "perturbed, boxes tapered to frusta) are covered by the exact-fractions oracle only "
        "(all identities of the property, incl. positive volumes summing to the domain measure).")
    level_note = (
        "NOT proved: any 3-D statement (C19_3d_normals_sum_zero etc. are not in the development; "
        "the oracle checks all identities numerically on 3-D grids); the legacy convex fallback "
        "branch of the 2-D code is not modelled beyond the decision to take it; embedded 1-D/2-D "
        "grids (plane normal by normalisation needs sqrt); floating-point rounding; theorems are "
        "over Q (polynomial identities, so valid in any field, but stated for rationals).  "
        "Orientation check 2/3 (|S| < 1e-5*mean(area)^2) is modelled as S = 0.  Trusted: Coq "
        "kernel + vm_compute, harness, exact float->rational conversion.")
    technique = ("Coq proof (edge-wise polynomial identities by ring/field + permutation/telescoping "
                 "argument over balanced edge sets) + vm_compute execution correspondence in Q; "
                 "exact-fractions oracle for 1-3-D")
    rule = ("random grids: CartGrid / TensorGrid (dyadic spacings) in 1-3-D, StructuredTriangleGrid, "
            "StructuredTetrahedralGrid; 3-D boxes tapered to frusta (planar faces, no central symmetry); "
            "node perturbations by dyadic offsets (< 1/4 of the smallest "
            "spacing) of interior nodes (domain measure preserved) or of all nodes; 2-D stream with "
            "reversed node order on some faces (orientation check fails -> fallback); non-trivial = "
            "perturbed grid or grid with > 1 cell; distinct by (case, output)")
    trusted = ["float -> exact rational conversion of the implementation's arrays; tolerance band "
               "1e-9*(1+|x|) evaluated inside Coq on dyadic, well-conditioned inputs"]
    assumptions = ["1-D/2-D tie and theorems: non-embedded grids (x-axis / plane z = 0)",
                   "every 2-D face has exactly two nodes; cell_faces values are +-1"]

    def __init__(self):
        self.stats = {}

    # ------------------------------------------------------------------ generator
    def generate(self, rng, n, tier):
        big = tier != "quick"
        m = 5 if big else 3
        for i in range(n):
            r = rng.random()
            sp = [0.5, 1.0, 1.0, 1.5, 2.0]
            if r < 0.12:
                case = {"kind": "cart", "dims": [rng.randint(1, 3 * m)]}
            elif r < 0.22:
                xs = [float(rng.randint(-4, 4))]
                for _ in range(rng.randint(1, 2 * m)):
                    xs.append(xs[-1] + rng.choice(sp))
                case = {"kind": "tensor", "coords": [xs]}
            elif r < 0.40:
                case = {"kind": "cart", "dims": [rng.randint(1, m + 1), rng.randint(1, m)]}
            elif r < 0.55:
                cs = []
                for _ in range(2):
                    xs = [float(rng.randint(-4, 4))]
                    for _ in range(rng.randint(1, m)):
                        xs.append(xs[-1] + rng.choice(sp))
                    cs.append(xs)
                case = {"kind": "tensor", "coords": cs}
            elif r < 0.75:
                case = {"kind": "tri", "dims": [rng.randint(1, m), rng.randint(1, m)]}
            elif r < 0.83:
                case = {"kind": "cart", "dims": [rng.randint(1, 3), rng.randint(1, 3), rng.randint(1, 2)]}
            elif r < 0.90:
                cs = []
                for _ in range(3):
                    xs = [0.0]
                    for _ in range(rng.randint(1, 2)):
                        xs.append(xs[-1] + rng.choice(sp))
                    cs.append(xs)
                case = {"kind": "tensor", "coords": cs}
            else:
                case = {"kind": "tet", "dims": [rng.randint(1, 2), rng.randint(1, 2), rng.randint(1, 2)]}
            case["perturb"] = rng.choice(["none", "interior", "interior", "all"])
            if case["kind"] != "tet" and len(case.get("dims", case.get("coords", []))) == 3 \
                    and rng.random() < 0.6:
                case["perturb"] = "none"
                case["taper"] = True
            # smallest spacing is 1/2; offsets are multiples of 1/64 with |.| <= 7/64 < 1/8
            case["scale"] = 1.0 / 64
            case["pert"] = [rng.randint(-7, 7) for _ in range(24)]
            case["swap_faces"] = ([rng.randint(0, 10 ** 6) for _ in range(rng.randint(1, 2))]
                                  if rng.random() < 0.12 else [])
            yield case

    # ------------------------------------------------------------------ implementation
    def run_impl(self, case):
        g, measure = build(case)
        with warnings.catch_warnings(record=True) as w:
            warnings.simplefilter("always")
            g.compute_geometry()
        fallback = any("Orientations are inconsistent" in str(x.message) for x in w)
        cf = sps.coo_matrix(g.cell_faces)
        out = {
            "dim": int(g.dim), "nc": int(g.num_cells), "nf": int(g.num_faces),
            "nodes": g.nodes.T.tolist(),
            "fn_indices": [int(x) for x in g.face_nodes.indices],
            "fn_indptr": [int(x) for x in g.face_nodes.indptr],
            "cf": [[int(r), int(c), int(v)] for r, c, v in zip(cf.row, cf.col, cf.data)],
            "cf_indices": [int(x) for x in g.cell_faces.indices],
            "fallback": bool(fallback), "measure": measure,
            "areas": g.face_areas.tolist(), "fc": g.face_centers.T.tolist(),
            "fnrm": g.face_normals.T.tolist(), "vol": g.cell_volumes.tolist(),
            "cc": g.cell_centers.T.tolist(),
        }
        key = f"dim{g.dim}" + ("_fallback" if fallback else "") + \
              ("" if case["perturb"] == "none" else "_pert")
        self.stats[key] = self.stats.get(key, 0) + 1
        return out

    # ------------------------------------------------------------------ oracle
    def oracle(self, case, res):
        dim, nc, nf = res["dim"], res["nc"], res["nf"]
        fr = lambda v: [F(x) for x in v]
        fc = [fr(p) for p in res["fc"]]
        nr = [fr(p) for p in res["fnrm"]]
        cc = [fr(p) for p in res["cc"]]
        vol = fr(res["vol"])
        ar = fr(res["areas"])
        scale = max([abs(x) for p in fc for x in p] + [F(1)])
        dotp = lambda a, b: sum(x * y for x, y in zip(a, b))
        # planar faces?  (3-D hexahedra with perturbed nodes have non-planar faces; for those
        # only closedness, outwardness and volumes are demanded)
        planar_face = [True] * nf
        if dim == 3:
            nodes = [fr(p) for p in res["nodes"]]
            for f in range(nf):
                ids = res["fn_indices"][res["fn_indptr"][f]:res["fn_indptr"][f + 1]]
                for i in ids:
                    d = [a - b for a, b in zip(nodes[i], fc[f])]
                    if abs(dotp(d, nr[f])) > TOL * scale ** 3:
                        planar_face[f] = False
        for f in range(nf):
            n2 = dotp(nr[f], nr[f])
            if planar_face[f] and abs(n2 - ar[f] ** 2) > TOL * (1 + n2):
                return f"face {f}: |normal|^2 = {float(n2)} but area^2 = {float(ar[f] ** 2)}"
        for c in range(nc):
            if not vol[c] > 0:
                return f"cell {c}: volume {float(vol[c])} is not positive"
        if res["measure"] is not None:
            tot = sum(vol)
            if abs(tot - F(res["measure"])) > TOL * 1000 * (1 + tot):
                return f"cell volumes sum to {float(tot)}, domain measure is {res['measure']}"
        per_cell = {}
        for f, c, s in res["cf"]:
            per_cell.setdefault(c, []).append((f, s))
        for c in range(nc):
            ents = per_cell.get(c, [])
            sn = [sum(s * nr[f][k] for f, s in ents) for k in range(3)]
            amax = max([ar[f] for f, _ in ents] + [F(1)])
            if any(abs(x) > TOL * 100 * amax for x in sn):
                return f"cell {c}: signed face normals sum to {[float(x) for x in sn]}"
            for f, s in ents:
                out = s * dotp(nr[f], [a - b for a, b in zip(fc[f], cc[c])])
                if not out > 0:
                    return (f"cell {c}, face {f}: normal with sign {s} does not point out of the "
                            f"cell (s*n.(xf-xc) = {float(out)})")
            if not all(planar_face[f] for f, _ in ents):
                continue
            gs = sum(s * dotp(fc[f], nr[f]) for f, s in ents)
            big = scale ** dim * 1000
            if abs(gs - dim * vol[c]) > TOL * big:
                return f"cell {c}: sum +-x_f.n_f = {float(gs)} but dim*|K| = {float(dim * vol[c])}"
            for k in range(3):
                lhs = sum(s * dotp(fc[f], nr[f]) * fc[f][k] for f, s in ents)
                rhs = (dim + 1) * vol[c] * cc[c][k]
                if abs(lhs - rhs) > TOL * big * scale:
                    return (f"cell {c}: sum +-(x_f.n_f) x_f[{k}] = {float(lhs)} but "
                            f"(dim+1)|K| x_c[{k}] = {float(rhs)}")
        return None

    # ------------------------------------------------------------------ Coq tie
    def coq_case(self, case, res):
        if res["dim"] == 3:
            return None
        if res["dim"] == 1:
            nodes = clist([p[0] for p in res["nodes"]], qz)
            fn = clist(res["fn_indices"], lambda i: f"{i}%nat")
            cf = clist(res["cf"], lambda e: f"({e[0]}%nat,{e[1]}%nat,({e[2]})%Z)")
            h = f"{{| h_nodes := {nodes}; h_fn := {fn}; h_cf := {cf}; h_nc := {res['nc']}%nat |}}"
            o = (f"{{| p_fc := {clist([p[0] for p in res['fc']], qz)}; "
                 f"p_fn := {clist([p[0] for p in res['fnrm']], qz)}; "
                 f"p_vol := {clist(res['vol'], qz)}; p_cc := {clist([p[0] for p in res['cc']], qz)} |}}")
            return f"agree1 {h} {o}"
        nodes = clist(res["nodes"], qpt)
        ip, ix = res["fn_indptr"], res["fn_indices"]
        assert all(ip[f + 1] - ip[f] == 2 for f in range(res["nf"]))
        faces = clist(range(res["nf"]), lambda f: f"({ix[ip[f]]}%nat,{ix[ip[f] + 1]}%nat)")
        cf = clist(res["cf"], lambda e: f"({e[0]}%nat,{e[1]}%nat,({e[2]})%Z)")
        g = f"{{| g_nodes := {nodes}; g_faces := {faces}; g_cf := {cf}; g_nc := {res['nc']}%nat |}}"
        if res["fallback"]:
            return f"agree2 {g} None"
        o = (f"{{| o_area2 := {clist([F(a) ** 2 for a in res['areas']], qz)}; "
             f"o_fc := {clist(res['fc'], qpt)}; o_fn := {clist(res['fnrm'], qpt)}; "
             f"o_vol := {clist(res['vol'], qz)}; o_cc := {clist(res['cc'], qpt)} |}}")
        return f"agree2 {g} (Some {o})"

    def nontrivial(self, case, res):
        return res["nc"] > 1 or case["perturb"] != "none"

    def finding_key(self, case, res, why):
        return f"geometry-identity-dim{res['dim']}"

    def extra_evidence(self):
        return {"input_distribution": dict(sorted(self.stats.items()))}


PROP = C19()
