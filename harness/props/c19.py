"""C19 — computed grid geometry satisfies the divergence theorem."""
import warnings
from fractions import Fraction as F

import numpy as np
import scipy.sparse as sps

from harness.core import Prop, clist

import porepy as pp

TOL = F(1, 10 ** 9)


def _construct(case):
    """Create the grid through the requested documented constructor form.  Returns the grid
    and the REQUESTED box (lower, upper per axis, exact Fractions)."""
    k = case["kind"]
    if k == "cart":
        dims = case["dims"]
        nd = len(dims)
        h = case.get("h", [1.0] * nd)
        low = case.get("lower", [0.0] * nd)
        ext = [dims[d] * h[d] for d in range(nd)]
        nx = int(dims[0]) if (nd == 1 and case.get("scalar_nx")) else np.array(dims)
        ctor = case.get("ctor", "none")
        if ctor == "none":
            g = pp.CartGrid(nx)
            lo, hi = [0.0] * nd, [float(n) for n in dims]
        elif ctor in ("array", "list"):
            g = pp.CartGrid(nx, np.array(ext) if ctor == "array" else list(ext))
            lo, hi = [0.0] * nd, ext
        else:  # documented dictionary form; "dict_nomin" leaves ymin / zmin to their default 0
            phys = {}
            lo, hi = [], []
            for d, ax in enumerate("xyz"[:nd]):
                if ctor == "dict_nomin" and d > 0:
                    lo.append(0.0)
                else:
                    phys[ax + "min"] = low[d]
                    lo.append(low[d])
                phys[ax + "max"] = lo[d] + ext[d]
                hi.append(lo[d] + ext[d])
            g = pp.CartGrid(nx, phys)
    elif k == "tensor":
        cs = [np.array(c, dtype=float) for c in case["coords"]]
        g = pp.TensorGrid(*cs)
        lo, hi = [float(c[0]) for c in cs], [float(c[-1]) for c in cs]
    elif k == "tri":
        g = pp.StructuredTriangleGrid(np.array(case["dims"]))
        lo, hi = [0.0, 0.0], [float(n) for n in case["dims"]]
    elif k == "two_islands":
        # cells 0 and 2 of a 3 x 1 tensor grid; every face of the second cell gets its node
        # order reversed: each cell is still a consistent loop (orientation check 1/3 passes) but
        # the two islands have opposite orientation (checks 2/3 or 3/3 must catch it)
        xs = np.array(case["xs"], dtype=float)
        base = pp.TensorGrid(xs, np.array([0.0, case["hy"]]))
        base.compute_geometry()
        g, _, _ = pp.partition.extract_subgrid(base, np.array([0, 2]))
        cfc = g.cell_faces.tocsc()
        for f in cfc.indices[cfc.indptr[1]:cfc.indptr[2]]:
            a, b = g.face_nodes.indptr[f], g.face_nodes.indptr[f + 1]
            g.face_nodes.indices[a:b] = g.face_nodes.indices[a:b][::-1].copy()
        return g, None, None
    elif k == "tet":
        g = pp.StructuredTetrahedralGrid(np.array(case["dims"]))
        lo, hi = [0.0] * 3, [float(n) for n in case["dims"]]
    elif k == "tetmerge":
        # polyhedra with only triangular faces: neighbouring tetrahedra merged into groups
        # (bipyramids, prisms with split quadrilaterals, ...): cell_faces @ partition, interior
        # faces dropped, wrapped by the public constructor
        import random as _r
        t = pp.StructuredTetrahedralGrid(np.array(case["dims"]))
        rng = _r.Random(case["merge_seed"])
        cfm = sps.csc_matrix(t.cell_faces)
        nbr = (abs(cfm).T @ abs(cfm)).tolil()
        group = -np.ones(t.num_cells, dtype=int)
        ng = 0
        order = list(range(t.num_cells))
        rng.shuffle(order)
        for c in order:
            if group[c] >= 0:
                continue
            group[c] = ng
            members = [c]
            want = rng.choice(case["sizes"])
            while len(members) < want:
                cand = [int(j) for m in members for j in nbr.rows[m] if group[j] < 0]
                if not cand:
                    break
                j = rng.choice(cand)
                group[j] = ng
                members.append(j)
            ng += 1
        P = sps.csc_matrix((np.ones(t.num_cells, dtype=int), (np.arange(t.num_cells), group)),
                           shape=(t.num_cells, ng))
        cf2 = sps.csc_matrix(cfm @ P)
        cf2.eliminate_zeros()
        keep = np.where(np.diff(cf2.tocsr().indptr) > 0)[0]
        cf2 = sps.csc_matrix(cf2.tocsr()[keep, :])
        fn2 = sps.csc_matrix(t.face_nodes[:, keep])
        g = pp.Grid(3, t.nodes.copy(), fn2, cf2, "merged tetrahedra")
        lo, hi = [0.0] * 3, [float(n) for n in case["dims"]]
    else:
        raise ValueError(k)
    return g, [F(x) for x in lo], [F(x) for x in hi]


def build(case):
    g, rlo, rhi = _construct(case)
    if rlo is None:     # hand-made grid: no requested box; measure given by the case
        for d, e in enumerate(case.get("scale_exp", [])[:g.dim]):
            g.nodes[d] *= 2.0 ** e
        return g, F(case["measure"]) * F(2) ** sum(case.get("scale_exp", [0, 0])[:g.dim]), None
    nd = g.dim
    span = [[float(g.nodes[d].min()) for d in range(nd)], [float(g.nodes[d].max()) for d in range(nd)]]
    measure = F(1)
    for d in range(len(rlo)):
        measure *= rhi[d] - rlo[d]
    lo, hi = g.nodes.min(axis=1), g.nodes.max(axis=1)
    interior = [i for i in range(g.num_nodes)
                if all(lo[d] < g.nodes[d, i] < hi[d] for d in range(nd))]
    mode = case.get("perturb", "none")
    pert = case.get("pert", [])
    if case.get("taper") and nd == 3:
        # (x, y, z) -> (x (1 + z/8), y (1 + z/8), z): planes stay planes, boxes become frusta
        # (planar faces, cells without central symmetry); dyadic coordinates stay dyadic
        s = 1.0 + g.nodes[2] / 8.0
        g.nodes[0] *= s
        g.nodes[1] *= s
        prim = lambda z: (1 + z / 8) ** 3 * F(8, 3)
        measure = (rhi[0] - rlo[0]) * (rhi[1] - rlo[1]) * (prim(rhi[2]) - prim(rlo[2]))
    targets = interior if mode == "interior" else (list(range(g.num_nodes)) if mode == "all" else [])
    for j, i in enumerate(targets):
        for d in range(nd):
            g.nodes[d, i] += case["scale"] * pert[(j * nd + d) % len(pert)]
    for f in case.get("swap_faces", []):
        if nd == 2 and g.num_faces:
            f = f % g.num_faces
            a, b = g.face_nodes.indptr[f], g.face_nodes.indptr[f + 1]
            g.face_nodes.indices[a:b] = g.face_nodes.indices[a:b][::-1].copy()
    # exact rescaling by powers of two per axis (isotropic or thin layers)
    for d, e in enumerate(case.get("scale_exp", [])[:nd]):
        g.nodes[d] *= 2.0 ** e
        measure *= F(2) ** e
    req = {"lo": [str(x) for x in rlo], "hi": [str(x) for x in rhi], "span": span,
           "nd_req": len(rlo)}
    emb = case.get("embed")
    if emb and nd < 3:
        # exact embedding into another coordinate line / plane: out-of-plane coordinates get
        # dyadic offsets, then the axes are permuted
        old = g.nodes.copy()
        offs = list(emb["off"])
        for d in range(nd, 3):
            old[d] = offs[d - nd]
        for i in range(3):
            g.nodes[emb["perm"][i]] = old[i]
    return g, (measure if mode != "all" else None), req


def qz(x):
    """Q literal in Q_scope from an exact rational."""
    fr = F(x)
    n, d = fr.numerator, fr.denominator
    s = f"{n}" if d == 1 else f"({n}#{d})"
    return s if n >= 0 else (f"({n})" if d == 1 else f"({n}#{d})")


def qpt(p):
    return f"({qz(p[0])},{qz(p[1])})"


class C19(Prop):
    id = "C19"
    props_file = "Props/C19.v"
    preamble = ("From Coq Require Import List ZArith QArith.\nImport ListNotations.\n"
                "From PP Require Import Model.C19 Model.C19_3d Model.C19_fb.\nOpen Scope Q_scope.\n")
    n_cases = (60, 500)
    design_ref = "DESIGN.md §5 C19"
    level_text = (
        "Coq theorems (exact rational arithmetic, all node coordinates, any number of faces per "
        "cell) over executable transcriptions of Grid._compute_geometry_1d, _compute_geometry_2d "
        "(oriented branch AND the legacy convex-cell branch, with the general plane normal of "
        "map_geometry.compute_normal) and _compute_geometry_3d (planar faces).  2-D: for every cell whose "
        "traversed faces pass the code's own orientation check (every node as often end as start: "
        "closed node loops, any orientation) the signed face normals sum to zero, the computed "
        "volume equals the shoelace area independent of the temporary centre, sum +-x_f.n_f = 2|K| "
        "and sum +-(x_f.n_f) x_f = 3|K| x_c; |n_f|^2 = area^2; volumes of the oriented branch are "
        "never negative and positive for cells star-shaped w.r.t. their temporary centre (incl. "
        "convex cells); on the legacy branch (orientation checks failed) volumes are never negative, "
        "the flip rule makes sign*normal point away from the temporary centre, and for every cell "
        "that is star-shaped w.r.t. its temporary centre the legacy volume and centre equal the "
        "oriented ones of the correctly traversed loop (hence shoelace area, Gauss and centroid "
        "identities).  1-D: the flip rule makes the normal outward for the cell it is computed "
        "from; for outward normals the identities hold with |x2-x1| > 0.  3-D: the face normal "
        "(sub-triangle sum around any centre) is the vector area of the node loop; for every "
        "watertight cell (each directed edge as often as its reverse) the signed face normals sum "
        "to zero; with sub-triangles oriented like their faces the sub-tetrahedron volume is "
        "independent of the temporary centre and, for planar faces, sum +-x_f.n_f = 3|K| with the "
        "code's area-weighted face centres; an executable check of these hypotheses is proved sound "
        "and evaluated by Coq on every cell of every real 3-D grid of the tie.  Tie: Coq recomputes "
        "areas^2, face centres, normals, volumes, cell centres of real Cartesian / tensor / triangle "
        "/ tetrahedral / merged-tetrahedra (triangular-faced polyhedra) grids in 1-D, 2-D and 3-D (all CartGrid constructor forms, dyadic "
        "perturbations, frusta, power-of-two rescalings 2^-20..2^10 incl. thin layers, reversed face "
        "orientation -> fallback decision) in Q and compares at relative tolerance 1e-9 at the "
        "grid's own scale.  Perturbed hexahedra (twisted faces) are covered by the exact-fractions "
        "oracle only; the oracle checks every identity of the property on all grids, and that the "
        "grid covers the domain REQUESTED from the constructor.")
    level_note = (
        "NOT proved: the 3-D centroid identity; anything about twisted (non-planar) 3-D faces beyond "
        "normals-sum-zero (|sub_normal| is irrational there; the model returns G3NonPlanar); on the "
        "legacy 2-D branch: non-star-shaped cells, and that the flip decisions of the two sides of "
        "a face agree (true for convex cells; oracle only); "
        "1-D/2-D grids embedded in tilted lines / planes (plane normal by normalisation needs sqrt; "
        "axis-aligned embeddings are tied); floating-point rounding; theorems are over Q (polynomial "
        "identities, valid in any field, but stated for rationals).  2-D orientation check 2/3 "
        "(|S| < 1e-5*mean(area)^2) is modelled as S = 0.  In the 3-D model |sub_normal| is "
        "represented by |sub_normal.N|/|N| (exact for planar faces) and every vector operation is "
        "followed by Qred (proved invisible up to ==).  Trusted: Coq kernel + vm_compute, harness, "
        "exact float->rational conversion.")
    technique = ("Coq proof (edge-wise polynomial identities by ring/field + permutation/telescoping "
                 "argument over balanced edge sets) + vm_compute execution correspondence in Q; "
                 "exact-fractions oracle for 1-3-D")
    rule = ("random grids: CartGrid through every documented constructor form (physdims None / array / "
            "list / dict with non-zero lower bounds / dict with defaulted ymin, zmin; scalar or array nx "
            "in 1-D) and TensorGrid (dyadic spacings) in 1-3-D, checked against the REQUESTED box (node "
            "span, sum of volumes); exact rescaling of the node coordinates by powers of two 2^-20..2^10, "
            "isotropic and anisotropic (thin layers), in 1-D, 2-D and 3-D; StructuredTriangleGrid, "
            "StructuredTetrahedralGrid; polyhedra with only triangular faces (neighbouring tetrahedra merged "
            "into groups of 1-4: bipyramids, prisms with split quadrilaterals; cell_faces @ partition "
            "through the public pp.Grid constructor; non-star-shaped unions must be rejected by code and "
            "model alike); 3-D boxes tapered to frusta (planar faces, no central symmetry); "
            "node perturbations by dyadic offsets (< 1/4 of the smallest "
            "spacing) of interior nodes (domain measure preserved) or of all nodes; 2-D stream with "
            "reversed node order on some faces (orientation check fails -> legacy branch); two-island "
            "grids whose islands have opposite orientation (orientation checks 2/3 and 3/3); every "
            "geometry is computed twice (idempotence); 40% of the "
            "1-D/2-D grids embedded by an axis permutation with dyadic out-of-plane offsets (up to 256); non-trivial = "
            "perturbed grid or grid with > 1 cell; distinct by (case, output)")
    trusted = ["float -> exact rational conversion of the implementation's arrays; tolerance band "
               "1e-9*(1+|x|) evaluated inside Coq on dyadic, well-conditioned inputs"]
    assumptions = ["1-D/2-D theorems: coordinates in the grid's line / plane; the tie covers the x-axis / "
                   "plane z = 0 and the axis-permuted, offset embeddings (general tilted embeddings: C20)",
                   "3-D tie and Gauss / volume theorems: planar faces whose sub-triangles are oriented "
                   "like the face (checked by Coq per cell: cell_hyps_b)",
                   "every 2-D face has exactly two nodes; cell_faces values are +-1"]

    def __init__(self):
        self.stats = {}

    # ------------------------------------------------------------------ generator
    def generate(self, rng, n, tier):
        big = tier != "quick"
        m = 5 if big else 3
        hs = [0.5, 1.0, 1.0, 1.5, 2.0]

        def cart(dims):
            nd = len(dims)
            c = {"kind": "cart", "dims": dims,
                 "ctor": rng.choice(["none", "array", "list", "dict", "dict", "dict", "dict_nomin"]),
                 "h": [rng.choice(hs) for _ in range(nd)],
                 "lower": [float(rng.choice([-2, -1, 1, 1, 2, 3, 0])) + rng.choice([0.0, 0.5])
                           for _ in range(nd)]}
            if nd == 1:
                c["scalar_nx"] = rng.random() < 0.4
            return c

        for i in range(n):
            r = rng.random()
            if r < 0.14:
                case = cart([rng.randint(1, 3 * m)])
            elif r < 0.22:
                xs = [float(rng.randint(-4, 4))]
                for _ in range(rng.randint(1, 2 * m)):
                    xs.append(xs[-1] + rng.choice(hs))
                case = {"kind": "tensor", "coords": [xs]}
            elif r < 0.40:
                case = cart([rng.randint(1, m + 1), rng.randint(1, m)])
            elif r < 0.47:
                cs = []
                for _ in range(2):
                    xs = [float(rng.randint(-4, 4))]
                    for _ in range(rng.randint(1, m)):
                        xs.append(xs[-1] + rng.choice(hs))
                    cs.append(xs)
                case = {"kind": "tensor", "coords": cs}
            elif r < 0.56:
                w = [rng.choice(hs) for _ in range(3)]
                if rng.random() < 0.25:
                    w[2] = w[0]      # equal islands: the plane-normal sum is exactly zero (check 2/3)
                hy = rng.choice(hs)
                case = {"kind": "two_islands", "xs": [0.0, w[0], w[0] + w[1], w[0] + w[1] + w[2]],
                        "hy": hy, "measure": (w[0] + w[2]) * hy, "coords": [[0, 1], [0, 1]]}
            elif r < 0.68:
                case = {"kind": "tri", "dims": [rng.randint(1, m), rng.randint(1, m)]}
            elif r < 0.82:
                case = cart([rng.randint(1, 3), rng.randint(1, 3), rng.randint(1, 2)])
            elif r < 0.90:
                cs = []
                for _ in range(3):
                    xs = [float(rng.randint(-2, 2))]
                    for _ in range(rng.randint(1, 2)):
                        xs.append(xs[-1] + rng.choice(hs))
                    cs.append(xs)
                case = {"kind": "tensor", "coords": cs}
            elif r < 0.95:
                case = {"kind": "tet", "dims": [rng.randint(1, 2), rng.randint(1, 2), rng.randint(1, 2)]}
            else:
                case = {"kind": "tetmerge", "dims": [rng.randint(1, 2), rng.randint(1, 2), 1],
                        "merge_seed": rng.randint(0, 10 ** 6),
                        "sizes": rng.choice([[2], [2, 3], [1, 2, 3], [3], [2, 4]])}
            nd = len(case.get("dims", case.get("coords", [])))
            case["perturb"] = rng.choice(["none", "interior", "interior", "all"])
            if case["kind"] == "two_islands":
                case["perturb"] = "none"
            if case["kind"] not in ("tet", "tetmerge") and nd == 3 and rng.random() < 0.6:
                case["perturb"] = "none"
                case["taper"] = True
            # smallest spacing is 1/2; offsets are multiples of 1/64 with |.| <= 7/64 < 1/8
            case["scale"] = 1.0 / 64
            case["pert"] = [rng.randint(-7, 7) for _ in range(24)]
            case["swap_faces"] = ([rng.randint(0, 10 ** 6) for _ in range(rng.randint(1, 2))]
                                  if rng.random() < 0.25 else [])
            # exact rescaling by powers of two, 2^-20 .. 2^10: none / isotropic / anisotropic
            # (thin layers).  Aspect ratios stay <= 2^10: beyond ~1e5 the code's orientation
            # check 2/3 (|S| < 1e-5 mean(area)^2) sends a valid thin 2-D grid to the legacy
            # fallback, a tolerance band the property does not cover.  Perturbed hexahedra
            # (non-planar faces) are only rescaled isotropically: the sub-tetrahedron
            # decomposition of twisted faces is not affine invariant.
            sm = rng.random()
            twisted = nd == 3 and case["kind"] not in ("tet", "tetmerge") and case["perturb"] != "none"
            if sm < 0.2:
                case["scale_exp"] = [0, 0, 0]
            elif sm < 0.55 or twisted:
                # half of the isotropic rescalings are small (millimetre cells and below)
                e = rng.randint(-20, -11) if rng.random() < 0.5 else rng.randint(-10, 10)
                case["scale_exp"] = [e, e, e]
            elif sm < 0.8:
                e = rng.randint(-10, 10)
                ex = [e, e, e]
                ex[rng.randint(0, max(nd - 1, 1))] = e - rng.randint(3, 10)
                case["scale_exp"] = ex
            else:
                e = rng.randint(-10, 10)
                case["scale_exp"] = [e - rng.randint(0, 10) for _ in range(3)]
            if nd < 3 and case["kind"] != "two_islands" and rng.random() < 0.4:
                perm = [0, 1, 2]
                rng.shuffle(perm)
                case["embed"] = {"perm": perm,
                                 "off": [rng.choice([0.0, 1.0, -0.5, 3.25, 256.0, -40.5]) for _ in range(2)]}
            yield case

    # ------------------------------------------------------------------ implementation
    def run_impl(self, case):
        g, measure, req = build(case)
        try:
            with warnings.catch_warnings(record=True) as w:
                warnings.simplefilter("always")
                g.compute_geometry()
        except ValueError as e:
            # merged polyhedra that are not star-shaped w.r.t. their temporary centre are rejected
            # by the code ("Some tetrahedra have negative volume"): an invalid grid, not a finding;
            # the model must reject it too
            if g.dim != 3 or case["kind"] != "tetmerge" or "negative volume" not in str(e):
                raise
            cf = sps.coo_matrix(g.cell_faces)
            self.stats["dim3_rejected"] = self.stats.get("dim3_rejected", 0) + 1
            return {"dim": 3, "nc": int(g.num_cells), "nf": int(g.num_faces), "raised": True,
                    "nodes": g.nodes.T.tolist(),
                    "fn_indices": [int(x) for x in g.face_nodes.indices],
                    "fn_indptr": [int(x) for x in g.face_nodes.indptr],
                    "cf": [[int(r), int(c), int(v)] for r, c, v in zip(cf.row, cf.col, cf.data)]}
        fallback = any("Orientations are inconsistent" in str(x.message) for x in w)
        # a second call recomputes the same geometry (no state carried over, also after the
        # in-place normal flips of the legacy branch)
        first = [np.array(a, copy=True) for a in (g.face_areas, g.face_centers, g.face_normals,
                                                  g.cell_volumes, g.cell_centers)]
        with warnings.catch_warnings():
            warnings.simplefilter("ignore")
            g.compute_geometry()
        self.recompute_same = all(np.array_equal(a, b, equal_nan=True) for a, b in zip(
            first, (g.face_areas, g.face_centers, g.face_normals, g.cell_volumes, g.cell_centers)))
        cf = sps.coo_matrix(g.cell_faces)
        out = {
            "dim": int(g.dim), "nc": int(g.num_cells), "nf": int(g.num_faces),
            "nodes": g.nodes.T.tolist(),
            "fn_indices": [int(x) for x in g.face_nodes.indices],
            "fn_indptr": [int(x) for x in g.face_nodes.indptr],
            "cf": [[int(r), int(c), int(v)] for r, c, v in zip(cf.row, cf.col, cf.data)],
            "cf_indices": [int(x) for x in g.cell_faces.indices],
            "fallback": bool(fallback), "recompute_same": bool(self.recompute_same),
            "measure": None if measure is None else str(F(measure)), "req": req,
            "areas": g.face_areas.tolist(), "fc": g.face_centers.T.tolist(),
            "fnrm": g.face_normals.T.tolist(), "vol": g.cell_volumes.tolist(),
            "cc": g.cell_centers.T.tolist(),
        }
        key = f"dim{g.dim}" + ("_fallback" if fallback else "") + \
              ("" if case["perturb"] == "none" else "_pert")
        self.stats[key] = self.stats.get(key, 0) + 1
        ex = case.get("scale_exp", [0, 0, 0])[:g.dim]
        sk = "scale_" + ("unit" if not any(ex) else ("iso" if len(set(ex)) == 1 else "aniso")) + \
             ("_small" if min(ex) <= -11 else "")
        self.stats[sk] = self.stats.get(sk, 0) + 1
        if case.get("embed") and g.dim < 3:
            self.stats["embedded"] = self.stats.get("embedded", 0) + 1
        if case["kind"] == "cart":
            ck = "ctor_" + case.get("ctor", "none") + ("_scalar_nx" if case.get("scalar_nx") else "")
            self.stats[ck] = self.stats.get(ck, 0) + 1
        return out

    # ------------------------------------------------------------------ oracle
    def oracle(self, case, res):
        if res.get("raised"):
            return None
        return self._oracle(case, res)

    def _oracle(self, case, res):
        """All comparisons are relative to the magnitude of the terms of the identity at hand
        (|sum - rhs| <= 1e-9 (sum |terms| + |rhs|)), so every grid is judged at its own scale."""
        dim, nc, nf = res["dim"], res["nc"], res["nf"]
        if not res.get("recompute_same", True):
            return "a second compute_geometry() call returned different arrays"
        for name in ("vol", "areas", "cc", "fc", "fnrm"):
            flat = np.asarray(res[name], dtype=float).ravel()
            if not np.all(np.isfinite(flat)):
                i = int(np.argmin(np.isfinite(flat)))
                return f"{name}: non-finite value {flat[i]} (flat index {i})"
        fr = lambda v: [F(x) for x in v]
        fc = [fr(p) for p in res["fc"]]
        nr = [fr(p) for p in res["fnrm"]]
        cc = [fr(p) for p in res["cc"]]
        vol = fr(res["vol"])
        ar = fr(res["areas"])
        nodes = [fr(p) for p in res["nodes"]]
        dotp = lambda a, b: sum(x * y for x, y in zip(a, b))
        adot = lambda a, b: sum(abs(x * y) for x, y in zip(a, b))

        def off(terms, rhs, slack=0):
            return abs(sum(terms) - rhs) > TOL * (sum(abs(t) for t in terms) + abs(rhs) + slack)

        # the grid covers the REQUESTED domain (checked on the nodes as constructed)
        req = res["req"]
        if req is None:
            pass
        elif req["nd_req"] == dim:
            for d in range(dim):
                if F(req["span"][0][d]) != F(req["lo"][d]) or F(req["span"][1][d]) != F(req["hi"][d]):
                    return (f"axis {d}: nodes span [{req['span'][0][d]}, {req['span'][1][d]}] but the "
                            f"requested domain is [{float(F(req['lo'][d]))}, {float(F(req['hi'][d]))}]")
        else:
            return f"grid of dimension {dim} for a {req['nd_req']}-d request"
        # positions are measured from a point of the grid's line / plane (node 0)
        org = nodes[0]
        fc = [[a - b for a, b in zip(p, org)] for p in fc]
        cc = [[a - b for a, b in zip(p, org)] for p in cc]
        nodes = [[a - b for a, b in zip(p, org)] for p in nodes]
        # planar faces?  (3-D hexahedra with perturbed nodes have non-planar faces; for those
        # only closedness, outwardness and volumes are demanded)
        planar_face = [True] * nf
        if dim == 3:
            for f in range(nf):
                ids = res["fn_indices"][res["fn_indptr"][f]:res["fn_indptr"][f + 1]]
                for i in ids:
                    d = [a - b for a, b in zip(nodes[i], fc[f])]
                    mag = sum((abs(a) + abs(b)) * abs(n) for a, b, n in zip(nodes[i], fc[f], nr[f]))
                    if abs(dotp(d, nr[f])) > TOL * mag:
                        planar_face[f] = False
        for f in range(nf):
            n2 = dotp(nr[f], nr[f])
            if not n2 > 0:
                return f"face {f}: zero normal"
            if planar_face[f] and abs(n2 - ar[f] ** 2) > TOL * n2:
                return f"face {f}: |normal|^2 = {float(n2)} but area^2 = {float(ar[f] ** 2)}"
        for c in range(nc):
            if not vol[c] > 0:   # also catches nan
                return f"cell {c}: volume {res['vol'][c]} is not positive"
        if res["measure"] is not None:
            tot = sum(vol)
            meas = F(res["measure"])
            if abs(tot - meas) > TOL * 1000 * meas:
                return f"cell volumes sum to {float(tot)}, measure of the requested domain is {float(meas)}"
        per_cell = {}
        for f, c, s in res["cf"]:
            per_cell.setdefault(c, []).append((f, s))
        for c in range(nc):
            ents = per_cell.get(c, [])
            for k in range(3):
                if off([s * nr[f][k] for f, s in ents], 0):
                    return (f"cell {c}: signed face normals, component {k}, sum to "
                            f"{float(sum(s * nr[f][k] for f, s in ents))}")
            # outwardness seen from the cell centre: meaningful for convex cells only (merged
            # polyhedra may be non-convex, their centre can lie in or behind a face plane; for
            # them orientation is covered by Gauss with a positive volume)
            for f, s in (ents if case["kind"] != "tetmerge" else []):
                out = s * dotp(nr[f], [a - b for a, b in zip(fc[f], cc[c])])
                if not out > 0:
                    return (f"cell {c}, face {f}: normal with sign {s} does not point out of the "
                            f"cell (s*n.(xf-xc) = {float(out)})")
            if not all(planar_face[f] for f, _ in ents):
                continue
            gterms = [s * fc[f][j] * nr[f][j] for f, s in ents for j in range(3)]
            if off(gterms, dim * vol[c]):
                return (f"cell {c}: sum +-x_f.n_f = {float(sum(gterms))} but dim*|K| = "
                        f"{float(dim * vol[c])}")
            for k in range(3):
                cterms = [s * fc[f][j] * nr[f][j] * fc[f][k] for f, s in ents for j in range(3)]
                rhs = (dim + 1) * vol[c] * cc[c][k]
                # x_c[k] carries the rounding of the absolute position (|org[k]|), also when the
                # grid does not extend in direction k at all
                if off(cterms, rhs, (dim + 1) * vol[c] * abs(org[k])):
                    return (f"cell {c}: sum +-(x_f.n_f) x_f[{k}] = {float(sum(cterms))} but "
                            f"(dim+1)|K| x_c[{k}] = {float(rhs)}")
        return None

    # ------------------------------------------------------------------ Coq tie
    def coq_case(self, case, res):
        if res["dim"] == 3:
            return self._coq_case_3d(case, res)
        # grids embedded in another coordinate line / plane: Coq gets the in-plane components;
        # the out-of-plane components must be the constant offsets (positions) and 0 (normals)
        emb = case.get("embed")
        perm = emb["perm"] if emb else [0, 1, 2]
        dim = res["dim"]
        inpl, outpl = perm[:dim], perm[dim:]
        for k in outpl:
            w = res["nodes"][0][k]
            if any(p[k] != w for p in res["nodes"]):
                return "false"
            tol = 1e-9 * (1 + abs(w))
            if any(abs(p[k] - w) > tol for p in res["fc"]) or any(abs(p[k] - w) > tol for p in res["cc"]):
                return "false"
            if any(abs(n[k]) > 1e-9 * max(abs(x) for x in n) for n in res["fnrm"]):
                return "false"
        if dim == 1:
            a = inpl[0]
            nodes = clist([p[a] for p in res["nodes"]], qz)
            fn = clist(res["fn_indices"], lambda i: f"{i}%nat")
            cf = clist(res["cf"], lambda e: f"({e[0]}%nat,{e[1]}%nat,({e[2]})%Z)")
            h = f"{{| h_nodes := {nodes}; h_fn := {fn}; h_cf := {cf}; h_nc := {res['nc']}%nat |}}"
            o = (f"{{| p_fc := {clist([p[a] for p in res['fc']], qz)}; "
                 f"p_fn := {clist([p[a] for p in res['fnrm']], qz)}; "
                 f"p_vol := {clist(res['vol'], qz)}; p_cc := {clist([p[a] for p in res['cc']], qz)} |}}")
            return f"agree1 {h} {o}"
        a, b = inpl
        pl = lambda p: (p[a], p[b])
        nodes = clist([pl(p) for p in res["nodes"]], qpt)
        ip, ix = res["fn_indptr"], res["fn_indices"]
        assert all(ip[f + 1] - ip[f] == 2 for f in range(res["nf"]))
        faces = clist(range(res["nf"]), lambda f: f"({ix[ip[f]]}%nat,{ix[ip[f] + 1]}%nat)")
        cf = clist(res["cf"], lambda e: f"({e[0]}%nat,{e[1]}%nat,({e[2]})%Z)")
        g = f"{{| g_nodes := {nodes}; g_faces := {faces}; g_cf := {cf}; g_nc := {res['nc']}%nat |}}"
        o = (f"{{| o_area2 := {clist([F(x) ** 2 for x in res['areas']], qz)}; "
             f"o_fc := {clist([pl(p) for p in res['fc']], qpt)}; "
             f"o_fn := {clist([pl(p) for p in res['fnrm']], qpt)}; "
             f"o_vol := {clist(res['vol'], qz)}; o_cc := {clist([pl(p) for p in res['cc']], qpt)} |}}")
        # branch decision and every output array, on the oriented and on the legacy path
        return f"agree2f {g} {'true' if res['fallback'] else 'false'} {o}"

    def _coq_case_3d(self, case, res):
        # planar faces only (the model's domain): boxes, frusta, tetrahedra (also perturbed);
        # perturbed hexahedra have twisted faces and stay oracle-only
        if case["kind"] not in ("tet", "tetmerge") and case.get("perturb", "none") != "none":
            return None
        q3 = lambda p: f"({qz(p[0])},{qz(p[1])},{qz(p[2])})"
        ip, ix = res["fn_indptr"], res["fn_indices"]
        faces = clist(range(res["nf"]),
                      lambda f: clist(ix[ip[f]:ip[f + 1]], lambda i: f"{i}%nat"))
        cf = clist(res["cf"], lambda e: f"({e[0]}%nat,{e[1]}%nat,({e[2]})%Z)")
        g = (f"{{| k_nodes := {clist(res['nodes'], q3)}; k_faces := {faces}; k_cf := {cf}; "
             f"k_nc := {res['nc']}%nat |}}")
        if res.get("raised"):
            return f"agree3 {g} None"
        o = (f"{{| q_area2 := {clist([F(a) ** 2 for a in res['areas']], qz)}; "
             f"q_fc := {clist(res['fc'], q3)}; q_fn := {clist(res['fnrm'], q3)}; "
             f"q_vol := {clist(res['vol'], qz)}; q_cc := {clist(res['cc'], q3)} |}}")
        return f"agree3 {g} (Some {o})"

    def nontrivial(self, case, res):
        return res["nc"] > 1 or case["perturb"] != "none"

    def describe(self, case):
        return case

    def finding_key(self, case, res, why):
        return f"geometry-identity-dim{res['dim']}"

    def extra_evidence(self):
        return {"input_distribution": dict(sorted(self.stats.items()))}


PROP = C19()
