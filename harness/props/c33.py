"""C33 — tessellation overlaps partition cell measures
(pp.intersections.line_tessellation / triangulations, pp.match_grids.match_1d / match_2d)."""
from fractions import Fraction as F

import numpy as np
import scipy.sparse as sps

from harness.core import Prop, cq, clist, cnat

import porepy as pp

# directions with rational norm (so that sqrt is exact): (vector, norm)
DIRS = [((1, 0, 0), 1), ((0, 1, 0), 1), ((0, 0, 1), 1), ((-1, 0, 0), 1), ((3, 4, 0), 5),
        ((0, -3, 4), 5), ((4, 0, 3), 5), ((1, 2, 2), 3), ((-2, 3, 6), 7), ((2, -1, 2), 3)]
# isometries of the plane into 3-D with rational entries (columns = images of e_x, e_y)
ROTS = [
    ((1, 0, 0), (0, 1, 0), 1),
    ((1, 2, 2), (2, 1, -2), 3),
    ((3, 4, 0), (-4, 3, 0), 5),
    ((2, 3, 6), (3, -6, 2), 7),
]
STEP = 64  # breakpoints are multiples of 1/64


def _entry(e):
    return f"({cnat(e[0])}, {cnat(e[1])}, {cq(e[2])})"


def _entries(l):
    return clist(l, _entry)


def _res(r):
    if "err" in r:
        return f"(inl {r['err']})"
    return f"(inr {_entries(r['ok'])})"


def _finite(res):
    """all floats reported by the implementation are finite"""
    import math
    for key in ("ok", "isect", "avg", "int", "unsc"):
        for e in res.get(key, []) or []:
            if not math.isfinite(e[2]):
                return False
    for key in ("v_new", "v_old", "vol_new", "vol_old"):
        for v in res.get(key, []) or []:
            if not math.isfinite(v):
                return False
    return True


def _pairs(l):
    return clist(l, lambda ab: f"({cnat(ab[0])}, {cnat(ab[1])})")


def _kcoord(case, xs):
    """coordinate k (first non-zero component of the direction) of the points, and nrm"""
    d, nd = case["dir"], case["dirnorm"]
    k = [i for i in range(3) if d[i] != 0][0]
    co = [_scale(case) * (F(case["org"][k]) + F(x) * d[k]) for x in xs]
    return co, F(nd, abs(d[k]))


def _scale(case):
    """dyadic scale factor of the whole geometry (exact in binary64 and in Q)"""
    return F(2) ** int(case.get("scale_exp", 0))


def _points3(case, xs):
    d = np.array(case["dir"], dtype=float).reshape((3, 1))
    o = np.array(case["org"], dtype=float).reshape((3, 1))
    return float(_scale(case)) * (o + d * np.array(xs, dtype=float).reshape((1, -1)))


def _grid1d(p3, cells, flip):
    """General 1-D grid: faces = nodes; cell i = (a_i, b_i) in chain orientation."""
    n = p3.shape[1]
    fn = sps.identity(n, format="csc", dtype=bool)
    rows, cols, data = [], [], []
    s = -1 if not flip else 1
    for i, (a, b) in enumerate(cells):
        rows += [a, b]
        cols += [i, i]
        data += [s, -s]
    cf = sps.csc_matrix((data, (rows, cols)), shape=(n, len(cells)))
    g = pp.Grid(1, p3, fn, cf, "line")
    g.compute_geometry()
    return g


def _coords(m, drop_zeros):
    m = sps.coo_matrix(m)
    out = sorted((int(r), int(c), float(v)) for r, c, v in zip(m.row, m.col, m.data))
    # tocsr has summed duplicates already; coordinates are unique
    assert len({(r, c) for r, c, _ in out}) == len(out)
    return [[r, c, v] for r, c, v in out if not (drop_zeros and v == 0.0)]


# ---- exact helpers for the oracle ----------------------------------------------------
def _intervals(xs, cells):
    return [(min(F(xs[a]), F(xs[b])), max(F(xs[a]), F(xs[b]))) for a, b in cells]


def _is_chain(iv):
    """the cells (closed intervals) tile [lo, hi] without gaps and overlaps"""
    if not iv:
        return None
    s = sorted(iv)
    lo = cur = s[0][0]
    for a, b in s:
        if a != cur:
            return None
        cur = b
    return lo, cur


def _tri_area(p, t):
    (x0, y0), (x1, y1), (x2, y2) = [(F(p[0][i]), F(p[1][i])) for i in t]
    return abs((x1 - x0) * (y2 - y0) - (x2 - x0) * (y1 - y0)) / 2


class C33(Prop):
    id = "C33"
    props_file = "Props/C33.v"
    preamble = ("From Coq Require Import List QArith.\nImport ListNotations.\n"
                "From PP Require Import Model.C33.\nOpen Scope Q_scope.\n")
    n_cases = (260, 5300)
    design_ref = "DESIGN.md §5 C33"
    level_text = (
        "Coq theorems over an exact-rational transcription of line_tessellation (with the collinear "
        "branch of segments_3d), match_1d, the candidate/Polygon filter loop of triangulations and "
        "the weight scalings of match_1d/match_2d.  1-D, for ALL pairs of tessellations (cells in any "
        "order and orientation, any number of cells, zero-length cells allowed) of a common interval: "
        "every reported overlap is >= 0; for each cell of either tessellation the reported overlaps "
        "sum to its length; the 'averaged' matrix of match_1d has unit row sums and the 'integrated' "
        "matrix unit column sums on every cell of positive length; the only exception raised "
        "(IndexError) occurs exactly when both tessellations contain a zero-length cell at the same "
        "point.  2-D: with the polygon intersection areas of shapely as Section variables under the "
        "contract 'areas of pairwise intersections of two tessellations of one polygon' (additivity, "
        "zero area for non-candidates and non-Polygon results), the same sum statements are proved "
        "for the list built by triangulations and the matrices built by match_2d.  The model is tied "
        "to the code on every run: line_tessellation outputs compared exactly, match_1d matrices to "
        "1e-9; in 2-D the contract and the weight scaling are checked in Coq on the real shapely "
        "output (certificate tie).")
    level_note = (
        "Trusted: Coq kernel + vm_compute; the harness; shapely (polygon intersection, areas) and "
        "scipy Delaunay are oracles/trusted in 2-D — additivity of area is a hypothesis there, only "
        "validated numerically (1e-9) on each generated pair.  The tolerance tests of segments_3d "
        "(1e-8) are modelled by exact comparisons: cells shorter than the tolerance but not of zero "
        "length are outside the model.  Floating-point rounding is not covered (theorems are over Q; "
        "1-D tie inputs are dyadic so that the code's arithmetic is exact).  Lines not through "
        "collinear points (the non-parallel branches of segments_3d) are not modelled.  Zero-length "
        "cells present in both tessellations at one point make the code raise IndexError; such "
        "inputs are treated as outside the property (not a tessellation) by the oracle, and the "
        "model/theorem C33_1d_error_iff state exactly when it happens.  Scale: the generated "
        "geometry is also scaled by dyadic factors 2^-20..2^-10 and 2^10..2^20 in 2-D, and 2^-14.."
        "2^-10, 2^10..2^20 in 1-D (segments_3d uses absolute tolerances of 1e-8, so cells much "
        "shorter than 1e-6 are outside the modelled/exact range); all sums are compared relative "
        "to the cell measures.  Defect found and repaired "
        "(fix commit 2a8c98028): in floating precision GEOS dropped the overlap of nested triangles "
        "with a vertex on the other's edge up to rounding; triangulations now intersects on a "
        "precision grid.  surface_tessellations (same shapely call pattern) is not exercised.")
    technique = ("Coq proof (induction over the chained cells of one tessellation with the other fixed; "
                 "permutation invariance) + vm_compute execution correspondence; certificate check in 2-D")
    rule = ("1-D: random pairs of tessellations of a common interval with breakpoints in Z/64 on an "
            "axis-aligned or rational-norm oblique line in 3-D, random node numbering, cell order and "
            "cell orientation; streams: identical partitions, one cell vs many, coinciding breakpoints "
            "(zero-length cells), reversed order, different extents (tie only); half through "
            "line_tessellation directly, half through match_1d on pp.Grid objects with the three "
            "scalings.  2-D: pairs of Delaunay/structured triangulations of the unit square "
            "(optionally embedded by a rational isometry) through match_2d with shapely's "
            "output captured; more than half of the pairs have strongly different resolutions in "
            "either order (structured n x n with n up to 8/12, Delaunay of jittered uniform lattices, "
            "anisotropic n x 1..2, graded tensor lattices, dense random Delaunay — against 1x1, 2x2, 1x2 or corner-only triangulations).  Non-trivial = both tessellations have >= 2 cells and differ.")
    trusted = ["shapely polygon intersection and area (2-D): contract assumed in the theorems, "
               "validated to 1e-9 on every generated pair",
               "tolerance comparisons of segments_3d replaced by exact comparisons (inputs are "
               "multiples of 1/64, far from 1e-8)"]
    assumptions = ["1-D: all points of both tessellations lie on one straight line (segments_3d's "
                   "collinear branch)",
                   "2-D theorems: isect_area i j is the area of T1_i ∩ T2_j for two tessellations of "
                   "one polygon (rows/columns of the area table sum to the cell areas)"]

    # ------------------------------------------------------------------ generation
    def _breaks(self, rng, lo, hi, n, dup):
        span = int((hi - lo) * STEP)
        if dup:
            inner = sorted(rng.randint(0, span) for _ in range(n - 1))
        else:
            n = min(n, span)
            inner = sorted(rng.sample(range(1, span), n - 1)) if n > 1 else []
        return [lo] + [lo + k / STEP for k in inner] + [hi]

    def _tess(self, rng, breaks, orient_free, style):
        n = len(breaks) - 1
        perm = list(range(n + 1))
        if style == "reversed":
            perm.reverse()
        elif style == "shuffled":
            rng.shuffle(perm)
        xs = [0.0] * (n + 1)
        for k, t in enumerate(breaks):
            xs[perm[k]] = t
        cells = [[perm[k], perm[k + 1]] for k in range(n)]
        if style == "shuffled":
            rng.shuffle(cells)
        elif style == "reversed":
            cells.reverse()
        if orient_free:
            cells = [c if rng.random() < 0.6 else [c[1], c[0]] for c in cells]
        return xs, cells

    def _line_case(self, rng, tier, kind):
        big = 14 if tier == "quick" else 30
        lo = rng.randint(-8, 8) / 4
        hi = lo + rng.choice([0.25, 0.5, 1, 1, 2, 3, 5])
        stream = rng.choice(["plain"] * 5 + ["identical", "one-many", "dups", "dups",
                                             "dups-common", "mismatch", "mismatch-touch"])
        n1, n2 = rng.randint(1, big), rng.randint(1, big)
        dup = stream == "dups"
        b1 = self._breaks(rng, lo, hi, n1, dup)
        if stream == "identical":
            b2 = list(b1)
        elif stream == "one-many":
            b2 = [lo, hi]
            if rng.random() < 0.5:
                b1, b2 = b2, b1
        elif stream == "mismatch":
            lo2 = lo + rng.randint(-40, 40) / STEP
            b2 = self._breaks(rng, lo2, lo2 + rng.choice([0.5, 1, 2]), n2, False)
        elif stream == "mismatch-touch":
            b2 = self._breaks(rng, hi, hi + 1, n2, False)
        elif stream == "dups-common":
            # a zero-length cell in each tessellation at one common point (error branch)
            b2 = self._breaks(rng, lo, hi, n2, False)
            t = rng.choice(b1)
            b1 = sorted(b1 + [t])
            b2 = sorted(b2 + ([t, t] if t not in b2 else [t]))
        else:
            b2 = self._breaks(rng, lo, hi, n2, dup)
        style = lambda: rng.choice(["sorted", "sorted", "reversed", "shuffled", "shuffled"])
        x1, c1 = self._tess(rng, b1, kind == "lt", style())
        x2, c2 = self._tess(rng, b2, kind == "lt", style())
        d, nd = rng.choice(DIRS)
        org = [rng.randint(-8, 8) / 4 for _ in range(3)] if rng.random() < 0.5 else [0.0, 0.0, 0.0]
        case = {"kind": kind, "stream": stream, "x1": x1, "x2": x2, "l1": c1, "l2": c2,
                "dir": list(d), "dirnorm": nd, "org": org}
        if kind == "m1":
            case["scaling"] = rng.choice(["averaged", "integrated", None])
            case["tol"] = rng.choice([1e-4, 2.0 ** -7, 0.25])
            case["flip"] = [rng.random() < 0.3, rng.random() < 0.3]
        return case

    def _tri_points(self, rng, tier, n_in=None, n_bd=None, m=16):
        if n_in is None:
            n_in = rng.randint(0, 5 if tier == "quick" else 12)
        if n_bd is None:
            n_bd = rng.randint(0, 4 if tier == "quick" else 8)
        pts = {(0, 0), (m, 0), (0, m), (m, m)}
        for _ in range(n_in):
            pts.add((rng.randint(1, m - 1), rng.randint(1, m - 1)))
        for _ in range(n_bd):
            t = rng.randint(1, m - 1)
            pts.add(rng.choice([(t, 0), (t, m), (0, t), (m, t)]))
        pts = sorted(pts)
        rng.shuffle(pts)
        return [[x / m for x, _ in pts], [y / m for _, y in pts]]

    def _graded_points(self, rng):
        """tensor product of two graded coordinate sets (refined towards a corner/edge)"""
        def axis():
            k = rng.randint(2, 5)
            xs = [0.0] + [2.0 ** -e for e in range(k, -1, -1)]      # 0, 2^-k, ..., 1/2, 1
            if rng.random() < 0.5:
                xs = sorted(1.0 - x for x in xs)
            return xs if rng.random() < 0.8 else [0.0, 1.0]
        xs, ys = axis(), axis()
        if len(xs) == 2 and len(ys) == 2:
            xs = [0.0, 0.125, 0.25, 0.5, 1.0]
        pts = [(x, y) for x in xs for y in ys]
        rng.shuffle(pts)
        return [[x for x, _ in pts], [y for _, y in pts]]

    def _lattice_points(self, rng, n):
        """uniformly fine point set: the (n+1)^2 lattice, interior points jittered by < 1/(4n),
        boundary points moved along their edge only (so the boundary is refined as well)"""
        q = 8 * n
        pts = set()
        for a in range(n + 1):
            for b in range(n + 1):
                x, y = 8 * a, 8 * b
                if 0 < a < n:
                    x += rng.randint(-1, 1)
                if 0 < b < n:
                    y += rng.randint(-1, 1)
                pts.add((x, y))
        pts = sorted(pts)
        rng.shuffle(pts)
        return [[x / q for x, _ in pts], [y / q for _, y in pts]]

    def _fine_spec(self, rng, tier):
        big = 8 if tier == "quick" else 12
        r = rng.random()
        if r < 0.45:
            n = rng.randint(5, big)
            return {"structured": [n, n]}
        if r < 0.7:
            return {"points": self._lattice_points(rng, rng.randint(4, big - 1))}
        if r < 0.8:        # anisotropic
            n, k = rng.randint(5, big), rng.randint(1, 2)
            return {"structured": [n, k] if rng.random() < 0.5 else [k, n]}
        if r < 0.9:
            return {"points": self._graded_points(rng)}
        return {"points": self._tri_points(rng, tier, n_in=rng.randint(12, 30 if tier == "quick" else 60),
                                           n_bd=rng.randint(6, 14), m=32)}

    def _coarse_spec(self, rng):
        r = rng.random()
        if r < 0.6:
            return {"structured": rng.choice([[1, 1], [1, 1], [2, 2], [1, 2], [2, 1]])}
        return {"points": self._tri_points(rng, "quick", n_in=rng.randint(0, 1), n_bd=0)}

    def _tri_case(self, rng, tier):
        def one():
            if rng.random() < 0.2:
                return {"structured": [rng.randint(1, 3), rng.randint(1, 3)]}
            return {"points": self._tri_points(rng, tier)}
        if rng.random() < 0.55:
            # strongly different resolutions, in both orders
            a, b = self._fine_spec(rng, tier), self._coarse_spec(rng)
            stream = "fine-new/coarse-old"
            if rng.random() < 0.5:
                a, b = b, a
                stream = "coarse-new/fine-old"
        else:
            a = one()
            b = a if rng.random() < 0.1 else one()
            stream = "comparable"
        return {"kind": "m2", "stream": stream, "new": a, "old": b, "rot": rng.randrange(len(ROTS)),
                "org": [rng.randint(-4, 4) / 2 for _ in range(3)], "tol": 2.0 ** -12}

    def generate(self, rng, n, tier):
        for case in self._generate(rng, n, tier):
            # directed stream: the same geometry scaled by a dyadic factor (the property is
            # scale invariant; absolute tolerances in the code are not)
            r = rng.random()
            if case["kind"] == "m2":
                if r < 0.3:
                    case["scale_exp"] = -rng.randint(10, 20)
                elif r < 0.4:
                    case["scale_exp"] = rng.randint(10, 20)
            else:
                # segments_3d has absolute tolerances of 1e-8: cells of 2^-6 are scaled down to
                # 2^-20 (1e-6) at most, see level_note
                if r < 0.08:
                    case["scale_exp"] = -rng.randint(10, 14)
                elif r < 0.12:
                    case["scale_exp"] = rng.randint(10, 20)
            if case["kind"] == "m1" and "scale_exp" in case:
                case["tol"] = case["tol"] * 2.0 ** case["scale_exp"]
            yield case

    def _generate(self, rng, n, tier):
        n2 = min(max(n // 8, 1), 360)
        for k in range(n - n2):
            yield self._line_case(rng, tier, "lt" if k % 2 == 0 else "m1")
        for _ in range(n2):
            yield self._tri_case(rng, tier)

    # ------------------------------------------------------------------ implementation
    def _tri_grid(self, spec, case):
        if "structured" in spec:
            g = pp.StructuredTriangleGrid(np.array(spec["structured"]), np.array([1.0, 1.0]))
        else:
            g = pp.TriangleGrid(np.array(spec["points"], dtype=float))
        ex, ey, nr = ROTS[case["rot"]]
        p2 = g.nodes[:2].copy()
        ex, ey = np.array(ex, dtype=float) / nr, np.array(ey, dtype=float) / nr
        g.nodes = float(_scale(case)) * (np.array(case["org"], dtype=float).reshape((3, 1))
                                         + np.outer(ex, p2[0]) + np.outer(ey, p2[1]))
        g.compute_geometry()
        cn = g.cell_nodes().tocsc()
        tris = cn.indices.reshape((3, g.num_cells), order="F").T.tolist()
        return g, p2.tolist(), tris

    def run_impl(self, case):
        kind = case["kind"]
        if kind == "lt":
            p1, p2 = _points3(case, case["x1"]), _points3(case, case["x2"])
            try:
                r = pp.intersections.line_tessellation(
                    p1, p2, np.array(case["l1"]).T, np.array(case["l2"]).T)
            except IndexError:
                return {"err": "IndexErr"}
            return {"ok": [[int(i), int(j), float(w)] for i, j, w in r]}
        if kind == "m1":
            g_new = _grid1d(_points3(case, case["x1"]), case["l1"], case["flip"][0])
            g_old = _grid1d(_points3(case, case["x2"]), case["l2"], case["flip"][1])
            try:
                m = pp.match_grids.match_1d(g_new, g_old, case["tol"], case["scaling"])
            except IndexError:
                return {"err": "IndexErr"}
            assert m.shape == (g_new.num_cells, g_old.num_cells)
            return {"ok": _coords(m, True),
                    "vol_new": [float(v) for v in g_new.cell_volumes],
                    "vol_old": [float(v) for v in g_old.cell_volumes]}
        # 2-D
        g_new, pn, tn = self._tri_grid(case["new"], case)
        g_old, po, to = self._tri_grid(case["old"], case)
        cap = []
        orig = pp.intersections.triangulations

        def wrapped(*a):
            r = orig(*a)
            cap.append([[int(i), int(j), float(w)] for i, j, w in r])
            return r

        pp.intersections.triangulations = wrapped
        try:
            mats = [pp.match_grids.match_2d(g_new, g_old, case["tol"], sc)
                    for sc in ("averaged", "integrated", None)]
        finally:
            pp.intersections.triangulations = orig
        assert len(cap) == 3 and cap[0] == cap[1] == cap[2]
        return {"isect": cap[0],
                "v_new": [float(v) for v in g_new.cell_volumes],
                "v_old": [float(v) for v in g_old.cell_volumes],
                "avg": _coords(mats[0], False), "int": _coords(mats[1], False),
                "unsc": _coords(mats[2], False),
                "p_new": pn, "t_new": tn, "p_old": po, "t_old": to}

    # ------------------------------------------------------------------ oracle
    @staticmethod
    def _close(a, b):
        return abs(F(a) - F(b)) <= F(1, 10 ** 9) * (1 + abs(F(b)))

    @staticmethod
    def _rel(a, b):
        """a agrees with the measure b up to 1e-9 RELATIVE to b (no absolute tolerance)"""
        return abs(F(a) - F(b)) <= F(1, 10 ** 9) * abs(F(b))

    def _valid_pair(self, case, res):
        """the inputs are two tessellations of one interval / polygon (exact check)"""
        if case["kind"] in ("lt", "m1"):
            iv1, iv2 = _intervals(case["x1"], case["l1"]), _intervals(case["x2"], case["l2"])
            e1, e2 = _is_chain(iv1), _is_chain(iv2)
            if e1 is None or e2 is None or e1 != e2:
                return None  # not two tessellations of one interval: tie only
            deg1 = {a for a, b in iv1 if a == b}
            deg2 = {a for a, b in iv2 if a == b}
            if deg1 & deg2:
                return None  # zero-length cells at a common point: outside the property
            return iv1, iv2
        # 2-D: exact areas of the generated triangles (plane coordinates are dyadic)
        a_new = [_tri_area(res["p_new"], t) for t in res["t_new"]]
        a_old = [_tri_area(res["p_old"], t) for t in res["t_old"]]
        eps = F(1, 10 ** 12)
        if (min(a_new) <= 0 or min(a_old) <= 0 or abs(sum(a_new) - 1) > eps
                or abs(sum(a_old) - 1) > eps):
            return None  # Delaunay did not deliver a tessellation of the unit square
        return a_new, a_old

    def oracle(self, case, res):
        kind = case["kind"]
        valid = self._valid_pair(case, res)
        if valid is None:
            return None
        if "err" in res:
            return f"raised {res['err']} on two tessellations of one interval"
        if not _finite(res):
            return "non-finite weight reported"
        if kind in ("lt", "m1"):
            iv1, iv2 = valid
            nrm = F(case["dirnorm"]) * _scale(case)
            len1 = [(b - a) * nrm for a, b in iv1]
            len2 = [(b - a) * nrm for a, b in iv2]
            ent = res["ok"]
            if kind == "lt":
                for i, j, w in ent:
                    if w < 0:
                        return f"negative overlap {w} for cells ({i},{j})"
                for i, l in enumerate(len1):
                    s = sum(F(w) for a, _, w in ent if a == i)
                    if not self._rel(s, l):
                        return f"overlaps of cell {i} of the first tessellation sum to {float(s)}, length {float(l)}"
                for j, l in enumerate(len2):
                    s = sum(F(w) for _, b, w in ent if b == j)
                    if not self._rel(s, l):
                        return f"overlaps of cell {j} of the second tessellation sum to {float(s)}, length {float(l)}"
                return None
            for i, j, w in ent:
                if w < 0:
                    return f"negative weight {w} at ({i},{j})"
            if case["scaling"] == "averaged":
                for i, l in enumerate(len1):
                    if l > 0:
                        s = sum(F(w) for a, _, w in ent if a == i)
                        if not self._close(s, 1):
                            return f"averaged match_1d: row {i} sums to {float(s)}"
            elif case["scaling"] == "integrated":
                for j, l in enumerate(len2):
                    if l > 0:
                        s = sum(F(w) for _, b, w in ent if b == j)
                        if not self._close(s, 1):
                            return f"integrated match_1d: column {j} sums to {float(s)}"
            return None
        a_new, a_old = valid
        a_new = [a * _scale(case) ** 2 for a in a_new]
        a_old = [a * _scale(case) ** 2 for a in a_old]
        ent = res["isect"]
        for i, j, w in ent:
            if w < 0:
                return f"negative overlap area {w} for triangles ({i},{j})"
        for i, a in enumerate(a_new):
            s = sum(F(w) for r, _, w in ent if r == i)
            if not self._rel(s, a):
                return f"overlap areas of new triangle {i} sum to {float(s)}, area {float(a)}"
        for j, a in enumerate(a_old):
            s = sum(F(w) for _, c, w in ent if c == j)
            if not self._rel(s, a):
                return f"overlap areas of old triangle {j} sum to {float(s)}, area {float(a)}"
        for i in range(len(a_new)):
            s = sum(F(w) for r, _, w in res["avg"] if r == i)
            if not self._close(s, 1):
                return f"averaged match_2d: row {i} sums to {float(s)}"
        for j in range(len(a_old)):
            s = sum(F(w) for _, c, w in res["int"] if c == j)
            if not self._close(s, 1):
                return f"integrated match_2d: column {j} sums to {float(s)}"
        return None

    # ------------------------------------------------------------------ tie
    def _model_args(self, case):
        c1, nrm = _kcoord(case, case["x1"])
        c2, _ = _kcoord(case, case["x2"])
        return (cq(nrm), clist(c1, cq), clist(c2, cq), _pairs(case["l1"]), _pairs(case["l2"]))

    def coq_case(self, case, res):
        kind = case["kind"]
        if not _finite(res):
            return "false"  # the exact-rational model never produces inf/nan
        if kind == "lt":
            nrm, p1, p2, l1, l2 = self._model_args(case)
            return f"agree_lt {nrm} {p1} {p2} {l1} {l2} {_res(res)}"
        if kind == "m1":
            nrm, p1, p2, l1, l2 = self._model_args(case)
            sc = {"averaged": "Averaged", "integrated": "Integrated", None: "Unscaled"}[case["scaling"]]
            return f"agree_m1 {nrm} {cq(case['tol'])} {sc} {p1} {p2} {l1} {l2} {_res(res)}"
        return (f"agree_m2 {cq(case['tol'])} {_entries(res['isect'])} {clist(res['v_new'], cq)} "
                f"{clist(res['v_old'], cq)} {_entries(res['avg'])} {_entries(res['int'])} "
                f"{_entries(res['unsc'])}")

    def coq_diag(self, case, res):
        if case["kind"] == "m2":
            return None
        nrm, p1, p2, l1, l2 = self._model_args(case)
        if case["kind"] == "lt":
            return f"line_tessellation {nrm} {p1} {p2} {l1} {l2}"
        sc = {"averaged": "Averaged", "integrated": "Integrated", None: "Unscaled"}[case["scaling"]]
        return f"match_1d {nrm} {cq(case['tol'])} {sc} {p1} {p2} {l1} {l2}"

    def nontrivial(self, case, res):
        if case["kind"] == "m2":
            return len(res["v_new"]) >= 2 and len(res["v_old"]) >= 2 and case["new"] != case["old"]
        return (len(case["l1"]) >= 2 and len(case["l2"]) >= 2
                and sorted(_intervals(case["x1"], case["l1"])) != sorted(_intervals(case["x2"], case["l2"])))

    def finding_key(self, case, res, why):
        return f"{case['kind']}: " + why.split(":")[0][:40]

    def describe(self, case):
        return case


PROP = C33()
