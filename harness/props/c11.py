"""C11 — MPFA reproduces linear pressure fields exactly (method-level theorem + per-instance
certificate evaluated in Coq on the real matrices)."""
from fractions import Fraction

import numpy as np
import scipy.sparse as sps

from harness.core import Prop

import porepy as pp

KW = "flow"


# ----------------------------------------------------------------------------- literals
def zi(n):
    n = int(n)
    return str(n) if n >= 0 else f"({n})"


def pk(x):
    """binary64 x = m * 2^e (|m| < 2^53) packed into one integer (see Model/C11.v unpk)."""
    num, den = float(x).as_integer_ratio()
    e = -(den.bit_length() - 1)
    if num == 0:
        e = 0
    while num != 0 and num % 2 == 0:
        num //= 2
        e += 1
    assert abs(num) < 2 ** 53 and -2048 <= e < 2048
    return ((e + 2048) << 54) | (num + 2 ** 53)


def zlist(items, f=str):
    return "[" + "; ".join(f(i) for i in items) + "]"


def pts(arr, d):
    """(3, n) array -> flat packed list, d components per point."""
    return zlist([pk(arr[i, k]) for k in range(arr.shape[1]) for i in range(d)])


def dcoo(ent):
    for r, c, _ in ent:
        assert 0 <= r < 4096 and 0 <= c < 4096
    return zlist([((r * 4096 + c) << 66) | pk(v) for r, c, v in ent])


def inv_term(v):
    return f"check_inv {zi(v['n'])} {zi(len(v['A']))} {zi(len(v['B']))} {dcoo(v['A'])} {dcoo(v['B'])}"


# ----------------------------------------------------------------------------- grids
def make_grid(spec):
    kind = spec["kind"]
    if kind == "cart":
        n = np.array(spec["n"])
        g = pp.CartGrid(n, np.array(spec["L"], dtype=float)) if spec.get("L") else pp.CartGrid(n)
    elif kind == "tri":
        g = pp.StructuredTriangleGrid(np.array(spec["n"]))
    elif kind == "tet":
        g = pp.StructuredTetrahedralGrid(np.array(spec["n"]))
    elif kind == "delaunay":
        pts = np.array(spec["pts"], dtype=float).T / 16.0
        g = pp.TriangleGrid(pts)
    else:
        raise ValueError(kind)
    if spec.get("pert"):
        # dyadic node perturbations in units of 1/64 (boundary nodes included, so that
        # boundary faces are not axis aligned)
        d = np.array(spec["pert"], dtype=float).T / 64.0
        g.nodes[: d.shape[0], :] += d
    if spec.get("embed"):
        # rigid motion + power-of-two scaling of the node coordinates: x -> 2^k R x + t with
        # R the exact rational rotation of the integer quaternion q (2-D grids become grids
        # embedded in 3-D: other coordinate planes, tilted, translated)
        E = spec["embed"]
        g.nodes = (2.0 ** E.get("k", 0)) * (quat_rot(E["q"]) @ g.nodes) \
            + np.array(E.get("t", [0, 0, 0]), dtype=float)[:, None]
    g.compute_geometry()
    return g


def quat_rot(q):
    a, b, c, d = [float(x) for x in q]
    n = a * a + b * b + c * c + d * d
    return np.array([[a * a + b * b - c * c - d * d, 2 * (b * c - a * d), 2 * (b * d + a * c)],
                     [2 * (b * c + a * d), a * a - b * b + c * c - d * d, 2 * (c * d - a * b)],
                     [2 * (b * d - a * c), 2 * (c * d + a * b), a * a - b * b - c * c + d * d]]) / n


QUATS = [[1, 0, 0, 0], [1, 1, 0, 0], [1, 0, 1, 0], [1, 1, 1, 1], [2, 1, 0, 0], [1, 2, 2, 0],
         [3, 1, 1, 1], [2, 0, 1, 2], [64, 1, 0, 0], [1024, 0, 1, 1], [1, 3, 0, 2]]


def embed_spec(rng):
    """Random embedding: rotation (identity, coordinate planes, generic rational, tiny tilt),
    translation (none, moderate, far away) and power-of-two scale."""
    q = rng.choice(QUATS)
    t = rng.choice([[0, 0, 0], [0, 0, 0], [0.5, -2.0, 3.0], [1000.0, -500.0, 250.0]])
    k = rng.choice([0, 0, 0, -20, -8, -3, 2, 6, 10])
    # a grid scaled down by 2^k is translated by 2^k * t only: a micrometre-size grid a
    # kilometre away has node coordinates resolved to ~1e-7 of its own extent, so its geometry
    # genuinely cannot be recovered from the floats (flux errors of 5e-7 relative were
    # reported as violations on the unchanged tree, seed 7) - a conditioning matter of the
    # input, not of the discretisation.  Far translations remain for unit-size and larger grids.
    if k < 0:
        t = [x * 2.0 ** k for x in t]
    return {"q": q, "t": t, "k": k}


def grid_spec(rng, tier):
    thorough = tier != "quick"
    r = rng.random()
    if r < (0.35 if thorough else 0.1):
        # 3-D (larger grids in the thorough tier only)
        if rng.random() < 0.55:
            n = rng.choice([[1, 1, 1], [2, 1, 1], [2, 2, 1], [2, 2, 2], [3, 2, 1], [1, 2, 3]]
                           if thorough else [[1, 1, 1], [2, 1, 1], [1, 1, 2]])
            spec = {"kind": "cart", "n": n}
            if rng.random() < 0.3:
                spec["L"] = [rng.choice([1.0, 2.0, 0.5]) * k for k in n]
        else:
            spec = {"kind": "tet", "n": rng.choice([[1, 1, 1], [2, 1, 1], [1, 2, 1], [1, 1, 2]]
                                                   if thorough else [[1, 1, 1]])}
        dim = 3
    else:
        dim = 2
        big = 5 if thorough else 3
        q = rng.random()
        if q < 0.45:
            n = [rng.randint(1, big), rng.randint(1, big)]
            spec = {"kind": "cart", "n": n}
            if rng.random() < 0.3:
                spec["L"] = [rng.choice([1.0, 2.0, 0.5, 1.5]) * k for k in n]
        elif q < 0.8:
            spec = {"kind": "tri", "n": [rng.randint(1, big - 1), rng.randint(1, 3 if thorough else 2)]}
        else:
            # unstructured simplex grid: Delaunay triangulation of the corners of a square
            # and a few interior points on a 1/16 lattice
            m = rng.randint(1, 6 if thorough else 3)
            pts = {(0, 0), (16, 0), (0, 16), (16, 16)}
            while len(pts) < 4 + m:
                pts.add((rng.randint(2, 14), rng.randint(2, 14)))
            spec = {"kind": "delaunay", "pts": sorted(pts)}
    return spec, dim


def spd_tensor(rng, dim):
    """K = L L^T with a small integer lower-triangular L with positive diagonal."""
    L = np.zeros((3, 3), dtype=int)
    for i in range(3):
        L[i, i] = rng.choice([1, 1, 2])
        for j in range(i):
            L[i, j] = rng.choice([-1, 0, 0, 1])
    if dim == 2:
        L[2, 0] = L[2, 1] = 0
        L[2, 2] = 1
    r = rng.random()
    if r < 0.15:
        L = np.diag(np.diag(L))
    K = L @ L.T
    return [[int(x) for x in row] for row in K]


def canon(m, rows=None):
    m = sps.coo_matrix(m)
    m.sum_duplicates()
    keep = None if rows is None else set(int(r) for r in rows)
    ent = [[int(r), int(c), float(v)] for r, c, v in zip(m.row, m.col, m.data)
           if v != 0 and (keep is None or int(r) in keep)]
    ent.sort()
    return ent


def to_dense(ent, shape):
    a = np.zeros(shape)
    for r, c, v in ent:
        a[r, c] += v
    return a


#: (grid, dimension, num_subproblems) of the larger oracle-only cases; the first one (24 cells,
#: one face discretized by three subproblems) and the second (perturbed hexahedra with
#: non-planar faces) are also part of the quick tier
BIG_SPECS = [({"kind": "tet", "n": [2, 2, 1]}, 3, 4, {}),
             ({"kind": "cart", "n": [2, 2, 2]}, 3, 0, {"bc": "mixed"}),
             ({"kind": "cart", "n": [7, 7]}, 2, 0, {"update": "flag", "bc": "mixed"}),
             ({"kind": "cart", "n": [7, 7]}, 2, 0, {"update": "method", "bc": "mixed"}),
             ({"kind": "tet", "n": [3, 3, 2]}, 3, 4, {}),
             ({"kind": "tri", "n": [4, 4]}, 2, 4, {}),
             ({"kind": "cart", "n": [5, 5]}, 2, 3, {}),
             ({"kind": "cart", "n": [6, 6, 6]}, 3, 0, {"update": "flag", "bc": "mixed", "c11_only": True}),
             ({"kind": "tri", "n": [6, 6]}, 2, 0, {"update": "method", "bc": "mixed"})]
#: how many of them are part of the quick tier
BIG_QUICK = 4


def update_cells(rng, g, how):
    """Cells to be re-discretized in an update-mode history: a small cluster in the middle
    of the grid (so that the stencil does not reach the whole grid) or random cells."""
    if how == "middle":
        c0 = int(np.argmin(np.linalg.norm(g.cell_centers - g.cell_centers.mean(axis=1)[:, None], axis=0)))
        return sorted({c0, (c0 + 1) % g.num_cells})
    k = rng.randint(1, max(1, min(3, g.num_cells)))
    return sorted(rng.sample(range(g.num_cells), k))


def run_update(discr, g, data, kw, upd):
    """Second step of an update-mode history: partial re-discretization of upd['cells'],
    either through the 'update_discretization' flag of discretize() (rows of the affected
    faces are overwritten in the stored matrices) or through the update_discretization()
    method (old matrices with zeroed rows + partial discretization)."""
    cells = np.array(upd["cells"], dtype=int)
    if upd["route"] == "flag":
        data[pp.PARAMETERS][kw]["specified_cells"] = cells
        data[pp.PARAMETERS][kw]["update_discretization"] = True
        discr.discretize(g, data)
    else:
        data["update_discretization"] = {"modified_cells": cells}
        discr.update_discretization(g, data)


class LocalCapture:
    """Capture, by monkey-patching module functions from the harness (no source hook), what
    Mpfa._flux_discretization hands to / gets from its helpers: the grid and tensor it
    works on (after map_grid in 2-D), the matrix of all local equations before row scaling
    (grad_eqs) and the boundary right-hand side."""

    def __enter__(self):
        from porepy.numerics.fv import _fvutils
        self.fv = _fvutils
        self.got = {}
        self.calls = 0
        self.o1 = _fvutils.scalar_tensor_vector_prod
        self.o2 = pp.matrix_operations.diagonal_scaling_matrix
        self.o3 = pp.Mpfa._create_bound_rhs
        self.o4 = pp.matrix_operations.invert_diagonal_blocks
        self.max_cond = 0.0
        cap = self

        def w4(mat, s, method=None):
            # conditioning of the (row-scaled) local systems the code inverts
            M = sps.csr_matrix(mat)
            off = np.r_[0, np.cumsum(s)]
            for i in range(len(s)):
                blk = M[off[i]:off[i + 1], off[i]:off[i + 1]].toarray()
                cnd = float(np.linalg.cond(blk)) if blk.size else 0.0
                cap.max_cond = max(cap.max_cond, cnd if np.isfinite(cnd) else 1e300)
            out = cap.o4(mat, s, method=method)
            cap.inv_calls = getattr(cap, "inv_calls", 0) + 1
            cap.got.setdefault("inv", (sps.csr_matrix(mat).copy(), sps.csr_matrix(out).copy()))
            return out

        pp.matrix_operations.invert_diagonal_blocks = w4

        def w1(sd, k, st):
            cap.calls += 1
            cap.got.setdefault("sd", sd)
            cap.got.setdefault("k", k)
            return cap.o1(sd, k, st)

        def w2(mat):
            cap.got.setdefault("grad_eqs", mat.copy())
            return cap.o2(mat)

        def w3(this, bnd, be, st, sgn, sd, nflux, nrob, npr, subface_rhs):
            out = cap.o3(this, bnd, be, st, sgn, sd, nflux, nrob, npr, subface_rhs)
            cap.got.setdefault("rhs", dict(be=be, st=st, nflux=nflux, nrob=nrob, npr=npr,
                                           subface_rhs=subface_rhs, rhs_bound=out.copy()))
            return out

        _fvutils.scalar_tensor_vector_prod = w1
        pp.matrix_operations.diagonal_scaling_matrix = w2
        pp.Mpfa._create_bound_rhs = w3
        return self

    def __exit__(self, *a):
        self.fv.scalar_tensor_vector_prod = self.o1
        pp.matrix_operations.diagonal_scaling_matrix = self.o2
        pp.Mpfa._create_bound_rhs = self.o3
        pp.matrix_operations.invert_diagonal_blocks = self.o4

    def inverse_pair(self, max_nnz=900):
        """The block-diagonal matrix A of all local systems as handed to the inverter and
        the matrix B it returned (certificate: rows of B A - I have 1-norm <= 1/2)."""
        if getattr(self, "inv_calls", 0) != 1 or "inv" not in self.got:
            return None
        A, B = self.got["inv"]
        if A.shape[0] != A.shape[1] or A.shape != B.shape or A.nnz + B.nnz > max_nnz:
            return None
        return {"n": int(A.shape[0]), "A": canon(A), "B": canon(B)}

    def local_systems(self, max_nnz=1500):
        """The captured local equations A g = RC p_cells + RB bdata_faces, or None."""
        g = self.got
        if self.calls != 1 or not {"sd", "k", "grad_eqs", "rhs"} <= set(g):
            return None
        sd, r = g["sd"], g["rhs"]
        st, be = r["st"], r["be"]
        if r["subface_rhs"] or r["nrob"] != 0:
            return None
        A = sps.csr_matrix(g["grad_eqs"])
        if A.shape[0] != A.shape[1] or A.nnz > max_nnz:
            return None
        nc, nf, nd = sd.num_cells, sd.num_faces, sd.dim
        # cell-centre contribution moved to the right-hand side (mpfa.py: rhs_cells)
        sgn_all = np.asarray(sd.cell_faces[st.fno, st.cno]).ravel()
        pr_cont_cell_all = sps.coo_matrix((sgn_all, (st.subfno, st.cno))).tocsr()
        pr_cont_cell = be.exclude_neumann_robin(pr_cont_cell_all)
        rc = -sps.vstack([sps.csr_matrix((r["nflux"], nc)), pr_cont_cell])
        # face values are handed to every sub-face of the face (bound_flux = hf2f * . * hf2f.T)
        hf2f = sps.coo_matrix((np.ones(st.subfno_unique.size), (st.fno_unique, st.subfno_unique)),
                              shape=(nf, st.num_subfno_unique))
        rb = sps.csr_matrix(r["rhs_bound"]) @ hf2f.T
        if rc.shape[0] != A.shape[0] or rb.shape != (A.shape[0], nf):
            return None

        def pad(a):
            a = np.asarray(a, dtype=float)
            return np.vstack([a, np.zeros((3 - a.shape[0], a.shape[1]))]) if a.shape[0] < 3 else a

        K = np.eye(3)
        K[:nd, :nd] = g["k"].values[:nd, :nd, 0]
        # the tensor of an embedded 2-D grid was rotated by the code in floating point and is
        # symmetric only up to rounding; the exact symmetry test in Coq gets the symmetric part
        K = (K + K.T) / 2
        return {"nd": int(nd), "nrows": int(A.shape[0]), "A": canon(A), "RC": canon(rc),
                "RB": canon(rb), "cc": pad(sd.cell_centers).T.tolist(),
                "fc": pad(sd.face_centers).T.tolist(), "nr": pad(sd.face_normals).T.tolist(),
                "K": K.tolist()}


class C11(Prop):
    id = "C11"
    props_file = "Props/C11.v"
    preamble = ("From Coq Require Import List ZArith QArith.\nImport ListNotations.\n"
                "From PP Require Import Model.C11 Model.C11_inv.\nLocal Open Scope Z_scope.\n")
    n_cases = (24, 150)
    design_ref = "DESIGN.md §5 C11 (certificate tie K, level P-method)"
    level_text = (
        "METHOD-LEVEL Coq theorems plus per-instance certificate checks, not a proof about the "
        "vectorised Python code. (A) Interaction-region model over the reals, any dimension, any "
        "number of sub-cells and sub-faces: the local MPFA-O equations (flux continuity, pressure "
        "continuity at continuity points, Dirichlet and Neumann sub-faces) as sparse linear rows over "
        "the sub-cell gradients; for p = b + a.x, one constant K and boundary data taken from p the "
        "constant gradient a solves every local equation (C11_linear_solves_local); if the local "
        "matrix has a left inverse, the gradients the code computes (inverse times right-hand side) "
        "ARE a, so every sub-face flux is -(K n).a and every reconstructed pressure is p(x) "
        "(C11_unique_exact), constant fields give zero flux (C11_constant_zero); an APPROXIMATE left "
        "inverse (rows of B A - I of 1-norm <= q < 1) already makes the solution of a local system "
        "unique (C11_local_unique_solution). (B) Matrix level: the residual of 'flux*p_cells + "
        "bound_flux*bdata = -n.K a' and of the boundary pressure reconstruction is linear in the "
        "coefficients (b, a) of the field, so a bound/equality established for the four basis fields "
        "1, x, y, z extends to EVERY linear field on that instance (C11_linear_extension*). The tie is "
        "translation validation per run, everything converted exactly (binary64 = dyadic rational) and "
        "evaluated inside Coq with a purely relative norm-wise band 1e-9. Certificate (i): the four REAL "
        "matrices of pp.Mpfa, basis-field residuals on every face, K symmetric positive definite. "
        "Certificate (ii), on a third of the cases: the matrix of ALL local equations the code assembled "
        "(captured by monkey-patching) applied to the constant gradient of each basis field equals row "
        "by row the right-hand side the code builds from that field (C11_local_rows_linear_extension). "
        "Certificate (iii), on a third of the cases: the matrix the block inverter returns is an "
        "approximate left inverse (row defect <= 1/2, measured ~1e-16) of the block-diagonal matrix of "
        "all local systems it was given, so by C11_local_unique_solution the captured local systems "
        "determine their solution, which by (ii) is the constant gradient.")
    level_note = (
        "Not proved: that mpfa.py assembles exactly the local equations of model (A) (SubcellTopology "
        "bookkeeping, row scaling, hf2f averaging, sub-problem splitting and re-assembly). That link is "
        "covered by certificate (i) on the real matrices (end result) and by (ii)/(iii) on the captured "
        "local systems of unpartitioned runs (the cell-centre part of the right-hand side, "
        "-[0; pr_cont_cell], is re-assembled in the harness from the captured SubcellTopology / "
        "ExcludeBoundaries objects the way mpfa.py does; the boundary part is the code's own rhs_bound; "
        "(iii) is evaluated on the row-scaled, block-permuted matrix the inverter sees). NOT checked: that "
        "the captured rows have the geometric form of model (A). Soundness of the boolean checkers with "
        "respect to the real-number hypotheses of the theorems is NOT proved: the definitions are "
        "field-polymorphic, theorems are proved at R, the certificates are executed with exact dyadic "
        "arithmetic on (mantissa, exponent) pairs (no division occurs), cross-checked in every case "
        "against the Qred-normalised Q instance on the first two faces; certificate (iii) uses a sparse "
        "row product whose agreement with prodBA is trusted. Exact flux is written -n.(K a) at matrix "
        "level and -(K n).a in model (A) (equal for symmetric K, which the certificate checks). Float "
        "rounding is not covered. Larger grids (24-108 cells: partitions with faces shared by three and "
        "more subproblems, perturbed hexahedra with non-planar faces, larger 2-D partitions) are checked "
        "by the numpy oracle only (norm-wise relative 1e-8). bound_pressure_* rows are sent for boundary "
        "faces only. Case files are compiled in shards of 4 cases (module-level override of the shard "
        "size of harness.core.coq_eval_bools; same terms and verdicts).")
    technique = ("Coq proof of the method (interaction-region algebra over R, linearity of the matrix "
                 "residual, uniqueness from an approximate inverse) + per-instance certificates "
                 "evaluated by vm_compute over exact dyadic rationals on the real MPFA matrices and "
                 "captured local systems + numpy oracle")
    rule = ("grids: CartGrid (optionally stretched), StructuredTriangleGrid, Delaunay TriangleGrid of "
            "random lattice points, small 3-D CartGrid / StructuredTetrahedralGrid; all nodes (boundary "
            "included) perturbed by multiples of 1/64 in 70% of the cases (non-planar hexahedron faces in "
            "3-D); 40% of the grids moved by x -> 2^k R x + t with R an exact rational rotation "
            "(coordinate planes, generic, tiny tilt), t up to (1000,-500,250) (scaled by 2^k for k < 0), k in -20..10, the tensor "
            "rotated with the grid (2-D grids embedded in 3-D with in-plane anisotropic K); K = L L^T "
            "with small integers incl. off-diagonal terms, scaled by 2^-20..2^10; every boundary face "
            "independently Dirichlet or Neumann (also all-Dirichlet, all-Neumann); half of the cases "
            "discretized in 2 or 3 overlapping subproblems (partition_arguments); two (quick) resp. five "
            "(thorough) larger oracle-only grids incl. StructuredTetrahedralGrid([2,2,1]) and ([3,3,2]) "
            "split into 4 subproblems (faces discretized three and four times); three random linear "
            "fields plus one constant field per case; the documented optional parameters mpfa_eta (0, "
            "1/4, 1/3, 1/2 as scalars) and mpfa_inverter (python / numba) on half of the cases; a quarter "
            "of the cases are two-step update histories (full discretization, then partial "
            "re-discretization of 1-3 cells through the update_discretization flag of discretize() or "
            "through Mpfa.update_discretization()), plus oracle-only update histories on grids larger "
            "than the stencil (CartGrid([7,7]) both routes in quick, CartGrid([6,6,6]) and "
            "StructuredTriangleGrid([6,6]) in thorough) and a perturbed CartGrid([2,2,2]) with a "
            "guaranteed Dirichlet/Neumann mix (non-zero Neumann data on hexahedron faces); "
            "non-trivial = at least 2 cells and a non-zero gradient")
    trusted = ["geometry arrays (cell_centers, face_centers, face_normals), K, boundary flags/signs, the "
               "four matrices of the real run and the captured local matrices are passed to Coq as exact "
               "dyadic rationals; the captured rotated tensor of an embedded 2-D grid is symmetrised "
               "(rounding-level change) before the exact symmetry test"]
    assumptions = ["constant symmetric positive definite K (checked per instance in Coq)",
                   "the code raises ValueError('Error in inversion of local linear systems') on an "
                   "exactly singular local system (degenerate grid): recorded as result, nothing claimed",
                   "instances whose captured local systems have condition number > 1e10 are outside the "
                   "left-inverse guard: no certificate, a failing oracle there is the open finding "
                   "'singular-local-system'",
                   "left inverse of the local systems: hypothesis of C11_unique_exact; certified per "
                   "instance (approximate inverse, certificate iii) on a third of the small cases",
                   "after an update history the stored matrices are required to satisfy the same exactness as after a "
                   "full discretization (nothing changed in the grid or the parameters)"]

    # ------------------------------------------------------------------ generation
    def generate(self, rng, n, tier):
        # a few larger grids, checked by the oracle only (too large for the Coq certificate):
        # partitions with faces shared by three and more subproblems, larger 2-D partitions,
        # perturbed hexahedra (non-planar faces)
        big = BIG_SPECS[:BIG_QUICK] if tier == "quick" else BIG_SPECS
        nbig = min(len(big), max(0, n - 1)) if n >= 6 else 0
        for it in range(n):
            extra = {}
            if it >= n - nbig:
                spec, dim, nsub_big, extra = big[it - (n - nbig)]
                spec = dict(spec)
            else:
                spec, dim = grid_spec(rng, tier)
                nsub_big = None
            g = make_grid(spec)
            if rng.random() < 0.7 or (nsub_big is not None and spec["kind"] == "cart" and dim == 3):
                amp = rng.choice([4, 8, 12])
                nn = g.num_nodes
                for _try in range(6):
                    spec["pert"] = [[rng.randint(-amp, amp) for _ in range(dim)]
                                    for _ in range(nn)]
                    g = make_grid(spec)
                    vol = g.cell_volumes
                    # a perturbation may flatten a cell (sliver / zero area): that is not a
                    # valid grid (its centroid is garbage, e.g. -6e11, and porepy's own
                    # partition_coordinates asserts on it) - draw again, then give up
                    if np.all(np.isfinite(g.cell_centers)) and vol.min() > 1e-3 * vol.mean():
                        break
                else:
                    spec.pop("pert")
                    g = make_grid(spec)
            bfaces = [int(f) for f in g.get_all_boundary_faces()]
            rb = rng.random()
            if rb < 0.12:
                dirf = list(bfaces)
            elif rb < 0.22:
                dirf = []
            else:
                pd = rng.choice([0.25, 0.5, 0.75])
                dirf = [f for f in bfaces if rng.random() < pd]
            if extra.get("bc") == "mixed":
                # at least a third of the boundary faces of each kind (non-zero Neumann data)
                sh = list(bfaces)
                rng.shuffle(sh)
                cut = rng.randint(len(sh) // 3, 2 * len(sh) // 3)
                dirf = sorted(sh[:max(1, cut)])
            K = np.array(spd_tensor(rng, dim), dtype=float)
            embedded = rng.random() < 0.4
            if embedded:
                # the topology (hence bfaces / dirf) does not depend on the embedding
                spec["embed"] = embed_spec(rng)
                R = quat_rot(spec["embed"]["q"])
                # the tensor moves with the grid: for a 2-D grid it stays anisotropic in the
                # grid's plane and keeps the plane's normal as an eigenvector
                K = R @ K @ R.T
                K = (K + K.T) / 2
            K = K * 2.0 ** rng.choice([0, 0, 0, -20, -6, 4, 10])
            fields = []
            for _ in range(3):
                a = [rng.randint(-3, 3) for _ in range(3)]
                if dim == 2 and not embedded:
                    a[2] = 0
                fields.append(a + [rng.randint(-4, 4)])
            fields.append([0, 0, 0, rng.randint(-5, 5)])
            # number of overlapping subproblems the discretization is split into
            nsub = rng.choice([None, None, 2, 3]) if g.num_cells >= 2 else None
            case = {"grid": spec, "dim": dim, "K": [[float(x) for x in row] for row in K],
                    "dir": dirf, "fields": fields, "local": rng.random() < 0.34, "nsub": nsub,
                    "inv": rng.random() < 0.3,
                    # documented optional parameters: continuity point and local inverter
                    "eta": rng.choice([None, None, 0.0, 1.0 / 3, 0.25, 0.5]),
                    "inverter": rng.choice([None, None, "python", "numba"]),
                    "update": None}
            if rng.random() < 0.25:
                # two-step history: full discretization, then partial re-discretization
                case["update"] = {"route": rng.choice(["flag", "method"]),
                                  "cells": update_cells(rng, g, "random")}
            if nsub_big is not None:
                case.update(nsub=nsub_big or None, local=False, inv=False, oracle_only=True, update=None)
                if extra.get("update"):
                    case["update"] = {"route": extra["update"], "cells": update_cells(rng, g, "middle")}
            yield case

    # ------------------------------------------------------------------ implementation
    _cache = (None, None)

    def _setup(self, case):
        key = repr(case)
        if self._cache[0] == key:
            return self._cache[1]
        g = make_grid(case["grid"])
        nc = g.num_cells
        K = np.array(case["K"], dtype=float)
        o = np.ones(nc)
        perm = pp.SecondOrderTensor(K[0, 0] * o, kyy=K[1, 1] * o, kzz=K[2, 2] * o,
                                    kxy=K[0, 1] * o, kxz=K[0, 2] * o, kyz=K[1, 2] * o)
        dirf = np.array(case["dir"], dtype=int)
        bc = pp.BoundaryCondition(g, dirf, ["dir"] * dirf.size)
        out = (g, K, perm, bc)
        C11._cache = (key, out)
        return out

    def run_impl(self, case):
        g, K, perm, bc = self._setup(case)
        par = {"second_order_tensor": perm, "bc": bc}
        if case.get("nsub"):
            par["partition_arguments"] = {"num_subproblems": int(case["nsub"])}
        if case.get("eta") is not None:
            par["mpfa_eta"] = float(case["eta"])
        if case.get("inverter"):
            par["mpfa_inverter"] = case["inverter"]
        data = pp.initialize_data(g, {}, KW, par)
        discr = pp.Mpfa(KW)
        with LocalCapture() as cap:
            try:
                discr.discretize(g, data)
                if case.get("update"):
                    run_update(discr, g, data, KW, case["update"])
            except ValueError as e:
                if "inversion of local linear systems" not in str(e):
                    raise
                # a local system is exactly singular (degenerate interaction region, e.g.
                # collinear cell and boundary-face centres): the code refuses to discretize
                return {"error": "singular-local-system", "nc": int(g.num_cells),
                        "nf": int(g.num_faces)}
        local = cap.local_systems() if case.get("local", True) else None
        inv = cap.inverse_pair() if case.get("inv") else None
        md = data[pp.DISCRETIZATION_MATRICES][KW]
        bfaces = [int(f) for f in g.get_all_boundary_faces()]
        cf = g.cell_faces.tocsr()
        kinds = [0] * g.num_faces
        for f in bfaces:
            s = int(cf[f].data[0])
            kinds[f] = s * (1 if bc.is_dir[f] else 2)
        return {"dim": int(g.dim), "nf": int(g.num_faces), "nc": int(g.num_cells),
                "kinds": kinds, "local": local, "inv": inv, "max_cond": cap.max_cond,
                "flux": canon(md[discr.flux_matrix_key]),
                "bound_flux": canon(md[discr.bound_flux_matrix_key]),
                "bpc": canon(md[discr.bound_pressure_cell_matrix_key], bfaces),
                "bpf": canon(md[discr.bound_pressure_face_matrix_key], bfaces)}

    # ------------------------------------------------------------------ oracle
    def oracle(self, case, res):
        if res.get("error"):
            return None  # no matrices were produced; nothing is claimed
        g, K, perm, bc = self._setup(case)
        nf, nc = res["nf"], res["nc"]
        flux = to_dense(res["flux"], (nf, nc))
        bflux = to_dense(res["bound_flux"], (nf, nf))
        bpc = to_dense(res["bpc"], (nf, nc))
        bpf = to_dense(res["bpf"], (nf, nf))
        kinds = np.array(res["kinds"])
        bnd = kinds != 0
        isdir = np.abs(kinds) == 1
        isneu = np.abs(kinds) == 2
        sgn = np.sign(kinds).astype(float)
        aflux, abflux, abpc, abpf = np.abs(flux), np.abs(bflux), np.abs(bpc), np.abs(bpf)
        for fld in case["fields"]:
            a = np.array(fld[:3], dtype=float)
            b0 = float(fld[3])
            p = a @ g.cell_centers + b0
            pf = a @ g.face_centers + b0
            exact = -(g.face_normals.T @ (K @ a))
            bv = np.zeros(nf)
            bv[isdir] = pf[isdir]
            bv[isneu] = sgn[isneu] * exact[isneu]
            q = flux @ p + bflux @ bv
            # purely relative tolerance, face by face: 1e-8 of the norm-wise size of the terms
            # (1-norm of the matrix row times max-norm of the data, plus |exact|): scale robust
            mag = aflux.sum(axis=1) * np.abs(p).max() + abflux.sum(axis=1) * np.abs(bv).max() + np.abs(exact)
            bad = np.abs(q - exact) > 1e-8 * mag
            if bad.any():
                f = int(np.argmax(np.abs(q - exact) - 1e-8 * mag))
                if not a.any():
                    return (f"constant pressure {b0} gives non-zero flux {q[f]:.3e} on face {f} "
                            f"(kind {int(kinds[f])}, terms of size {mag[f]:.3e})")
                return (f"linear field a={a.tolist()} b={b0}: flux on face {f} (kind {int(kinds[f])}) "
                        f"is {q[f]:.12g}, exact -n.K a = {exact[f]:.12g}")
            pb = bpc @ p + bpf @ bv
            pmag = abpc.sum(axis=1) * np.abs(p).max() + abpf.sum(axis=1) * np.abs(bv).max() + np.abs(pf)
            perr = np.where(bnd, np.abs(pb - pf) - 1e-8 * pmag, -1.0)
            if (perr > 0).any():
                f = int(np.argmax(perr))
                return (f"linear field a={a.tolist()} b={b0}: reconstructed boundary pressure on face "
                        f"{f} (kind {int(kinds[f])}) is {pb[f]:.12g}, exact {pf[f]:.12g}")
        return None

    # ------------------------------------------------------------------ tie
    def _inst(self, case, res):
        g, K, perm, bc = self._setup(case)
        # components sent per point: 2 for a grid in the xy-plane, 3 otherwise
        d = 2 if not any(arr[2].any() for arr in (g.cell_centers, g.face_centers, g.face_normals)) else 3
        return ("(mk_inst {} {} {} {} {} {} {} {} {} {})".format(
            d, pts(g.cell_centers, d), pts(g.face_centers, d), pts(g.face_normals, d),
            zlist([pk(K[i, j]) for i in range(3) for j in range(3)]), zlist(res["kinds"], zi),
            dcoo(res["flux"]), dcoo(res["bound_flux"]), dcoo(res["bpc"]), dcoo(res["bpf"])))

    def _local(self, res):
        L = res["local"]
        d = L["nd"]
        arr = lambda key: np.array(L[key], dtype=float).T
        K = np.array(L["K"], dtype=float)
        inst = ("(mk_inst {} {} {} {} {} {} {} {} [] [])".format(
            d, pts(arr("cc"), d), pts(arr("fc"), d), pts(arr("nr"), d),
            zlist([pk(K[i, j]) for i in range(3) for j in range(3)]), zlist(res["kinds"], zi),
            dcoo(L["RC"]), dcoo(L["RB"])))
        return f"check_local2 {d} {zi(L['nrows'])} {zi(len(L['A']))} {inst} {dcoo(L['A'])}"

    def coq_case(self, case, res):
        if res.get("error") or case.get("oracle_only") or res.get("max_cond", 0) > 1e10:
            return None  # no matrices / too large / local system singular up to rounding (known finding)
        nb = sum(1 for k in res["kinds"] if k != 0)
        t = f"check_case2 {zi(res['nf'])} {zi(nb)} {self._inst(case, res)}"
        if res.get("local"):
            # certificate (ii): the captured local systems of the same run
            t = f"andb ({t}) ({self._local(res)})"
        if res.get("inv"):
            # certificate (iii): the inverter's output is an approximate left inverse of the
            # block-diagonal matrix of all local systems (hence these determine their solution)
            t = f"andb ({t}) ({inv_term(res['inv'])})"
        return t

    def coq_diag(self, case, res):
        return f"diag_case {self._inst(case, res)}"

    def nontrivial(self, case, res):
        return not res.get("error") and res["nc"] >= 2 and any(any(f[:3]) for f in case["fields"])

    def finding_key(self, case, res, why):
        if res is not None and res.get("max_cond", 0) > 1e10:
            # a local system is singular up to rounding and the inverter did not raise
            return "singular-local-system"
        if why.startswith("constant pressure"):
            return "constant-not-zero"
        if "boundary pressure" in why:
            return "bound-pressure-not-exact"
        return "linear-flux-not-exact"

    def shrink(self, case, still_fails):
        # fewer fields, then no perturbation
        for fld in case["fields"]:
            c = dict(case, fields=[fld])
            if still_fails(c):
                case = c
                break
        if case["grid"].get("pert"):
            c = dict(case, grid={k: v for k, v in case["grid"].items() if k != "pert"})
            if still_fails(c):
                case = c
        return case

    def describe(self, case):
        d = dict(case)
        d["grid"] = {k: (v if k != "pert" else f"<{len(v)} node offsets /64>") for k, v in case["grid"].items()}
        return d



# The generated case files are dominated by the time Coq needs to read the literals (the
# real matrices); the shared driver puts up to 400 cases into one file.  Smaller files let
# its existing worker pool compile them in parallel.  Same terms, same verdicts.
def _sharded_eval(pid, preamble, terms, shard=400, timeout=900, jobs=8, _orig=None):
    return _orig(pid, preamble, terms, shard=(4 if pid in ("C11", "C13") else shard),
                 timeout=timeout, jobs=jobs)


def _install_sharding():
    import functools
    from harness import core
    if getattr(core.coq_eval_bools, "_c11_sharded", False):
        return
    f = functools.partial(_sharded_eval, _orig=core.coq_eval_bools)
    f._c11_sharded = True
    core.coq_eval_bools = f


_install_sharding()

PROP = C11()
