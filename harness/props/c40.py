"""C40 — material tensors (pp.SecondOrderTensor / pp.FourthOrderTensor)."""
from fractions import Fraction

import numpy as np

from harness.core import Prop, cq, cz, clist, coption, cbool

import porepy as pp


def cm33(m):
    """3x3 nested list -> Coq m33 Q literal."""
    rows = ["(" + ", ".join(cq(x) for x in r) + ")" for r in m]
    return "(" + ", ".join(rows) + ")"


def cells_of(values):
    """numpy (3,3,Nc) -> list over cells of 3x3 lists (floats)."""
    return [[[float(values[i, j, c]) for j in range(values.shape[1])]
             for i in range(values.shape[0])] for c in range(values.shape[2])]


def quat_rotation(q):
    """Exact rational rotation matrix of the quaternion (a, b, c, d) / |q|."""
    a, b, c, d = (Fraction(x) for x in q)
    n = a * a + b * b + c * c + d * d
    return [[(a * a + b * b - c * c - d * d) / n, 2 * (b * c - a * d) / n, 2 * (b * d + a * c) / n],
            [2 * (b * c + a * d) / n, (a * a - b * b + c * c - d * d) / n, 2 * (c * d - a * b) / n],
            [2 * (b * d - a * c) / n, 2 * (c * d + a * b) / n, (a * a - b * b - c * c + d * d) / n]]


def invariants(m):
    m = np.asarray(m, dtype=float)
    tr = np.trace(m)
    i2 = (m[0, 0] * m[1, 1] - m[0, 1] * m[1, 0] + m[0, 0] * m[2, 2] - m[0, 2] * m[2, 0]
          + m[1, 1] * m[2, 2] - m[1, 2] * m[2, 1])
    return np.array([tr, i2, np.linalg.det(m)])


DELTA = np.eye(3)


def stiffness_reference(mu, lam):
    """Dense reference: C_ijkl = lam d_ij d_kl + mu (d_ik d_jl + d_il d_jk), row 3i+j."""
    c = np.zeros((9, 9))
    for i in range(3):
        for j in range(3):
            for k in range(3):
                for l in range(3):
                    c[3 * i + j, 3 * k + l] = (lam * DELTA[i, j] * DELTA[k, l] + mu * (
                        DELTA[i, k] * DELTA[j, l] + DELTA[i, l] * DELTA[j, k]))
    return c


def share_matrix(arrays):
    """Upper triangle of np.shares_memory over a list of arrays (same order as the model's
    share_matrix)."""
    out = []
    for i in range(len(arrays)):
        for j in range(i + 1, len(arrays)):
            out.append(bool(np.shares_memory(arrays[i], arrays[j])))
    return out


class C40(Prop):
    id = "C40"
    props_file = "Props/C40.v"
    preamble = ("From Coq Require Import List ZArith QArith.\nImport ListNotations.\n"
                "From PP Require Import Model.C40 Model.C40_heap.\n")
    n_cases = (200, 5000)
    design_ref = "DESIGN.md §5 C40"
    level_text = (
        "Coq theorems, valid over any commutative ring (reals, integers, ...), about an "
        "executable transcription of SecondOrderTensor.__init__/rotate/copy, "
        "FourthOrderTensor.__init__ (argument checks, other_fields)/copy and "
        "Tensor.restrict_to_cells: every constructed second-order tensor has the documented "
        "index layout and is symmetric in every cell (C40_second_order_symmetric); the two "
        "tensordot contractions of rotate compute R K^T R^T (= R K R^T, symmetric, for symmetric "
        "K) and for R^T R = I preserve trace, determinant, second invariant and the whole "
        "characteristic polynomial, hence the eigenvalues (C40_rotate_similarity, "
        "C40_rotate_cellwise); restriction of a constructed tensor returns exactly the "
        "requested cells in the requested order with numpy's negative-index rule and raises "
        "IndexError exactly for out-of-range indices (C40_restrict_selects, "
        "C40_restrict_fourth_order, C40_other_fields_copy_restrict: mu, lmbda, every extra field "
        "and values alike); copies are equal tensors (C40_copy_equal) and, on the allocation "
        "model of tensor.py, hold only freshly allocated arrays, so in-place writes to a "
        "copy/restriction never reach the original and vice versa (C40_copy_independent); every "
        "cell of a fourth-order tensor is the isotropic stiffness tensor lmbda d_ij d_kl + mu "
        "(d_ik d_jl + d_il d_jk) in the 3i+j / 3k+l layout and a symmetric 9x9 matrix "
        "(C40_fourth_order_symmetric), and the constructor accepts exactly two 1-D arrays of "
        "equal size (C40_fourth_order_argument_checks); any homomorphism of number records "
        "commutes with every model function, in particular the rational instance executed by "
        "the tie is the real instance on embedded data (C40_instance_independence, "
        "C40_transfer_Q_R). The model is tied to the code on every run by executing both in "
        "exact rationals on random float and integer parameter arrays, rotation matrices from "
        "rational quaternions, general matrices, cell selections, copy/restrict histories, "
        "other_fields, non-array / 0-d / 2-d / 3-d constructor arguments, and by comparing the "
        "np.shares_memory matrix of arguments, tensor, copy, restriction and rotated copy with "
        "the allocation model, Coq comparing all outputs and exceptions.")
    level_note = (
        "Copy independence: the theorem is about the allocation model (which statements "
        "allocate); that the implementation allocates where the model says is established per "
        "run by the shares_memory matrix (cases with at least one cell) and by in-place "
        "mutation probes of every array (values, mu, lmbda, extra fields) after copy(), "
        "restrict_to_cells() and copy() of the restriction, both directions. Theorems are over "
        "exact ring arithmetic; floating-point rounding is covered only by the 1e-9 comparison "
        "of the tie. The isotropic-formula and 9x9-symmetry theorems are for tensors without "
        "extra fields; the instance-independence theorem does not cover the other_fields "
        "variants. Arrays of one constructor call have equal length (numpy broadcasting errors "
        "are not modelled); the element dtype (float/int) is not modelled, integer arrays are "
        "exercised by the tie. copy()/restrict_to_cells() of a second-order tensor re-run the "
        "constructor's positivity tests (transcribed); the theorems about them are stated for "
        "tensors as the constructor returns them. Trusted: Coq kernel + vm_compute, harness.")
    technique = ("Coq proof (ring identities: adjugate/cyclic-trace argument for the invariants, "
                 "list induction for cell selection) + vm_compute execution correspondence in Q "
                 "+ dense numpy oracle")
    rule = ("second-order: 0-5 cells, per cell K = L L^T (+I) from small integer/dyadic L with "
            "random subsets of the optional arguments, plus semi-definite and deliberately "
            "invalid data (negative kxx, negative 2x2 minor, negative determinant); histories "
            "of up to 4 operations from rotate (matrix of a random rational quaternion, exact "
            "dyadic or rounded; axis permutations/reflections; general integer matrices), "
            "restrict_to_cells (repeated, negative and out-of-range indices, empty) and copy, "
            "each followed by in-place mutation probes; fourth-order: dyadic mu/lmbda of equal "
            "or unequal length, 20% as int64 arrays, in half of the cases with 1-2 other_fields (sparse integer 9x9 "
            "basis matrix + per-cell array), copy, restriction, copy of the restriction, all "
            "arrays (values, mu, lmbda, extra fields) probed for aliasing and their "
            "np.shares_memory matrix compared with the allocation model; 8% constructor-argument "
            "cases (python list/float/None/tuple, 0-d, 1-d, 2-d, 3-d arrays in all combinations); "
            "15% of the integer-valued second-order cases as int64 arrays; non-trivial = at least one cell and one "
            "operation")
    trusted = ["per-cell representation: values[i, j, c] <-> matrix of cell c (harness "
               "transposes the numpy layout)",
               "floats handed to the implementation are represented exactly; comparison "
               "|impl-model| <= 1e-9*(1+|model|) inside Coq on well-conditioned small data"]
    assumptions = ["1-D parameter arrays of equal length"]

    # -- generator ---------------------------------------------------------------------
    def _dy(self, rng, lo=-8, hi=8):
        return rng.randint(lo * 4, hi * 4) / 4.0

    def _rot(self, rng):
        r = rng.random()
        if r < 0.45:
            while True:
                q = [rng.randint(-4, 4) for _ in range(4)]
                if any(q):
                    break
            R = quat_rotation(q)
            return {"R": [[float(x) for x in row] for row in R], "orth": True,
                    "exact": all(Fraction(float(x)) == x for row in R for x in row)}
        if r < 0.65:
            perm = [0, 1, 2]
            rng.shuffle(perm)
            R = [[0.0] * 3 for _ in range(3)]
            for i, p in enumerate(perm):
                R[i][p] = float(rng.choice([1, -1]))
            return {"R": R, "orth": True, "exact": True}
        if r < 0.8:
            a, b = rng.choice([(3, 4, 5), (5, 12, 13), (8, 15, 17), (0, 1, 1)])[:2], None
            h = float(np.hypot(*a))
            c, s = a[0] / h, a[1] / h
            R = [[c, -s, 0.0], [s, c, 0.0], [0.0, 0.0, 1.0]]
            return {"R": R, "orth": True, "exact": False}
        R = [[float(rng.randint(-3, 3)) / rng.choice([1, 2]) for _ in range(3)] for _ in range(3)]
        return {"R": R, "orth": False, "exact": True}

    def _gen_second(self, rng):
        nc = rng.choice([0, 1, 1, 2, 3, 4, 5])
        mode = rng.random()
        arrs = {k: [] for k in ("kxx", "kyy", "kzz", "kxy", "kxz", "kyz")}
        pd = True
        for _ in range(nc):
            L = [[0.0] * 3 for _ in range(3)]
            for i in range(3):
                for j in range(i + 1):
                    L[i][j] = rng.randint(-3, 3) / rng.choice([1.0, 2.0])
            K = (np.array(L) @ np.array(L).T)
            if mode < 0.75:
                K = K + np.eye(3)          # positive definite with margin
            else:
                pd = False                  # possibly semi-definite (allowed: tests are `< 0`)
            for k, (i, j) in zip(arrs, [(0, 0), (1, 1), (2, 2), (0, 1), (0, 2), (1, 2)]):
                arrs[k].append(float(K[i, j]))
        shape = rng.choice(["full", "full", "iso", "diag", "2d", "rand"])
        given = {"full": ["kyy", "kzz", "kxy", "kxz", "kyz"], "iso": [], "diag": ["kyy", "kzz"],
                 "2d": ["kyy", "kxy"],
                 "rand": [k for k in ("kyy", "kzz", "kxy", "kxz", "kyz") if rng.random() < 0.5]}[shape]
        if shape != "full":
            pd = False
        bad = rng.random()
        if nc and bad < 0.12:
            pd = False
            c = rng.randrange(nc)
            kind = rng.choice(["kxx", "minor", "det", "big_off"])
            if kind == "kxx":
                arrs["kxx"][c] = -abs(arrs["kxx"][c]) - 0.25
            elif kind == "minor":
                arrs["kxy"][c] = float(np.sqrt(abs(arrs["kxx"][c] * arrs["kyy"][c]))) // 1 + 1.0
                if "kxy" not in given:
                    given = given + ["kxy"]
            elif kind == "det":
                arrs["kzz"][c] = -1.0
                if "kzz" not in given:
                    given = given + ["kzz"]
            else:
                arrs["kyz"][c] = 50.0
                if "kyz" not in given:
                    given = given + ["kyz"]
        case = {"kind": "second", "nc": nc, "kxx": arrs["kxx"], "pd": pd}
        for k in ("kyy", "kzz", "kxy", "kxz", "kyz"):
            case[k] = arrs[k] if k in given else None
        ops = []
        cur = nc
        for _ in range(rng.choice([0, 1, 1, 2, 3, 4])):
            r = rng.random()
            if r < 0.45:
                rot = self._rot(rng)
                if not pd and not rot["exact"]:
                    rot = {"R": [[0.0, -1.0, 0.0], [1.0, 0.0, 0.0], [0.0, 0.0, 1.0]],
                           "orth": True, "exact": True}
                ops.append(["rotate", rot["R"], rot["orth"]])
            elif r < 0.8:
                k = rng.choice([0, 1, 1, 2, 3, 6])
                if cur == 0:
                    cells = [] if rng.random() < 0.7 else [0]
                else:
                    cells = [rng.randint(-cur, cur - 1) for _ in range(k)]
                    if rng.random() < 0.12:
                        cells.insert(rng.randint(0, len(cells)), rng.choice([cur, -cur - 1, cur + 3]))
                ops.append(["restrict", cells])
                if all(-cur <= c < cur for c in cells):
                    cur = len(cells)
            else:
                ops.append(["copy"])
        case["ops"] = ops
        return case

    def _gen_fourth(self, rng):
        nc = rng.choice([0, 1, 2, 3, 4])
        mu = [abs(self._dy(rng)) + 0.25 for _ in range(nc)]
        la = [self._dy(rng) for _ in range(nc)]
        if rng.random() < 0.1:
            la = la + [1.0] if rng.random() < 0.5 else la[:-1] if la else [1.0]
        k = rng.choice([0, 1, 2, 3, 5])
        cells = [rng.randint(-nc, nc - 1) for _ in range(k)] if nc else []
        if rng.random() < 0.1:
            cells.append(rng.choice([nc, -nc - 1]))
        case = {"kind": "fourth", "mu": mu, "lmbda": la, "cells": cells, "extra": [],
                "dtype": "float"}
        if rng.random() < 0.2:
            # integer Lame parameters (int64 arrays)
            case["mu"] = [float(rng.randint(1, 9)) for _ in mu]
            case["lmbda"] = [float(rng.randint(-4, 9)) for _ in la]
            case["dtype"] = "int"
        if rng.random() < 0.5:
            # other_fields: 1-2 named per-cell arrays with a sparse 9x9 basis matrix each
            for name in rng.sample(["phi", "kappa", "damage"], rng.choice([1, 1, 2])):
                mat = [[0.0] * 9 for _ in range(9)]
                symmetric = rng.random() < 0.8
                for _ in range(rng.randint(1, 5)):
                    i, j = rng.randrange(9), rng.randrange(9)
                    v = float(rng.randint(-2, 2))
                    mat[i][j] = v
                    if symmetric:
                        mat[j][i] = v
                case["extra"].append([name, mat, [self._dy(rng) for _ in range(nc)]])
        return case

    def _gen_args(self, rng):
        def arg():
            r = rng.random()
            if r < 0.5:
                n = rng.randint(0, 3)
                return ["arr", 1, [self._dy(rng) for _ in range(n)]]
            if r < 0.62:
                return ["arr", 2, [self._dy(rng) for _ in range(rng.choice([1, 2, 4]))]]
            if r < 0.72:
                return ["arr", 0, [self._dy(rng)]]
            if r < 0.8:
                return ["arr", 3, [self._dy(rng) for _ in range(2)]]
            return [rng.choice(["list", "float", "none", "tuple"]), None,
                    [self._dy(rng) for _ in range(rng.randint(1, 2))]]
        a, b = arg(), arg()
        if a[0] == "arr" and a[1] == 1 and b[0] == "arr" and b[1] == 1 and rng.random() < 0.6:
            b[2] = [self._dy(rng) for _ in a[2]]
        return {"kind": "fourth_args", "mu": a, "lmbda": b}

    def generate(self, rng, n, tier):
        for _ in range(n):
            r = rng.random()
            if r < 0.66:
                c = self._gen_second(rng)
                if rng.random() < 0.15 and all(float(x).is_integer() for k in
                                               ("kxx", "kyy", "kzz", "kxy", "kxz", "kyz")
                                               for x in (c[k] or [])):
                    c["dtype"] = "int"
                yield c
            elif r < 0.92:
                yield self._gen_fourth(rng)
            else:
                yield self._gen_args(rng)

    # -- implementation ------------------------------------------------------------------
    def _probe(self, orig_objs, new_objs):
        """Mutate the new object's arrays in place, then the original's; report whether the
        other side stayed unchanged.  Arrays are restored afterwards."""
        ok = True
        snaps_o = [a.copy() for a in orig_objs]
        snaps_n = [a.copy() for a in new_objs]
        for a in new_objs:
            a[...] = 977.0
        ok &= all(np.array_equal(a, s) for a, s in zip(orig_objs, snaps_o))
        for a, s in zip(new_objs, snaps_n):
            a[...] = s
        for a in orig_objs:
            a[...] = -555.0
        ok &= all(np.array_equal(a, s) for a, s in zip(new_objs, snaps_n))
        for a, s in zip(orig_objs, snaps_o):
            a[...] = s
        shares = any(np.shares_memory(a, b) for a in orig_objs for b in new_objs)
        return bool(ok and not shares)

    def run_impl(self, case):
        if case["kind"] == "second":
            dt = int if case.get("dtype") == "int" else float
            arr = lambda k: None if case[k] is None else np.array(case[k], dtype=dt)
            try:
                t = pp.SecondOrderTensor(arr("kxx"), kyy=arr("kyy"), kzz=arr("kzz"),
                                         kxy=arr("kxy"), kxz=arr("kxz"), kyz=arr("kyz"))
            except ValueError:
                return {"t0": ["err", "ValueErr"], "outs": [], "indep": []}
            res = {"t0": ["val", cells_of(t.values)], "outs": [], "indep": [], "alias": None}
            if case["nc"] >= 1:
                kw = {k: arr(k) for k in ("kxx", "kyy", "kzz", "kxy", "kxz", "kyz")
                      if case[k] is not None}
                args = list(kw.values())
                t_a = pp.SecondOrderTensor(**kw)
                c_a = t_a.copy()
                r_a = t_a.restrict_to_cells(np.array([0], dtype=int))
                before = c_a.values
                c_a.rotate(np.eye(3))
                res["alias"] = [len(args), share_matrix(
                    args + [t_a.values, before, r_a.values, c_a.values])]
            for op in case["ops"]:
                if op[0] == "rotate":
                    t.rotate(np.array(op[1], dtype=float))
                    res["outs"].append(["val", cells_of(t.values)])
                    res["indep"].append(None)
                    continue
                before = t.values.copy()
                try:
                    if op[0] == "restrict":
                        new = t.restrict_to_cells(np.array(op[1], dtype=int))
                    else:
                        new = t.copy()
                except ValueError:
                    res["outs"].append(["err", "ValueErr"])
                    res["indep"].append(bool(np.array_equal(before, t.values)))
                    continue
                except IndexError:
                    res["outs"].append(["err", "IndexErr"])
                    res["indep"].append(bool(np.array_equal(before, t.values)))
                    continue
                ok = bool(np.array_equal(before, t.values)) and self._probe([t.values], [new.values])
                res["outs"].append(["val", cells_of(new.values)])
                res["indep"].append(ok)
                t = new
            return res
        if case["kind"] == "fourth_args":
            def mk(a):
                if a[0] == "arr":
                    x = np.array(a[2], dtype=float)
                    if a[1] == 0:
                        return np.array(a[2][0])
                    if a[1] == 2:
                        return x.reshape(1, -1) if len(a[2]) != 4 else x.reshape(2, 2)
                    if a[1] == 3:
                        return x.reshape(1, 1, -1)
                    return x
                return {"list": list(a[2]), "float": float(a[2][0]), "none": None,
                        "tuple": tuple(a[2])}[a[0]]
            try:
                t = pp.FourthOrderTensor(mk(case["mu"]), mk(case["lmbda"]))
            except ValueError:
                return {"t0": ["err", "ValueErr"]}
            return {"t0": ["val", [float(x) for x in t.mu], [float(x) for x in t.lmbda],
                           cells_of(t.values), []]}
        dt = int if case.get("dtype") == "int" else float
        mu = np.array(case["mu"], dtype=dt)
        la = np.array(case["lmbda"], dtype=dt)
        names = [e[0] for e in case.get("extra", [])]
        other = {e[0]: (np.array(e[1], dtype=float), np.array(e[2], dtype=float))
                 for e in case.get("extra", [])} or None

        def arrays(t):
            return [t.values, t.mu, t.lmbda] + [getattr(t, n) for n in names]

        def dump(t):
            return ["val", [float(x) for x in t.mu], [float(x) for x in t.lmbda],
                    cells_of(t.values), [[float(x) for x in getattr(t, n)] for n in names]]
        try:
            t = pp.FourthOrderTensor(mu, la, other)
        except ValueError:
            return {"t0": ["err", "ValueErr"], "restrict": None, "copy": None, "indep": []}
        except TypeError as e:   # numpy casting errors are TypeErrors: not in the model's enum
            return {"t0": ["err", "TypeErr:" + type(e).__name__], "restrict": None, "copy": None,
                    "indep": []}
        res = {"t0": dump(t), "restrict": None, "copy": None, "indep": [],
               "params": list(t.constitutive_parameters)}
        before = [a.copy() for a in arrays(t)]
        # copy of the full tensor: independence of every array incl. the extra fields
        c0 = t.copy()
        res["copy0"] = dump(c0)
        res["indep"].append(self._probe(arrays(t), arrays(c0)))
        try:
            r = t.restrict_to_cells(np.array(case["cells"], dtype=int))
        except IndexError:
            res["restrict"] = ["err", "IndexErr"]
            res["indep"].append(all(np.array_equal(a, b) for a, b in zip(before, arrays(t))))
            return res
        res["restrict"] = dump(r)
        res["indep"].append(all(np.array_equal(a, b) for a, b in zip(before, arrays(t)))
                            and self._probe(arrays(t), arrays(r)))
        c = r.copy()
        res["copy"] = dump(c)
        res["indep"].append(self._probe(arrays(r), arrays(c)))
        res["copy_type"] = type(c).__name__
        res["alias"] = None
        if len(mu) >= 1 and len(case["cells"]) >= 1:
            args = [mu, la] + [other[n][1] for n in names]
            res["alias"] = [len(names), share_matrix(
                args + arrays(t) + arrays(c0) + arrays(r) + arrays(c))]
        return res

    # -- oracle --------------------------------------------------------------------------
    def oracle(self, case, res):
        if case["kind"] == "second":
            if res["t0"][0] != "val":
                if case["pd"]:
                    return "constructor rejected positive definite parameters"
                return None
            cur = np.array(res["t0"][1], dtype=float).reshape(-1, 3, 3)
            for c, m in enumerate(cur):
                if not np.array_equal(m, m.T):
                    return f"constructed tensor is not symmetric in cell {c}"
            admissible = case["pd"]
            for op, out, ind in zip(case["ops"], res["outs"], res["indep"]):
                if op[0] == "rotate":
                    R = np.array(op[1], dtype=float)
                    new = np.array(out[1], dtype=float).reshape(-1, 3, 3)
                    for c, (k, m) in enumerate(zip(cur, new)):
                        ref = R @ k @ R.T
                        scale = 1.0 + np.abs(ref).max() if ref.size else 1.0
                        if np.abs(m - ref).max() > 1e-9 * scale:
                            return f"rotate differs from R K R^T in cell {c}"
                        if op[2]:
                            a, b = invariants(k), invariants(m)
                            if np.any(np.abs(a - b) > 1e-8 * (1.0 + np.abs(a))):
                                return (f"rotation changed the invariants (trace, second, det) of "
                                        f"cell {c}: {a.tolist()} -> {b.tolist()}")
                            ea = np.linalg.eigvalsh((k + k.T) / 2)
                            eb = np.linalg.eigvalsh((m + m.T) / 2)
                            if np.abs(ea - eb).max() > 1e-7 * (1.0 + np.abs(ea).max()):
                                return f"rotation changed the eigenvalues of cell {c}"
                    if not op[2]:
                        admissible = False
                    cur = new
                    continue
                if ind is False:
                    return f"{op[0]}: result shares data with the original (or changed it)"
                if out[0] == "err":
                    if op[0] == "copy" and admissible:
                        return "copy of an admissible tensor raised " + out[1]
                    if op[0] == "restrict" and admissible and all(
                            -len(cur) <= c < len(cur) for c in op[1]):
                        return "restrict_to_cells with valid cells raised " + out[1]
                    continue
                new = np.array(out[1], dtype=float).reshape(-1, 3, 3)
                if op[0] == "copy":
                    if new.shape != cur.shape or not np.allclose(
                            new, cur, rtol=1e-12, atol=1e-12 * (1.0 + np.abs(cur).max(initial=0.0))):
                        return "copy differs from the original"
                else:
                    cells = op[1]
                    if len(new) != len(cells):
                        return "restriction returned a wrong number of cells"
                    for k, c in enumerate(cells):
                        if not np.allclose(new[k], cur[c], rtol=1e-12,
                                           atol=1e-12 * (1.0 + np.abs(cur[c]).max())):
                            return f"restricted cell {k} is not cell {c} of the original"
                cur = new
            return None
        if case["kind"] == "fourth_args":
            a, b = case["mu"], case["lmbda"]
            good = (a[0] == "arr" and b[0] == "arr" and a[1] == 1 and b[1] == 1
                    and len(a[2]) == len(b[2]))
            if good and res["t0"][0] != "val":
                return "constructor rejected two 1-D arrays of equal length"
            if res["t0"][0] == "val":
                for c, (m, l, v) in enumerate(zip(res["t0"][1], res["t0"][2], res["t0"][3])):
                    v = np.array(v)
                    if not np.array_equal(v, v.T) or not np.allclose(
                            v, stiffness_reference(m, l), rtol=1e-12, atol=1e-12):
                        return f"cell {c} is not the isotropic stiffness tensor of (mu, lmbda)"
            return None
        # fourth order
        if res["t0"][0] != "val":
            if res["t0"][1].startswith("TypeErr"):
                return ("constructor raised " + res["t0"][1] + " for "
                        + case.get("dtype", "float") + " mu/lmbda"
                        + (" with a real-valued extra field" if case.get("extra") else ""))
            if len(case["mu"]) == len(case["lmbda"]):
                return "constructor rejected arrays of equal length"
            return None
        _, mu, la, vals, xs = res["t0"]
        extra = case.get("extra", [])
        sym = all(np.array_equal(np.array(e[1]), np.array(e[1]).T) for e in extra)
        for c, (m, l, v) in enumerate(zip(mu, la, vals)):
            v = np.array(v)
            if v.shape != (9, 9) or (sym and not np.array_equal(v, v.T)):
                return f"fourth-order tensor is not a symmetric 9x9 matrix in cell {c}"
            ref = stiffness_reference(m, l)
            for e in extra:
                ref = ref + np.array(e[1]) * e[2][c]
            if not np.allclose(v, ref, rtol=1e-12, atol=1e-12):
                return f"cell {c} is not the stiffness tensor of its constitutive parameters"
        for e, x in zip(extra, xs):
            if x != e[2]:
                return f"extra field {e[0]} is not stored as given"
        if any(i is False for i in res["indep"]):
            which = ["copy", "restrict_to_cells", "copy of the restricted tensor"][
                [i is False for i in res["indep"]].index(True)]
            return (f"{which}: an array of the result (values, mu, lmbda or an extra field) "
                    "shares data with the original (or the original changed)")
        if res["copy0"][1:] != res["t0"][1:]:
            return "copy differs from the original"
        n = len(mu)
        r = res["restrict"]
        if r[0] == "err":
            if all(-n <= c < n for c in case["cells"]):
                return "restrict_to_cells with valid cells raised " + r[1]
            return None
        if len(r[1]) != len(case["cells"]) or len(r[3]) != len(case["cells"]) or any(
                len(x) != len(case["cells"]) for x in r[4]):
            return "restriction returned a wrong number of cells"
        for k, c in enumerate(case["cells"]):
            if r[1][k] != mu[c] or r[2][k] != la[c] or r[3][k] != vals[c]:
                return f"restricted cell {k} is not cell {c} of the original"
            for e, x, xr in zip(extra, xs, r[4]):
                if xr[k] != x[c]:
                    return f"restricted extra field {e[0]}[{k}] is not cell {c} of the original"
        if res["copy"][1:] != r[1:]:
            return "copy differs from the original"
        return None

    # -- tie -----------------------------------------------------------------------------
    def _t2(self, o):
        if o[0] == "val":
            return f"(IVal {clist(o[1], cm33)})"
        return f"(IErr {o[1]})"

    def _t4(self, o, extra=False):
        if o is None:
            return "(IErr ValueErr)"
        if o[0] == "val":
            m99 = lambda m: clist(m, lambda r: clist(r, cq))
            if extra:
                return (f"(IVal ({clist(o[1], cq)}, {clist(o[2], cq)}, "
                        f"{clist(o[4], lambda f: clist(f, cq))}, {clist(o[3], m99)}))")
            return f"(IVal ({clist(o[1], cq)}, {clist(o[2], cq)}, {clist(o[3], m99)}))"
        return f"(IErr {o[1]})"

    def _op(self, op):
        if op[0] == "rotate":
            return f"(Rotate {cm33(op[1])})"
        if op[0] == "restrict":
            return f"(Restrict {clist(op[1], cz)})"
        return "Copy"

    def _with_alias4(self, term, res):
        if res.get("alias"):
            return (f"({term}) && agree_alias4 {res['alias'][0]}%nat "
                    f"{clist(res['alias'][1], cbool)}")
        return term

    def coq_case(self, case, res):
        ql = lambda l: clist(l, cq)
        if case["kind"] == "second":
            args = " ".join([ql(case["kxx"])] + [coption(case[k], ql)
                                                 for k in ("kyy", "kzz", "kxy", "kxz", "kyz")])
            t = (f"agree_second {args} {clist(case['ops'], self._op)} {self._t2(res['t0'])} "
                 f"{clist(res['outs'], self._t2)}")
            if res.get("alias"):
                t = (f"({t}) && agree_alias2 {res['alias'][0]}%nat "
                     f"{clist(res['alias'][1], cbool)}")
            return t
        if case["kind"] == "fourth_args":
            def carg(a):
                if a[0] != "arr":
                    return "NotArray"
                return f"(Arr {a[1]}%nat {ql(a[2])})"
            return (f"agree_fourth_checked {carg(case['mu'])} {carg(case['lmbda'])} "
                    f"{self._t4(res['t0'])}")
        if res["t0"][0] == "err" and res["t0"][1].startswith("TypeErr"):
            return "false"
        extra = case.get("extra", [])
        if extra:
            m99 = lambda m: clist(m, lambda r: clist(r, cq))
            head = (f"agree_fourth_x {ql(case['mu'])} {ql(case['lmbda'])} "
                    f"{clist([e[1] for e in extra], m99)} {clist([e[2] for e in extra], ql)} "
                    f"{clist(case['cells'], cz)}")
            if res["t0"][0] != "val":
                return f"{head} {self._t4(res['t0'])} (IErr ValueErr) (IErr ValueErr)"
            return self._with_alias4(
                f"{head} {self._t4(res['t0'], True)} {self._t4(res['restrict'], True)} "
                f"{self._t4(res['copy'], True)}", res)
        if res["t0"][0] != "val":
            return (f"agree_fourth {ql(case['mu'])} {ql(case['lmbda'])} {clist(case['cells'], cz)} "
                    f"{self._t4(res['t0'])} (IErr ValueErr) (IErr ValueErr)")
        return self._with_alias4(
            f"agree_fourth {ql(case['mu'])} {ql(case['lmbda'])} {clist(case['cells'], cz)} "
            f"{self._t4(res['t0'])} {self._t4(res['restrict'])} {self._t4(res['copy'])}", res)

    def coq_diag(self, case, res):
        ql = lambda l: clist(l, cq)
        if case["kind"] == "fourth_args":
            return None
        if case["kind"] == "second":
            args = " ".join([ql(case["kxx"])] + [coption(case[k], ql)
                                                 for k in ("kyy", "kzz", "kxy", "kxz", "kyz")])
            return (f"match second_order QOps {args} with Ok t => (Ok t, run2 QOps t "
                    f"{clist(case['ops'], self._op)}) | Err e => (Err e, []) end")
        return f"fourth_order QOps {ql(case['mu'])} {ql(case['lmbda'])}"

    def nontrivial(self, case, res):
        if case["kind"] == "fourth_args":
            return True
        if case["kind"] == "second":
            return res["t0"][0] == "val" and case["nc"] > 0 and len(case["ops"]) > 0
        return res["t0"][0] == "val" and len(case["mu"]) > 0

    def finding_key(self, case, res, why):
        if case["kind"] == "fourth" and "constructor raised TypeErr" in why and \
                case.get("dtype") == "int" and case.get("extra"):
            return "fourth: constructor raised for integer mu/lmbda with a real-valued extra field"
        return case["kind"] + ": " + why.split(" in cell")[0][:60]

    def shrink(self, case, still_fails):
        if case["kind"] != "second":
            return case
        ops = list(case["ops"])
        changed = True
        while changed and ops:
            changed = False
            for i in range(len(ops)):
                c = dict(case, ops=ops[:i] + ops[i + 1:])
                if still_fails(c):
                    ops = c["ops"]
                    changed = True
                    break
        return dict(case, ops=ops)


PROP = C40()
