"""C21 — grid connectivity queries agree with the signed cell-face incidence."""
import numpy as np
import scipy.sparse as sps

from harness.core import Prop, cz, cnat, cbool, clist

import porepy as pp


# ------------------------------------------------------------------------------------
# grid recipes (JSON) -> real porepy grids
# ------------------------------------------------------------------------------------
def build(rec):
    k = rec["kind"]
    if k == "cart":
        g = pp.CartGrid(np.array(rec["dims"]))
    elif k == "tensor":
        g = pp.TensorGrid(*[np.array(c, dtype=float) for c in rec["coords"]])
    elif k == "tri":
        g = pp.StructuredTriangleGrid(np.array(rec["dims"]))
    elif k == "tet":
        g = pp.StructuredTetrahedralGrid(np.array(rec["dims"]))
    elif k == "point":
        g = pp.PointGrid(np.zeros(3))
    elif k == "md":
        fracs = [np.array(f, dtype=float) for f in rec["fracs"]]
        mdg = pp.meshing.cart_grid(fracs, np.array(rec["dims"]))
        sds = mdg.subdomains()
        g = sds[rec["pick"] % len(sds)]
    elif k == "poly2":
        return poly2(rec["k"], rec.get("flip", []))
    elif k == "sub":
        base = build(rec["base"])
        cells = np.array(sorted(set(c % base.num_cells for c in rec["cells"])), dtype=int)
        g, _, _ = pp.partition.extract_subgrid(base, cells)
    else:
        raise ValueError(k)
    g.compute_geometry()
    return g


def poly2(k, flip):
    """Two polygonal cells (left / right) separated by a zig-zag polyline of k faces, built by
    hand through the public constructor: the cells share k faces."""
    # nodes: 0 bottom-left, 1 bottom-mid (= polyline start), 2 bottom-right, then polyline
    # interior nodes 3 .. k+1, then top-mid (k+2), top-right (k+3), top-left (k+4)
    pl = [1] + list(range(3, k + 2)) + [k + 2]
    xs = [0.0, 1.0, 2.0] + [1.0 + (0.25 if i % 2 else -0.25) for i in range(k - 1)] + [1.0, 2.0, 0.0]
    ys = [0.0, 0.0, 0.0] + [(i + 1) / k for i in range(k - 1)] + [1.0, 1.0, 1.0]
    nn = k + 5
    nodes = np.vstack([xs, ys, np.zeros(nn)])
    faces = [(pl[i], pl[i + 1]) for i in range(k)]            # shared faces 0 .. k-1
    faces += [(0, 1), (k + 2, k + 4), (k + 4, 0)]             # left cell: bottom, top, left side
    faces += [(1, 2), (2, k + 3), (k + 3, k + 2)]             # right cell: bottom, right side, top
    nf = len(faces)
    fn = sps.csc_matrix((np.ones(2 * nf, dtype=bool), np.array(faces).ravel(),
                         np.arange(0, 2 * nf + 1, 2)), shape=(nn, nf))
    rows, cols, vals = [], [], []
    for f in range(k):
        s = -1 if f in flip else 1
        rows += [f, f]; cols += [0, 1]; vals += [s, -s]
    for f in range(k, k + 3):
        rows.append(f); cols.append(0); vals.append(1)
    for f in range(k + 3, k + 6):
        rows.append(f); cols.append(1); vals.append(1)
    cf = sps.csc_matrix((np.array(vals), (np.array(rows), np.array(cols))), shape=(nf, 2))
    return pp.Grid(2, nodes, fn, cf, "poly2")


def rebuild(g, mode, seed):
    """Re-create the grid through the public constructor pp.Grid(dim, nodes, face_nodes,
    cell_faces, name) from copies of its matrices in another sparse storage format."""
    if mode == "asis":
        return g
    cf = g.cell_faces.copy()
    fn = g.face_nodes.copy()
    tags = None
    rs = np.random.RandomState(seed % (2 ** 31))
    if mode == "renumber":
        # permuted node / face / cell numbering: cf' = Pf cf Pc^T, fn' = Pn fn Pf^T
        pf, pc, pn = (rs.permutation(g.num_faces), rs.permutation(g.num_cells),
                      rs.permutation(g.num_nodes))
        cf = sps.csc_matrix(cf.tocsr()[pf, :][:, pc])
        fn = sps.csc_matrix(fn.tocsr()[pn, :][:, pf])
        return pp.Grid(g.dim, g.nodes[:, pn].copy(), fn, cf, "rebuilt-renumber")
    if mode == "dtypes":
        # value types a caller may hand in: float / int8 signs, bool / float node incidences
        cf = cf.astype(rs.choice([np.float64, np.int8, np.float32]))
        fn = fn.astype(rs.choice([bool, np.float64, np.int32]))
        return pp.Grid(g.dim, g.nodes.copy(), fn, cf, "rebuilt-dtypes")
    if mode in ("cf_csr", "cf_csr_unsorted", "both_csr_exttags"):
        cf = sps.csr_matrix(cf)
    if mode == "cf_csr_unsorted":
        # coo with shuffled entries -> csr, then reverse the stored order inside every row
        c = sps.coo_matrix(cf)
        perm = np.random.RandomState(seed % (2 ** 31)).permutation(c.nnz)
        cf = sps.csr_matrix(sps.coo_matrix((c.data[perm], (c.row[perm], c.col[perm])),
                                           shape=c.shape))
        for r in range(cf.shape[0]):
            a, b = cf.indptr[r], cf.indptr[r + 1]
            cf.indices[a:b] = cf.indices[a:b][::-1].copy()
            cf.data[a:b] = cf.data[a:b][::-1].copy()
        cf.has_sorted_indices = False
    if mode in ("fn_csr_exttags", "both_csr_exttags"):
        # face_nodes is documented as csc-only for the node tags / geometry (the constructor's
        # update_boundary_node_tag reads its indptr as csc), so the tags are handed over
        # through the constructor's external_tags parameter; cell_nodes must still be right.
        fn = sps.csr_matrix(fn)
        tags = {k: np.array(v, copy=True) for k, v in g.tags.items()}
    return pp.Grid(g.dim, g.nodes.copy(), fn, cf, "rebuilt-" + mode, external_tags=tags)


def _coo(m):
    """Stored entries (row, col, value) in column-major order; the matrix must be
    canonical up to index order (no duplicate stored coordinates)."""
    c = sps.coo_matrix(m)
    rows, cols, data = c.row.astype(int), c.col.astype(int), c.data
    assert all(float(int(v)) == float(v) for v in data)
    t = sorted((int(cc), int(r), int(v)) for r, cc, v in zip(rows, cols, data))
    return [[r, cc, v] for cc, r, v in t]


def _true_coords(m):
    c = sps.coo_matrix(m)
    return sorted({(int(r), int(cc)) for r, cc, v in zip(c.row, c.col, c.data) if v})


def zi(n):
    """Z literal inside Z_scope (the preamble opens it): much cheaper to elaborate than (n)%Z."""
    n = int(n)
    return str(n) if n >= 0 else f"({n})"


def _ent(e):
    return f"({zi(e[0])},{zi(e[1])},{zi(e[2])})"


def _pair(p):
    return f"({zi(p[0])},{zi(p[1])})"


class C21(Prop):
    id = "C21"
    props_file = "Props/C21.v"
    preamble = ("From Coq Require Import List ZArith.\nImport ListNotations.\n"
                "From PP Require Import Model.C21 Model.C21_ext.\nOpen Scope Z_scope.\n")
    n_cases = (40, 600)
    design_ref = "DESIGN.md §5 C21"
    level_text = (
        "Coq theorems over an executable transcription of the six connectivity queries of "
        "pp.Grid (cell_faces_as_dense, cell_connection_map, update_boundary_face_tag, "
        "signs_and_cells_of_boundary_faces incl. its double argsort and the ValueError branch, "
        "cell_nodes, divergence(dim) incl. the Kronecker index arithmetic), on the list of "
        "stored entries of cell_faces / face_nodes.  For EVERY well-formed incidence (each face "
        "has one or two stored entries with values +-1, opposite when two, indices in range, "
        "one entry per (face, cell)) and every face list / dimension: each query returns what "
        "its definition from the incidence says; boundary-tagged faces are exactly those with "
        "one adjacent cell; the connection map is symmetric (for any incidence) and relates "
        "exactly the cells sharing a face (diagonal = cells that have a face); the vector "
        "divergence is the scalar one expanded per component and the scalar one is the "
        "transpose of the incidence (for any incidence); the outcome of signs_and_cells is the same "
        "for ANY sorting permutation in place of np.argsort (numpy's unstable sort), out-of-range "
        "face numbers raise IndexError and negative ones wrap as in numpy; set_periodic_map stores a "
        "valid map and clears exactly the listed faces, rejects every other map with ValueError "
        "without storing it.  Tie: on every run the real queries "
        "are executed on Cartesian 1-3-D, tensor, structured triangle / tetrahedral grids, "
        "fracture-split md-grid subdomains (2-D/3-D hosts, fracture and intersection grids), "
        "point grids, extracted subgrids and hand-built polygonal grids, over histories of in-place "
        "topology changes on one grid object (every round against the current incidence), as constructed and re-created through the public "
        "pp.Grid constructor with csr-stored cell_faces / face_nodes, and Coq recomputes every output from the real "
        "stored entries and compares; Coq also evaluates the well-formedness hypothesis on "
        "every one of those real incidences.")
    level_note = (
        "Trusted: Coq kernel + vm_compute; the harness; scipy's sparse semantics as modelled "
        "(COO conversion order of a canonical CSC matrix, product structure, row slicing, kron "
        "index convention) — these are exercised by the tie only.  The theorems are about the "
        "model; the implementation is covered on the generated grids.  Not modelled: matrices with duplicate "
        "stored coordinates or explicitly stored zeros; the exception raised for non-integer "
        "periodic maps.  numpy's default argsort is not stable; the executed model uses a stable "
        "sort, and C21_signs_and_cells_any_argsort proves the same outcome for every permutation.")
    technique = ("Coq proof (list induction, permutation/sortedness lemmas for the double argsort, "
                 "div/mod uniqueness for the Kronecker expansion) + vm_compute execution correspondence "
                 "on real grids")
    rule = ("random grid recipes: CartGrid 1-3-D, TensorGrid 1-3-D, StructuredTriangleGrid, "
            "StructuredTetrahedralGrid, PointGrid, subdomains of pp.meshing.cart_grid md-grids "
            "with 1-3 axis-aligned fractures (2-D and 3-D hosts; host, fracture and intersection "
            "grids), pp.partition.extract_subgrid of any of these on random cell subsets "
            "(connected or not); hand-built polygonal two-cell grids (public constructor) whose cells share "
            "128..300 faces; HISTORIES on one grid object: all queries, then an in-place change of the "
            "incidence (sign flips of one-cell faces in the same matrix object; replacement of nodes / "
            "face_nodes / cell_faces by a bigger grid's followed by the documented tag update calls; a "
            "real pp.propagate_fracture step on a small 2-D md-grid, host or fracture grid), then all "
            "queries again, every round judged against the incidence held at that time (shapes "
            "included); about 2/3 of the grids are re-created through the public constructor "
            "pp.Grid(dim, nodes, face_nodes, cell_faces, name) from copies of their matrices with "
            "cell_faces as csr (sorted, or built from shuffled coo with reversed in-row order) and/or "
            "face_nodes as csr (tags then passed as external_tags), with randomly permuted node / face / "
            "cell numbering, or with other value dtypes (float64/float32/int8 signs, bool/float/int32 "
            "node incidences), and every query plus the "
            "as-constructed tags are taken from the rebuilt grid; face lists for signs_and_cells: random permuted subsets of the "
            "one-cell faces, with streams for empty lists, duplicates and lists containing an "
            "internal face (ValueError), negative (wrapping) face numbers and numbers out of range "
            "(IndexError); set_periodic_map with valid maps, a face number equal to / above num_faces, "
            "negative numbers, empty maps, 1 or 3 rows, internal faces, with the state after a failed "
            "call and an aliasing probe on the passed array; divergence dims from {-1,0,1,2,3}; non-trivial = grid "
            "with at least one internal face; distinct by (case, output)")
    trusted = ["scipy.sparse semantics as modelled on stored-entry lists (see level_note)",
               "integer-valued incidence data (+-1) stand for the int64/float matrices"]
    assumptions = ["cell_faces / face_nodes have no duplicate stored coordinates",
                   "set_periodic_map: the argument is a 2-D integer array (rows of face numbers)"]

    def __init__(self):
        self.stats = {}

    # ------------------------------------------------------------------ generator
    def _recipe(self, rng, big):
        r = rng.random()
        m = 5 if big else 3
        if r < 0.08:
            return {"kind": "cart", "dims": [rng.randint(1, 3 * m)]}
        if r < 0.20:
            return {"kind": "cart", "dims": [rng.randint(1, m + 1), rng.randint(1, m)]}
        if r < 0.28:
            return {"kind": "cart", "dims": [rng.randint(1, 3), rng.randint(1, 3), rng.randint(1, 2 + big)]}
        if r < 0.38:
            nd = rng.choice([1, 2, 2, 3])
            coords = []
            for _ in range(nd):
                n = rng.randint(1, 3 if nd == 3 else 4)
                xs = [0.0]
                for _ in range(n):
                    xs.append(xs[-1] + rng.choice([0.5, 1.0, 1.5, 2.0]))
                coords.append(xs)
            return {"kind": "tensor", "coords": coords}
        if r < 0.50:
            return {"kind": "tri", "dims": [rng.randint(1, m), rng.randint(1, m)]}
        if r < 0.57:
            return {"kind": "tet", "dims": [rng.randint(1, 2), rng.randint(1, 2), rng.randint(1, 2)]}
        if r < 0.60:
            return {"kind": "point"}
        if r < 0.85:
            nx, ny = rng.randint(2, m + 1), rng.randint(2, m + 1)
            fr = []
            used = set()  # no two fractures on the same line (overlapping collinear input is invalid)
            for _ in range(rng.choice([1, 1, 2, 2, 3])):
                if rng.random() < 0.5:
                    y = rng.randint(0, ny)  # may lie on the domain boundary
                    if ("h", y) in used:
                        continue
                    used.add(("h", y))
                    a, b = sorted(rng.sample(range(0, nx + 1), 2))
                    fr.append([[a, b], [y, y]])
                else:
                    x = rng.randint(0, nx)
                    if ("v", x) in used:
                        continue
                    used.add(("v", x))
                    a, b = sorted(rng.sample(range(0, ny + 1), 2))
                    fr.append([[x, x], [a, b]])
            return {"kind": "md", "dims": [nx, ny], "fracs": fr, "pick": rng.randint(0, 7)}
        # 3-D host with 1-2 axis-aligned rectangular fractures
        nx, ny, nz = rng.randint(2, 3), rng.randint(2, 3), rng.randint(2, 3)
        fr = []
        used = set()  # no two fractures in the same plane
        for _ in range(rng.choice([1, 2])):
            ax = rng.randint(0, 2)
            n = [nx, ny, nz]
            lev = rng.randint(1, n[ax] - 1)
            if (ax, lev) in used:
                continue
            used.add((ax, lev))
            o = [i for i in range(3) if i != ax]
            a0, a1 = sorted(rng.sample(range(0, n[o[0]] + 1), 2))
            b0, b1 = sorted(rng.sample(range(0, n[o[1]] + 1), 2))
            pts = [[0] * 4 for _ in range(3)]
            pts[ax] = [lev] * 4
            pts[o[0]] = [a0, a1, a1, a0]
            pts[o[1]] = [b0, b0, b1, b1]
            fr.append(pts)
        return {"kind": "md", "dims": [nx, ny, nz], "fracs": fr, "pick": rng.randint(0, 5)}

    def generate(self, rng, n, tier):
        big = tier != "quick"
        for i in range(n):
            rec = self._recipe(rng, big)
            hist = rng.choice(["none", "none", "flip", "flip", "grow", "flip_grow"])
            r0 = rng.random()
            if r0 < 0.06:
                # two cells sharing very many faces (counts beyond 127 and 255)
                k = rng.choice([128, 130, 200, 255, 256, 300])
                rec = {"kind": "poly2", "k": k, "flip": sorted(rng.sample(range(k), rng.randint(0, 5)))}
                hist = rng.choice(["none", "flip"])
            elif r0 < 0.16:
                # real in-place topology change: one fracture of a 2-D md-grid propagates by one face
                nx, ny = rng.randint(3, 5), rng.randint(2, 3)
                y = rng.randint(1, ny - 1)
                a = rng.randint(0, nx - 2)
                b = rng.randint(a + 1, nx - 1)
                rec = {"kind": "md_prop", "dims": [nx, ny], "frac": [a, b, y], "pick": rng.randint(0, 1)}
                hist = "propagate"
            if rng.random() < 0.25 and rec["kind"] not in ("point", "poly2", "md_prop"):
                k = rng.randint(1, 6)
                rec = {"kind": "sub", "base": rec, "cells": [rng.randint(0, 10 ** 6) for _ in range(k)]}
            mode = rng.choice(["subset", "subset", "subset", "all", "empty", "dup", "internal", "internal",
                               "negwrap", "negwrap", "oob", "oob_internal"])
            pmode = rng.choice(["valid", "valid", "valid", "nf", "too_big", "negative", "empty",
                                "rows1", "rows3", "internal"])
            storage = rng.choice(["asis"] * 6 + ["cf_csr"] * 5 + ["cf_csr_unsorted"] * 3
                                 + ["fn_csr_exttags"] * 2 + ["both_csr_exttags"] * 2
                                 + ["renumber"] * 4 + ["dtypes"] * 3)
            yield {"grid": rec, "faces_mode": mode, "faces_seed": rng.randint(0, 2 ** 30),
                   "ddim": rng.choice([1, 1, 2, 2, 3, 3, 0, -1]) if rec["kind"] != "poly2"
                           else rng.choice([1, 1, 2, 0]),
                   "storage": storage if rec["kind"] != "md_prop" else "asis",
                   "pm_mode": pmode, "history": hist,
                   "grow_dims": [rng.randint(2, 3) for _ in range(3)]}

    # ------------------------------------------------------------------ implementation
    def _faces(self, case, g):
        import random as _r
        rng = _r.Random(case["faces_seed"])
        cnt = np.bincount(sps.coo_matrix(g.cell_faces).row, minlength=g.num_faces)
        one = [int(f) for f in np.where(cnt == 1)[0]]
        two = [int(f) for f in np.where(cnt == 2)[0]]
        mode = case["faces_mode"]
        if mode == "empty" or not one:
            return []
        if mode == "all":
            fs = list(one)
        else:
            fs = rng.sample(one, rng.randint(1, len(one)))
        if mode == "dup":
            fs = fs + [rng.choice(fs) for _ in range(rng.randint(1, 3))]
        if mode in ("internal", "oob_internal") and two:
            fs = fs + [rng.choice(two)]
        if mode == "negwrap":   # numpy wraps negative row numbers
            fs = [f - g.num_faces if rng.random() < 0.5 else f for f in fs]
        if mode in ("oob", "oob_internal"):
            fs = fs + [rng.choice([g.num_faces, g.num_faces + 3, -g.num_faces - 1])]
        rng.shuffle(fs)
        return fs

    def _pm(self, case, g):
        """Argument of set_periodic_map as a list of rows."""
        import random as _r
        rng = _r.Random(case["faces_seed"] + 17)
        nf = g.num_faces
        mode = case.get("pm_mode", "valid")
        cnt = np.bincount(sps.coo_matrix(g.cell_faces).row, minlength=nf)
        one = [int(f) for f in np.where(cnt == 1)[0]]
        pool = one if (mode != "internal" and len(one) >= 2) else list(range(nf))
        if nf < 2:
            return [[], []] if mode != "rows1" else [[]]
        k = rng.randint(1, max(1, min(3, len(pool) // 2)))
        pick = rng.sample(pool, 2 * k) if len(pool) >= 2 * k else [rng.choice(pool) for _ in range(2 * k)]
        rows = [pick[:k], pick[k:]]
        if mode == "nf":
            rows[rng.randint(0, 1)][rng.randint(0, k - 1)] = nf
        elif mode == "too_big":
            rows[rng.randint(0, 1)][rng.randint(0, k - 1)] = nf + rng.randint(1, 4)
        elif mode == "negative":
            rows[rng.randint(0, 1)][rng.randint(0, k - 1)] = -rng.randint(1, 3)
        elif mode == "empty":
            rows = [[], []]
        elif mode == "rows1":
            rows = [rows[0] + rows[1]]
        elif mode == "rows3":
            rows = rows + [list(rows[0])]
        return rows

    def run_impl(self, case):
        """One grid OBJECT, queried, modified in place, queried again (history); every round is
        judged against the incidence the object holds at that time."""
        rec = case["grid"]
        step = None
        if rec["kind"] == "md_prop":
            a, b, y = rec["frac"]
            mdg = pp.meshing.cart_grid([np.array([[a, b], [y, y]], dtype=float)], np.array(rec["dims"]))
            host, frac = mdg.subdomains(dim=2)[0], mdg.subdomains(dim=1)[0]
            g = host if rec["pick"] == 0 else frac

            def step():
                fc = host.face_centers
                cand = np.where((np.abs(fc[1] - y) < 1e-10) & (np.abs(fc[0] - (b + 0.5)) < 1e-10))[0]
                assert cand.size == 1
                pp.propagate_fracture.propagate_fractures(mdg, {frac: cand})
        else:
            g = rebuild(build(rec), case.get("storage", "asis"), case["faces_seed"])
        st = "storage_" + case.get("storage", "asis")
        self.stats[st] = self.stats.get(st, 0) + 1
        out = self._query(g, case, 0)
        out["later"] = []
        hist = case.get("history", "none")
        self.stats["hist_" + hist] = self.stats.get("hist_" + hist, 0) + 1
        steps = {"none": [], "flip": ["flip"], "grow": ["grow"], "flip_grow": ["flip", "grow"],
                 "propagate": ["propagate"]}[hist]
        for n, kind in enumerate(steps):
            if kind == "flip":
                # re-orient some one-cell faces IN PLACE (same matrix object, same sizes)
                cfm = g.cell_faces
                coo = sps.coo_matrix(cfm)
                cnt = np.bincount(coo.row, minlength=g.num_faces)
                one = np.where(cnt == 1)[0]
                if one.size == 0:
                    continue
                pick = one[:: max(1, one.size // 3)]
                if isinstance(cfm, sps.csc_matrix):
                    mask = np.isin(cfm.indices, pick)
                else:   # csr: data positions of the rows
                    mask = np.isin(np.repeat(np.arange(cfm.shape[0]), np.diff(cfm.indptr)), pick)
                cfm.data[mask] *= -1
                if hasattr(g, "face_normals") and g.face_normals.shape[1] == g.num_faces:
                    g.face_normals[:, pick] *= -1
            elif kind == "grow":
                # in-place replacement of the topology by that of a bigger grid, followed by the
                # documented update calls
                if g.dim == 0:
                    continue
                g2 = pp.CartGrid(np.array(case["grow_dims"][:g.dim]) + np.array(
                    [1, 0, 0][:g.dim]) * int(g.num_cells))
                g.nodes, g.face_nodes, g.cell_faces = g2.nodes, g2.face_nodes, g2.cell_faces
                g.num_nodes, g.num_faces, g.num_cells = g2.num_nodes, g2.num_faces, g2.num_cells
                g.tags = {}
                g.initiate_face_tags()
                g.update_boundary_face_tag()
                g.initiate_node_tags()
                g.update_boundary_node_tag()
            elif kind == "propagate":
                step()
            out["later"].append(self._query(g, case, n + 1))
        return out

    def _query(self, g, case, rnd):
        case = dict(case, faces_seed=case["faces_seed"] + 7919 * rnd)
        faces = self._faces(case, g)
        cf = _coo(g.cell_faces)
        fn = _coo(g.face_nodes)
        out = {"dimg": int(g.dim), "nf": int(g.num_faces), "nc": int(g.num_cells),
               "nn": int(g.num_nodes), "cf": cf, "fn": fn, "faces": faces, "round": rnd}
        d = g.cell_faces_as_dense()
        out["shapes"] = {"dense": list(d.shape)}
        out["dense"] = [[int(x) for x in d[0]], [int(x) for x in d[1]]]
        c2c = g.cell_connection_map()
        out["shapes"]["conn"] = list(c2c.shape)
        out["conn"] = [list(p) for p in _true_coords(c2c)]
        try:
            s, c = g.signs_and_cells_of_boundary_faces(np.array(faces, dtype=int))
            assert all(float(int(x)) == float(x) for x in s)
            out["sc"] = ["ok", [int(x) for x in s], [int(x) for x in c]]
        except ValueError:
            out["sc"] = ["err", "ValueErr"]
        except IndexError:
            out["sc"] = ["err", "IndexErr"]
        cn = g.cell_nodes()
        out["shapes"]["cn"] = list(cn.shape)
        out["cn"] = [list(p) for p in _true_coords(cn)]
        try:
            dv = g.divergence(case["ddim"])
            out["shapes"]["div"] = list(dv.shape)
            co = sps.coo_matrix(dv)
            assert all(float(int(v)) == float(v) for v in co.data)
            out["div"] = ["ok", sorted([int(r), int(cc), int(v)]
                                       for r, cc, v in zip(co.row, co.col, co.data) if v != 0)]
            out["div_stored"] = int(co.nnz)
        except ValueError:
            out["div"] = ["err", "ValueErr"]
        # tags as constructed (or as left by the documented update calls of the history step),
        # then the recomputed domain-boundary tag; the grid's tags are restored afterwards
        saved = {k: np.array(v, copy=True) for k, v in g.tags.items()}
        t = g.tags
        out["tag_all0"] = [bool(x) for x in (t["domain_boundary_faces"] | t["fracture_faces"]
                                              | t["tip_faces"])]
        out["bf_all0"] = [int(x) for x in g.get_all_boundary_faces()]
        g.update_boundary_face_tag()
        out["tag"] = [bool(x) for x in g.tags["domain_boundary_faces"]]
        out["bf"] = [int(x) for x in g.get_boundary_faces()]
        # set_periodic_map on the recomputed tags; state after the call (also after a failure)
        pm = self._pm(case, g)
        out["pm"] = pm
        if hasattr(g, "periodic_face_map"):
            del g.periodic_face_map
        arr = np.array(pm, dtype=int).reshape(len(pm), -1)
        try:
            g.set_periodic_map(arr)
            out["per"] = ["ok"]
        except ValueError:
            out["per"] = ["err", "ValueErr"]
        except IndexError:
            out["per"] = ["err", "IndexErr"]
        out["per_tag"] = [bool(x) for x in g.tags["domain_boundary_faces"]]
        out["per_assigned"] = bool(hasattr(g, "periodic_face_map"))
        arr[:] = 0   # aliasing probe: the tags must not depend on the caller's array afterwards
        assert out["per_tag"] == [bool(x) for x in g.tags["domain_boundary_faces"]]
        if hasattr(g, "periodic_face_map"):
            del g.periodic_face_map
        g.tags = saved
        self.stats["per_" + "_".join(out["per"])] = self.stats.get("per_" + "_".join(out["per"]), 0) + 1
        k = case["grid"]["kind"]
        self.stats[k] = self.stats.get(k, 0) + 1
        self.stats["sc_" + out["sc"][0]] = self.stats.get("sc_" + out["sc"][0], 0) + 1
        self.stats["div_" + out["div"][0]] = self.stats.get("div_" + out["div"][0], 0) + 1
        self.stats[f"dim{g.dim}"] = self.stats.get(f"dim{g.dim}", 0) + 1
        return out

    # ------------------------------------------------------------------ oracle
    def oracle(self, case, res):
        for r in [res] + list(res.get("later", [])):
            why = self._oracle_round(case, r)
            if why:
                return why if r["round"] == 0 else f"after history step {r['round']}: {why}"
        return None

    def _oracle_round(self, case, res):
        nf, nc, nn = res["nf"], res["nc"], res["nn"]
        d = case["ddim"]
        exp = {"dense": [2, nf], "conn": [nc, nc], "cn": [nn, nc]}
        if d >= 1:
            exp["div"] = [nc * d, nf * d]
        for k, v in exp.items():
            if res["shapes"].get(k) != v:
                return f"{k}: shape {res['shapes'].get(k)} but the grid has {nf} faces, {nc} cells, {nn} nodes"
        CF = np.zeros((nf, nc), dtype=int)
        for f, c, v in res["cf"]:
            CF[f, c] += v
        FN = np.zeros((nn, nf), dtype=int)
        for n_, f, v in res["fn"]:
            FN[n_, f] += v
        A = np.abs(CF)
        ncell = (A != 0).sum(axis=1) if nf else np.zeros(0, dtype=int)
        # dense face-cell array
        for f in range(nf):
            pos = [c for c in range(nc) if CF[f, c] > 0]
            neg = [c for c in range(nc) if CF[f, c] < 0]
            if len(pos) <= 1 and res["dense"][0][f] != (pos[0] if pos else -1):
                return f"cell_faces_as_dense row 0, face {f}: {res['dense'][0][f]}, incidence says {pos}"
            if len(neg) <= 1 and res["dense"][1][f] != (neg[0] if neg else -1):
                return f"cell_faces_as_dense row 1, face {f}: {res['dense'][1][f]}, incidence says {neg}"
        # connection map
        C = np.zeros((nc, nc), dtype=bool)
        for i, j in res["conn"]:
            C[i, j] = True
        if not np.array_equal(C, C.T):
            return "cell_connection_map is not symmetric"
        share = (A.T @ A) > 0 if nf else np.zeros((nc, nc), dtype=bool)
        if not np.array_equal(C, share):
            i, j = np.argwhere(C != share)[0]
            return f"cell_connection_map[{i},{j}]={C[i, j]} but cells share a face: {share[i, j]}"
        # boundary tags
        one = [bool(x == 1) for x in ncell]
        if res["dimg"] > 0:
            if res["tag"] != one:
                f = [a != b for a, b in zip(res["tag"], one)].index(True)
                return f"update_boundary_face_tag: face {f} tagged {res['tag'][f]}, adjacent cells {ncell[f]}"
            if res["bf"] != [f for f in range(nf) if one[f]]:
                return "get_boundary_faces differs from the faces with one adjacent cell"
            if res["tag_all0"] != one:
                f = [a != b for a, b in zip(res["tag_all0"], one)].index(True)
                return (f"as-constructed boundary tags (domain|fracture|tip): face {f} tagged "
                        f"{res['tag_all0'][f]}, adjacent cells {ncell[f]}")
            if res["bf_all0"] != [f for f in range(nf) if one[f]]:
                return "get_all_boundary_faces differs from the faces with one adjacent cell"
        elif any(res["tag"]):
            return "0-d grid has a domain boundary face"
        # signs and cells (numpy row indexing: -nf <= f < 0 wraps; anything else out of range)
        faces = res["faces"]
        if any(not (-nf <= f < nf) for f in faces):
            if res["sc"][0] == "ok":
                return "signs_and_cells_of_boundary_faces accepted a face number out of range"
        else:
            faces = [f + nf if f < 0 else f for f in faces]
            if all(ncell[f] == 1 for f in faces):
                if res["sc"][0] != "ok":
                    return "signs_and_cells_of_boundary_faces raised on boundary faces"
                for k, f in enumerate(faces):
                    c = int(np.nonzero(CF[f])[0][0])
                    if res["sc"][2][k] != c or res["sc"][1][k] != CF[f, c]:
                        return (f"signs_and_cells: face {f} -> (sign {res['sc'][1][k]}, cell "
                                f"{res['sc'][2][k]}), incidence says ({CF[f, c]}, {c})")
            elif all(ncell[f] >= 1 for f in faces) and res["sc"][0] != "err":
                return "signs_and_cells_of_boundary_faces accepted an internal face"
        # periodic map: a valid map (2 non-empty rows of face numbers) clears exactly the listed
        # faces; an invalid one is rejected with ValueError and leaves the grid as it was
        pm = res["pm"]
        flat = [i for r in pm for i in r]
        valid = len(pm) == 2 and len(flat) > 0 and all(0 <= i < nf for i in flat)
        if valid:
            exp = [res["tag"][f] and f not in flat for f in range(nf)]
            if res["per"] != ["ok"] or res["per_tag"] != exp or not res["per_assigned"]:
                return f"set_periodic_map: valid map {pm} -> {res['per']}, tags {res['per_tag']}, expected {exp}"
        else:
            if res["per"] != ["err", "ValueErr"]:
                return f"set_periodic_map: invalid map {pm} (num_faces {nf}) -> {res['per']} instead of ValueError"
            if res["per_tag"] != res["tag"] or res["per_assigned"]:
                return f"set_periodic_map: rejected map {pm} changed the grid (periodic_face_map assigned: {res['per_assigned']})"
        # cell nodes
        CN = np.zeros((nn, nc), dtype=bool)
        for n_, c in res["cn"]:
            CN[n_, c] = True
        ref = (FN @ A) > 0 if nf else np.zeros((nn, nc), dtype=bool)
        if not np.array_equal(CN, ref):
            n_, c = np.argwhere(CN != ref)[0]
            return f"cell_nodes[{n_},{c}]={CN[n_, c]}, incidence says {ref[n_, c]}"
        # divergence
        d = case["ddim"]
        if d < 1:
            if res["div"][0] != "err":
                return f"divergence({d}) did not raise"
        else:
            if res["div"][0] != "ok":
                return f"divergence({d}) raised"
            D = np.zeros((nc * d, nf * d), dtype=int)
            for r, c, v in res["div"][1]:
                D[r, c] += v
            for k in range(d):
                for l in range(d):
                    blk = D[k::d, l::d]
                    exp = CF.T if k == l else np.zeros((nc, nf), dtype=int)
                    if not np.array_equal(blk, exp):
                        return f"divergence({d}): component block ({k},{l}) is not " + \
                               ("the transposed incidence" if k == l else "zero")
        return None

    # ------------------------------------------------------------------ Coq tie
    def coq_case(self, case, res):
        terms = [self._coq_round(case, r) for r in [res] + list(res.get("later", []))]
        t = terms[0]
        for x in terms[1:]:
            t = f"andb ({t}) ({x})"
        return t

    def _coq_round(self, case, res):
        nf = res["nf"]
        sc = res["sc"]
        faces = res["faces"]
        inr = all(-nf <= f < nf for f in faces)
        # the original model has no index handling: it gets the wrapped face numbers (same
        # outcome in numpy) or, for out-of-range lists, nothing; the extension model gets the
        # list as passed
        faces1 = [f + nf if f < 0 else f for f in faces] if inr else []
        if not inr:
            o_sc = "(ScOk [] [])"
        else:
            o_sc = f"(ScOk {clist(sc[1], zi)} {clist(sc[2], zi)})" if sc[0] == "ok" else "ScErr"
        o_sc2 = (f"(Sc2Ok {clist(sc[1], zi)} {clist(sc[2], zi)})" if sc[0] == "ok"
                 else ("Sc2ValueErr" if sc[1] == "ValueErr" else "Sc2IndexErr"))
        dv = res["div"]
        o_div = f"(DivOk {clist(dv[1], _ent)})" if dv[0] == "ok" else "DivErr"
        ag = "agree_poly" if case["grid"]["kind"] == "poly2" else "agree"
        term = (f"{ag} {zi(res['dimg'])} {cnat(nf)} {cnat(res['nc'])} cf "
                f"{clist(res['fn'], _ent)} {clist(faces1, zi)} {zi(case['ddim'])} "
                f"({clist(res['dense'][0], zi)}, {clist(res['dense'][1], zi)}) "
                f"{clist(res['conn'], _pair)} {clist(res['tag'], cbool)} {o_sc} "
                f"{clist(res['cn'], _pair)} {o_div}")
        term = f"andb ({term}) (agree_idx {cnat(nf)} cf {clist(faces, zi)} {o_sc2})"
        per = res["per"]
        o_per = (f"(PerOk {clist(res['per_tag'], cbool)})" if per[0] == "ok"
                 else ("PerValueErr" if per[1] == "ValueErr" else "PerIndexErr"))
        pm = clist(res["pm"], lambda r: clist(r, zi))
        term = (f"andb ({term}) (agree_per {clist(res['tag'], cbool)} {cnat(nf)} {pm} {o_per} "
                f"{cbool(res['per_assigned'])})")
        if res["dimg"] > 0:
            # the hypothesis of the theorems holds on this real incidence
            term = f"andb (wf_b {cnat(nf)} {cnat(res['nc'])} cf) ({term})"
        return f"(let cf : list ent := {clist(res['cf'], _ent)} in {term})"

    def coq_diag(self, case, res):
        cf = clist(res["cf"], _ent)
        return (f"let cf : list ent := {cf} in "
                f"(dense {cnat(res['nf'])} cf, bnd_tag {zi(res['dimg'])} {cnat(res['nf'])} cf, "
                f"signs_cells cf {clist(res['faces'], zi)}, divergence cf {zi(case['ddim'])}, "
                f"wf_b {cnat(res['nf'])} {cnat(res['nc'])} cf)")

    def nontrivial(self, case, res):
        return any(res["dense"][0][f] >= 0 and res["dense"][1][f] >= 0 for f in range(res["nf"]))

    def finding_key(self, case, res, why):
        return "connectivity-query-mismatch:" + why.split(":")[0].split(" ")[0]

    def describe(self, case):
        return case

    def extra_evidence(self):
        return {"input_distribution": dict(sorted(self.stats.items()))}


PROP = C21()
