"""C47 — fracture networks (csv) and named data arrays (txt) survive a write + read."""
import math
import os
import struct
import warnings
from pathlib import Path

import numpy as np

from harness import core
from harness.core import Prop, cz, cnat, clist, cbool

import porepy as pp
from porepy.utils.txt_io import TxtData, export_data_to_txt, read_data_from_txt

TMP = os.path.join(core.VERIF, ".cache", "tmp", "C47")

#: formats offered to TxtData; index = the model's format id.  0 is the library default.
FMTS = ["%2.2e", "%.17e", "%.17g", "%5.3e", "%.3f", "%s"]


# ------------------------------------------------------------------------------------------
# literals
# ------------------------------------------------------------------------------------------
def enc(v):
    """Injective integer code of a binary64 value (the models only compare values):
    even = small dyadic value in units of 2^-10, odd = raw bit pattern."""
    v = float(v)
    w = v * 1024.0
    if v == v and abs(w) < 2 ** 40 and w == int(w) and not (v == 0 and math.copysign(1, v) < 0):
        return 2 * int(w)
    return 2 * struct.unpack("<q", struct.pack("<d", v))[0] + 1


def cstr(s):
    return clist([ord(c) for c in s], cz)


def cpt(p):
    return "(" + ", ".join(cz(enc(x)) for x in p) + ")"


def cres(r, f):
    return f"(Err {r})" if isinstance(r, str) else f"(Ok {f(r)})"


def lines_of(text):
    parts = text.split("\n")
    out = [p + "\n" for p in parts[:-1]]
    if parts[-1]:
        out.append(parts[-1])
    return out


def csv_rows(text):
    """The rows of fields csv.reader / genfromtxt see (the writer never quotes numbers)."""
    return [ln.rstrip("\r\n").split(",") for ln in lines_of(text)]


def tmpfile(ext):
    os.makedirs(TMP, exist_ok=True)
    return Path(TMP) / f"c47_{os.getpid()}.{ext}"


def is_float(tok):
    try:
        float(tok)
        return True
    except ValueError:
        return False


# ------------------------------------------------------------------------------------------
# generators
# ------------------------------------------------------------------------------------------
NAME_CHARS = "abcxyzPQ_019.-[]#%"


def gen_name(rng, first):
    n = rng.choice([1, 1, 2, 3, 5, 8])
    s = "".join(rng.choice(NAME_CHARS) for _ in range(n))
    if rng.random() < 0.4:
        s = rng.choice(["p", "flux", "cell_diameter", "error_var_0", "a_b_c", "_"]) + s[:1]
    if first and s.startswith("#") and rng.random() < 0.9:
        s = "v" + s
    return s


def representable(fmt, v):
    try:
        return float(fmt % v) == v
    except (ValueError, TypeError):
        return False


def gen_value(rng, fmt):
    """A value the chosen format represents exactly (mostly)."""
    r = rng.random()
    if fmt in ("%.17e", "%.17g", "%s"):
        if r < 0.25:
            return rng.choice([0.1, 1 / 3, -2.7e-9, 6.02e23, 1e-300, 123456.789, math.pi, -0.0])
        if r < 0.35:
            return rng.random() * 10 ** rng.randint(-5, 5)
    if fmt == "%.3f":
        return rng.randint(-4000, 4000) / 8.0
    if fmt in ("%2.2e", "%5.3e") and r < 0.1:
        return rng.choice([0.1234567, 1234.5, 1 / 3])      # lossy on purpose
    k = rng.choice([1, 1, 2, 4])
    hi = {1: 999, 2: 199, 4: 39}[k]
    return rng.randint(-hi, hi) / k


def gen_txt(rng, tier):
    r = rng.random()
    ncols = rng.choice([1, 1, 2, 2, 3, 5])
    nrows = rng.choice([1, 1, 2, 3, 4, 7]) if r > 0.06 else 0
    if tier == "thorough" and rng.random() < 0.1:
        nrows = rng.randint(8, 30)
    cols = []
    for j in range(ncols):
        fmt = rng.choice([0, 1, 1, 1, 2, 2, 3, 4, 5])
        vals = [gen_value(rng, FMTS[fmt]) for _ in range(nrows)]
        cols.append({"name": gen_name(rng, j == 0), "fmt": fmt, "vals": vals})
    q = rng.random()
    if q < 0.04 and ncols > 1:
        cols[-1]["name"] = cols[0]["name"]                 # duplicate name
    elif q < 0.08 and ncols > 1:
        cols[-1]["vals"] = cols[-1]["vals"] + [1.0]        # unequal lengths -> ValueError
    elif q < 0.10:
        cols = []                                          # nothing to export
    return {"kind": "txt", "cols": cols}


def gen_csv2(rng, tier):
    nf = rng.choice([0, 1, 1, 2, 3, 4, 6]) if tier == "quick" else rng.choice([0, 1, 2, 3, 5, 9, 14])
    den = rng.choice([1, 2, 4, 16])
    pool = []
    while len(pool) < max(2, nf + 1):
        p = [rng.randint(-20, 20) / den, rng.randint(-20, 20) / den]
        if p not in pool:
            pool.append(p)
    fr = []
    for _ in range(nf):
        a, b = rng.sample(pool, 2)
        fr.append([a, b])
    # small length scales: the whole network times an exact power of two
    k = rng.choice([0, 0, 0, 3, 10, 13, 14, 17, 20])
    sc = 2.0 ** -k
    jmax = min(11, 25 - k)
    if fr and rng.random() < 0.3 and jmax >= 4:
        # one very short fracture (exact dyadic length) next to the long ones; its length
        # stays above the documented merge tolerance (atol 1e-8, rtol 1e-5 of the
        # coordinates) of LineFracture / FractureNetwork2d
        e = 2.0 ** -rng.randint(4, jmax)
        a = rng.choice(pool)
        fr.insert(rng.randrange(len(fr) + 1), [a, [a[0] + e, a[1] + rng.choice([0.0, e, -e])]])
    fr = [[[x * sc for x in p] for p in f] for f in fr]
    with_header = rng.random() < 0.7
    skip = 1 if with_header else 0
    if not with_header and rng.random() < 0.2:
        skip = 1                                           # default reader, first row lost
    return {"kind": "csv2", "fracs": fr, "with_header": with_header, "skip": skip,
            "scale_exp": k, "defaults": with_header and skip == 1 and rng.random() < 0.7}


def gen_csv2p(rng, tier):
    """Polyline file  FID, PT_X, PT_Y  (written by the harness as documented)."""
    k = rng.choice([0, 0, 3, 10, 17, 20])
    sc = 2.0 ** -k
    npoly = rng.choice([1, 2, 3])
    ids = rng.sample(range(0, 12), npoly)
    if rng.random() < 0.6:
        ids.sort()
    pool = []
    while len(pool) < 14:
        p = [rng.randint(-20, 20) / 4 * sc, rng.randint(-20, 20) / 4 * sc]
        if p not in pool:
            pool.append(p)
    rng.shuffle(pool)
    blocks = []
    for fid in ids:
        n = rng.choice([2, 2, 3, 4, 5]) if rng.random() > 0.08 else 1
        pts, pool = pool[:n], pool[n:]
        if blocks and rng.random() < 0.3:
            pts[0] = blocks[-1][-1][1:]          # starts where the previous polyline ended
        blocks.append([[fid] + list(p) for p in pts])
    rows = [r for b in blocks for r in b]
    interleaved = False
    if npoly > 1 and rng.random() < 0.1:
        rows = [r for t in zip(*[b + [None] * 5 for b in blocks]) for r in t if r is not None]
        interleaved = True
    return {"kind": "csv2p", "rows": rows, "interleaved": interleaved, "scale_exp": k}


def gen_csv2t(rng, tier):
    """Straight-line file with one extra integer tag column (read with tagcols=[5])."""
    c = gen_csv2(rng, tier)
    return {"kind": "csv2t", "fracs": c["fracs"], "tags": [rng.randint(0, 9) for _ in c["fracs"]]}


POLY = {  # convex templates, counter-clockwise, integer coordinates
    3: [[0, 0], [4, 0], [1, 3]],
    4: [[0, 0], [4, 0], [4, 2], [0, 2]],
    5: [[0, 0], [4, 0], [6, 3], [3, 6], [-1, 3]],
    6: [[0, 0], [2, -1], [4, 0], [4, 2], [2, 3], [0, 2]],
}
NONCONVEX = [[0, 0], [4, 0], [4, 4], [2, 1], [0, 4]]


def chamfered(e):
    """Convex pentagon: a 4 x 4 square with one corner cut by a very short edge."""
    return [[0, 0], [4, 0], [4, 4 - e], [4 - e, 4], [0, 4]]
FRAMES = [([1, 0, 0], [0, 1, 0]), ([1, 0, 0], [0, 0, 1]), ([0, 1, 0], [0, 0, 1]),
          ([1, 1, 0], [0, 0, 1]), ([1, 0, 1], [0, 1, 0]), ([1, 1, 0], [-1, 1, 2]),
          ([2, 1, 0], [0, 1, 1])]


def gen_csv3(rng, tier):
    nf = rng.choice([0, 1, 1, 2, 3]) if tier == "quick" else rng.choice([0, 1, 2, 4, 7])
    fr = []
    cc_needed = False
    for _ in range(nf):
        if rng.random() < 0.12:
            tpl = NONCONVEX
            cc_needed = True
        elif rng.random() < 0.25:
            tpl = chamfered(2.0 ** -rng.randint(6, 14))
        else:
            tpl = POLY[rng.choice([3, 4, 4, 5, 6])]
        u, v = rng.choice(FRAMES)
        den = rng.choice([1, 2, 4])
        o = [rng.randint(-8, 8) / den for _ in range(3)]
        sc = rng.choice([1, 1, 2]) / den
        pts = [[o[k] + sc * (a * u[k] + b * v[k]) for k in range(3)] for a, b in tpl]
        if rng.random() < 0.5 and tpl is not NONCONVEX:
            rng.shuffle(pts)
        fr.append(pts)
    # small length scales: the whole network (and its domain) times an exact power of two
    k = rng.choice([0, 0, 0, 3, 10, 13, 14, 17, 20])
    sc = 2.0 ** -k
    fr = [[[x * sc for x in p] for p in f] for f in fr]
    dom = None
    if rng.random() < 0.7:
        lo = [sc * float(rng.randint(-40, -20)) / rng.choice([1, 2]) for _ in range(3)]
        hi = [sc * float(rng.randint(20, 40)) / rng.choice([1, 2]) for _ in range(3)]
        dom = lo + hi
    has_domain = dom is not None
    if rng.random() < 0.1:
        has_domain = not has_domain
    cc = True if not cc_needed else (rng.random() < 0.5)
    return {"kind": "csv3", "fracs": fr, "domain": dom, "has_domain": has_domain, "cc": cc,
            "scale_exp": k, "defaults": has_domain and dom is not None and cc}


# ------------------------------------------------------------------------------------------
# running the real code
# ------------------------------------------------------------------------------------------
def run_txt(case):
    path = tmpfile("txt")
    data = [TxtData(c["name"], np.array(c["vals"], dtype=float), FMTS[c["fmt"]])
            for c in case["cols"]]
    try:
        export_data_to_txt(data, path)
    except ValueError as e:
        if "equal length" not in str(e):
            raise
        return {"file": "ValueErr", "back": None}
    except IndexError:
        return {"file": "IndexErr", "back": None}
    with open(path) as f:
        text = f.read()
    try:
        with warnings.catch_warnings():
            warnings.simplefilter("ignore")
            back = read_data_from_txt(path)
        out = [[k, [float(x) for x in np.ravel(v)], list(np.shape(v))] for k, v in back.items()]
    except ValueError:
        out = "ValueErr"
    except TypeError:
        out = "TypeErr"      # not in the model's error enum: the tie and the oracle report it
    finally:
        path.unlink()
    return {"file": text, "back": out}


def run_csv2(case):
    path = tmpfile("csv")
    fr = [pp.LineFracture(np.array(f, dtype=float).T) for f in case["fracs"]]
    net = pp.create_fracture_network(fr) if fr else pp.fracs.fracture_network_2d.FractureNetwork2d()
    res = {"pts": net._pts.T.tolist(), "edges": net._edges[:2].T.tolist()}
    net.to_csv(path, with_header=case["with_header"])
    with open(path, newline="") as f:
        res["file"] = f.read()
    calls = []
    orig = pp.array_operations.uniquify_point_set

    def spy(p, tol=1e-8):
        r = orig(p, tol=tol)
        calls.append([np.array(p).T.tolist(), np.array(r[0]).T.tolist(), [int(i) for i in r[2]]])
        return r

    pp.array_operations.uniquify_point_set = spy
    try:
        with warnings.catch_warnings():
            warnings.simplefilter("ignore")
            if case.get("defaults"):
                # as a user would: no optional argument at all; the ids from a second call
                back = pp.fracture_importer.network_2d_from_csv(path)
                _, ids = pp.fracture_importer.network_2d_from_csv(path, return_frac_id=True)
            else:
                back, ids = pp.fracture_importer.network_2d_from_csv(
                    path, skip_header=case["skip"], return_frac_id=True)
        res["back"] = {"pts": back._pts.T.tolist(), "edges": back._edges[:2].T.tolist(),
                       "ids": [int(i) for i in ids]}
    except ValueError:
        res["back"] = "ValueErr"
    finally:
        pp.array_operations.uniquify_point_set = orig
        path.unlink()
    res["uniq"] = calls[0] if calls else None
    return res


def _spy_uniq(calls):
    orig = pp.array_operations.uniquify_point_set

    def spy(p, tol=1e-8):
        r = orig(p, tol=tol)
        calls.append([np.array(p).T.tolist(), np.array(r[0]).T.tolist(), [int(i) for i in r[2]]])
        return r

    return orig, spy


def run_csv2p(case):
    path = tmpfile("csv")
    text = "# FID,PT_X,PT_Y\n" + "".join(f"{r[0]},{r[1]!r},{r[2]!r}\n" for r in case["rows"])
    with open(path, "w") as f:
        f.write(text)
    calls = []
    orig, spy = _spy_uniq(calls)
    pp.array_operations.uniquify_point_set = spy
    res = {"file": text}
    try:
        with warnings.catch_warnings():
            warnings.simplefilter("ignore")
            back, ids = pp.fracture_importer.network_2d_from_csv(
                path, polyline=True, return_frac_id=True)
        res["back"] = {"pts": back._pts.T.tolist(), "edges": back._edges[:2].T.tolist(),
                       "ids": [int(i) for i in ids]}
    except ValueError:
        res["back"] = "ValueErr"
    finally:
        pp.array_operations.uniquify_point_set = orig
        path.unlink()
    res["uniq"] = calls[0] if calls else None
    return res


def run_csv2t(case):
    path = tmpfile("csv")
    text = "# FID,START_X,START_Y,END_X,END_Y,TAG\n" + "".join(
        f"{i},{a[0]!r},{a[1]!r},{b[0]!r},{b[1]!r},{t}\n"
        for i, ((a, b), t) in enumerate(zip(case["fracs"], case["tags"])))
    with open(path, "w") as f:
        f.write(text)
    try:
        with warnings.catch_warnings():
            warnings.simplefilter("ignore")
            back = pp.fracture_importer.network_2d_from_csv(path, tagcols=[5])
        return {"pts": back._pts.T.tolist(), "edges": back._edges.T.tolist()}
    finally:
        path.unlink()


def oracle_csv2p(case, res):
    rows = case["rows"]
    if case["interleaved"] or not rows:
        return None
    blocks = {}
    for r in rows:
        blocks.setdefault(r[0], []).append(tuple(r[1:]))
    if any(len(b) < 2 for b in blocks.values()):
        return None if res["back"] == "ValueErr" else "a one-point polyline was not rejected"
    back = res["back"]
    if isinstance(back, str):
        return f"reading the polyline file raised {back}"
    exp, eid = [], []
    for fid in sorted(blocks):
        b = blocks[fid]
        for a, c in zip(b, b[1:]):
            exp.append((a, c))
            eid.append(fid)
    got = [(tuple(back["pts"][s]), tuple(back["pts"][e])) for s, e in back["edges"]]
    if got != exp:
        return f"segments read back {got} differ from the polylines' segments {exp}"
    if back["ids"] != eid:
        return f"fracture ids {back['ids']}, expected {eid}"
    return None


def oracle_csv2t(case, res):
    got = [(tuple(res["pts"][e[0]]), tuple(res["pts"][e[1]])) for e in res["edges"]]
    exp = [(tuple(a), tuple(b)) for a, b in case["fracs"]]
    if got != exp:
        return f"fractures read back {got} differ from those in the file {exp}"
    tags = [e[2] if len(e) > 2 else None for e in res["edges"]]
    if case["fracs"] and tags != case["tags"]:
        return f"tags read back {tags}, in the file {case['tags']}"
    return None


def coq_csv2p(case, res):
    rows = csv_rows(res["file"])
    qtab = ctab_parse([t for r in rows[1:] for t in r])
    u = res["uniq"]
    cu = "([], [])" if u is None else f"({clist(u[1], cpt)}, {clist(u[2], cnat)})"
    back = cres(res["back"], lambda b: f"({cnet2(b['pts'], b['edges'])}, {clist(b['ids'], cz)})")
    return f"csv2p_agree {qtab} 1%nat {clist(rows, lambda r: clist(r, cstr))} {cu} {back}"


def run_csv3(case):
    path = tmpfile("csv")
    fr = [pp.PlaneFracture(np.array(f, dtype=float).T) for f in case["fracs"]]
    dom = None
    if case["domain"] is not None:
        d = case["domain"]
        dom = pp.Domain({"xmin": d[0], "ymin": d[1], "zmin": d[2],
                         "xmax": d[3], "ymax": d[4], "zmax": d[5]})
    if fr or dom is not None:
        net = pp.create_fracture_network(fr, dom)
    else:
        net = pp.fracs.fracture_network_3d.FractureNetwork3d()
    res = {"net": [f.pts.T.tolist() for f in net.fractures]}
    net.to_csv(path, domain=dom)
    with open(path, newline="") as f:
        res["file"] = f.read()
    made = []
    orig_init = pp.PlaneFracture.__init__

    def spy_init(self, points, *a, **k):
        p_in = np.array(points, dtype=float).T.tolist()
        try:
            orig_init(self, points, *a, **k)
            made.append([p_in, self.pts.T.tolist(), True])
        except AssertionError:
            made.append([p_in, self.pts.T.tolist(), False])
            raise

    pp.PlaneFracture.__init__ = spy_init
    try:
        if case.get("defaults"):
            back = pp.fracture_importer.network_3d_from_csv(path)   # as a user would
        else:
            back = pp.fracture_importer.network_3d_from_csv(
                path, has_domain=case["has_domain"], check_convexity=case["cc"])
        bb = None
        if back.domain is not None:
            b = back.domain.bounding_box
            bb = [float(b[k]) for k in ("xmin", "ymin", "zmin", "xmax", "ymax", "zmax")]
        res["back"] = {"domain": bb, "net": [f.pts.T.tolist() for f in back.fractures]}
    except AttributeError:
        res["back"] = "AttributeErr"   # not in the model's enum: tie and oracle report it
    except AssertionError:
        res["back"] = "AssertErr"
    except ValueError:
        res["back"] = "ValueErr"
    except IndexError:
        res["back"] = "IndexErr"
    except (StopIteration, RuntimeError) as e:
        if isinstance(e, RuntimeError) and "StopIteration" not in str(e):
            raise
        res["back"] = "StopIter"
    finally:
        pp.PlaneFracture.__init__ = orig_init
        path.unlink()
    res["made"] = made
    return res


# ------------------------------------------------------------------------------------------
# the property evaluated on the implementation's behaviour
# ------------------------------------------------------------------------------------------
PY_WS = [c for c in range(0x110000) if chr(c).isspace()]


def txt_in_domain(case):
    """Inputs for which the round trip is promised: at least one column and one row, equal
    lengths, distinct blank-free ASCII names not starting with '#', every value exactly
    representable in its column's format as one blank-free token without '#'."""
    cols = case["cols"]
    if not cols or len({len(c["vals"]) for c in cols}) != 1 or not cols[0]["vals"]:
        return False
    names = [c["name"] for c in cols]
    if len(set(names)) != len(names):
        return False
    for n in names:
        if not n or any(ch.isspace() or ord(ch) > 126 for ch in n):
            return False
    if names[0][0] == "#":
        return False
    for c in cols:
        f = FMTS[c["fmt"]]
        for v in c["vals"]:
            t = f % v
            if not t or "#" in t or any(ch.isspace() for ch in t) or not representable(f, v):
                return False
    return True


def oracle_txt(case, res):
    if not txt_in_domain(case):
        return None
    if isinstance(res["file"], str) and res["file"] in ("ValueErr", "IndexErr"):
        return f"export of a well-formed table raised {res['file']}"
    back = res["back"]
    if isinstance(back, str):
        return f"reading the exported table raised {back}"
    exp = [(c["name"], c["vals"]) for c in case["cols"]]
    got = {k: (v, shp) for k, v, shp in back}
    if sorted(got) != sorted(n for n, _ in exp):
        return f"names read back {sorted(got)} differ from the names written {sorted(n for n, _ in exp)}"
    for n, vals in exp:
        v, shp = got[n]
        if shp != [len(vals)]:
            return f"array '{n}' of length {len(vals)} came back with shape {shp}"
        if any(not (a == b) for a, b in zip(v, vals)):
            return f"array '{n}' came back as {v}, written {vals}"
    return None


def oracle_csv2(case, res):
    consistent = case["skip"] == (1 if case["with_header"] else 0)
    if not consistent:
        return None
    back = res["back"]
    if isinstance(back, str):
        return f"reading the written network raised {back}"
    got = [frozenset((tuple(back["pts"][s]), tuple(back["pts"][e]))) for s, e in back["edges"]]
    exp = [frozenset((tuple(a), tuple(b))) for a, b in case["fracs"]]
    if got != exp:
        return f"fractures read back {[sorted(g) for g in got]} differ from those written {[sorted(g) for g in exp]}"
    if back["ids"] != list(range(len(exp))):
        return f"fracture ids {back['ids']}"
    return None


def oracle_csv3(case, res):
    consistent = case["has_domain"] == (case["domain"] is not None)
    if not consistent:
        return None
    back = res["back"]
    if back == "AssertErr" and case["cc"] and any(not m[2] for m in res["made"]):
        return None           # the reader's convexity check rejected a non-convex polygon
    if not case["fracs"] and case["domain"] is None:
        return None           # nothing written; the reader refuses an empty network
    if isinstance(back, str):
        return f"reading the written network raised {back}"
    exp = [frozenset(map(tuple, f)) for f in case["fracs"]]
    got = [frozenset(map(tuple, f)) for f in back["net"]]
    if got != exp:
        return f"fractures read back {[sorted(g) for g in got]} differ from those written {[sorted(g) for g in exp]}"
    if (back["domain"] or None) != case["domain"]:
        return f"domain read back {back['domain']}, written {case['domain']}"
    return None


# ------------------------------------------------------------------------------------------
# Coq terms
# ------------------------------------------------------------------------------------------
def ctab_print(vals, fmt):
    seen = {}
    for v in vals:
        seen.setdefault(enc(v), cstr(fmt(v)))
    return clist([f"({cz(k)}, {s})" for k, s in seen.items()])


def ctab_parse(tokens):
    seen = {}
    for t in tokens:
        if t not in seen and is_float(t):
            seen[t] = enc(float(t))
    return clist([f"({cstr(t)}, {cz(v)})" for t, v in seen.items()])


def coq_txt(case, res):
    ptab = clist([f"({cnat(i)}, " + ctab_print([v for c in case["cols"] if c["fmt"] == i
                                                for v in c["vals"]], lambda v: FMTS[i] % v) + ")"
                  for i in sorted({c["fmt"] for c in case["cols"]})])
    data = clist([f"({cstr(c['name'])}, {clist([enc(v) for v in c['vals']], cz)}, {cnat(c['fmt'])})"
                  for c in case["cols"]])
    if res["file"] in ("ValueErr", "IndexErr"):
        return f"txt_agree {ptab} [] {data} (Err {res['file']}) (Err ValueErr)"
    lines = lines_of(res["file"])
    toks = [t for ln in lines[1:] for t in ln.split("#")[0].split()]
    qtab = ctab_parse(toks)
    back = res["back"]
    if back == "TypeErr":
        return "false"       # the model never raises a TypeError
    if not isinstance(back, str) and any(len(shp) != 1 for _, _, shp in back):
        return "false"       # the model's arrays are one-dimensional
    cback = cres(back, lambda b: clist(
        [f"({cstr(k)}, {clist([enc(x) for x in v], cz)})" for k, v, _ in b]))
    return f"txt_agree {ptab} {qtab} {data} (Ok {clist(lines, cstr)}) {cback}"


def cnet2(pts, edges):
    return (f"(mk2 {clist(pts, cpt)} "
            f"{clist([f'({cnat(s)}, {cnat(e)})' for s, e in edges])})")


def coq_csv2(case, res):
    rows = csv_rows(res["file"])
    ptab = ctab_print([x for p in res["pts"] for x in p], lambda v: str(np.float64(v)))
    itab = clist([cstr(str(i)) for i in range(len(res["edges"]))])
    qtab = ctab_parse([t for r in rows[case["skip"]:] for t in r])
    fr = clist([f"({cpt(a)}, {cpt(b)})" for a, b in case["fracs"]])
    u = res["uniq"]
    cu = "([], [])" if u is None else f"({clist(u[1], cpt)}, {clist(u[2], cnat)})"
    back = cres(res["back"], lambda b: f"({cnet2(b['pts'], b['edges'])}, {clist(b['ids'], cz)})")
    return (f"csv2_agree {ptab} {itab} {qtab} {fr} {cnet2(res['pts'], res['edges'])} "
            f"{cbool(case['with_header'])} {cnat(case['skip'])} "
            f"{clist(rows, lambda r: clist(r, cstr))} {cu} {back}")


def cfrac3(f):
    return clist(f, cpt)


def coq_csv3(case, res):
    rows = csv_rows(res["file"])
    vals = [x for f in res["net"] for p in f for x in p]
    ptab = ctab_print(vals + (case["domain"] or []), lambda v: str(np.float64(v)))
    qtab = ctab_parse([t for r in rows for t in r])
    net = clist(res["net"], cfrac3)
    dom = "None" if case["domain"] is None else f"(Some {clist([enc(x) for x in case['domain']], cz)})"
    stab = clist([f"({cfrac3(a)}, ({cfrac3(b)}, {cbool(ok)}))" for a, b, ok in res["made"]])

    def cb(b):
        d = "None" if b["domain"] is None else f"(Some {clist([enc(x) for x in b['domain']], cz)})"
        return f"({d}, {clist(b['net'], cfrac3)})"

    if res["back"] == "AttributeErr":
        return "false"
    return (f"csv3_agree {ptab} {qtab} {net} {dom} {cbool(case['has_domain'])} "
            f"{clist(rows, lambda r: clist(r, cstr))} {stab} {cres(res['back'], cb)}")


class C47(Prop):
    id = "C47"
    props_file = "Props/C47.v"
    preamble = ("From Coq Require Import List ZArith Bool Arith.\nImport ListNotations.\n"
                "From PP Require Import Model.C47.\n")
    n_cases = (150, 3000)
    design_ref = "DESIGN.md §5 C47"
    level_text = (
        "Coq theorems over executable transcriptions of the three file codecs: "
        "(txt) export_data_to_txt followed by read_data_from_txt returns exactly the named "
        "arrays that were written, for any number of columns >= 1 and rows >= 1 (incl. one "
        "column, one row, 1x1) — the header line, the blank-separated rows, the '#'/blank "
        "stripping, str.split and the loadtxt(unpack=True, ndmin=2) shape rules are modelled "
        "character by character; (csv, 2-D) FractureNetwork2d.to_csv followed by "
        "network_2d_from_csv returns the identical point/edge arrays and the ids 0..n-1, for "
        "every list of line fractures, through the point uniquification and the "
        "first-come point numbering of the network constructor; (csv, 3-D) "
        "FractureNetwork3d.to_csv followed by network_3d_from_csv returns, fracture by "
        "fracture and in order, a permutation of the vertices written, and the domain box. "
        "On every run the real functions write real files under .cache/tmp/C47 and Coq "
        "checks that the models produce the very same text and the very same read-back "
        "result.")
    level_note = (
        "Number formatting and parsing (python '%' formatting / str(np.float64), float()) are "
        "parameters print/parse of the models; the round-trip theorems assume "
        "parse(print v) = v for the values written, i.e. values exactly representable in the "
        "chosen format (true for repr / 17 significant digits; NOT for the lossy default "
        "'%2.2e' unless the value has three significant digits) — a stated precondition, "
        "tested per case by the oracle. Names: non-empty, blank-free, distinct, the first not "
        "starting with '#'. 2-D: coordinates of distinct points differ by more than the "
        "tolerances, so 'close' is equality; uniquify_point_set enters through its contract "
        "(every point is mapped to a representative with the same coordinates), checked on "
        "every case. 3-D: sort_points enters as 'returns a permutation', planarity/convexity "
        "checks as an opaque predicate; both are recorded from the real calls and checked. "
        "Tables with zero rows are outside the theorem (numpy reports 'no data'; only the "
        "first name comes back) but inside the tie. Fracture tags and the 2-D domain are not "
        "part of the csv format. Line splitting / csv quoting / encodings are not modelled. "
        "Length scales: the networks are also generated at exact power-of-two scales down to "
        "2^-20 with very short edges and read back with the readers' DEFAULT arguments; the "
        "2-D merge tolerance (atol 1e-8 plus rtol 1e-5 of the coordinates, documented) is a "
        "precondition, edges below it are not generated. The polyline reader is modelled and "
        "tied on harness-written files (one partial theorem: the segments of a single "
        "polyline); tag columns are covered by the oracle only; the elliptic reader has no "
        "writer to round-trip with and is not covered.")
    technique = ("Coq proof (codec round-trip theorems over character-level models) + "
                 "vm_compute execution correspondence on real files")
    rule = ("one third txt tables (1-5 columns, 0-7 rows (thorough: up to 30), six formats "
            "incl. the lossy default, names with underscores/punctuation, duplicate names, "
            "unequal lengths, empty list), one third 2-D networks (0-6 (14) fractures over a "
            "small pool of dyadic points so that end points are shared; with/without header; "
            "default reader on a header-less file), one third 3-D networks (0-3 (7) planar "
            "polygons with 3-6 vertices in 7 plane orientations, shuffled vertices, some "
            "non-convex; with/without domain; mismatching has_domain); 2-D/3-D networks scaled by 2^-k, k in "
            "{0,3,10,13,14,17,20}, short fractures / chamfer edges of exact dyadic length, reads "
            "with default arguments; polyline files (1-3 polylines, ids in any order, shared end "
            "points, one-point polylines, interleaved rows) and straight files with a tag column "
            "written by the harness; non-trivial = at least "
            "one row / fracture; distinct by (case, output)")
    trusted = [
        "python number formatting/parsing as print/parse tables computed by the CPython runtime "
        "per case (the models treat them as opaque functions)",
        "the harness splits file text into lines (txt) and into comma-separated fields (csv); "
        "the blank/comment tokenisation inside a line is the model's",
        "values are compared through an injective integer code of the binary64 value",
    ]
    assumptions = [
        "values exactly representable in the chosen format (parse(print v) = v)",
        "names non-empty, blank-free, pairwise distinct, first name not starting with '#'; ASCII",
        "2-D: distinct end points differ by more than tol=1e-8 and allclose's relative band",
        "3-D: the reader's planarity/convexity check accepts the polygon (else AssertionError)",
    ]

    def generate(self, rng, n, tier):
        for i in range(n):
            k = i % 3
            if k == 0:
                yield gen_txt(rng, tier)
            elif k == 1:
                r = rng.random()
                yield gen_csv2p(rng, tier) if r < 0.2 else gen_csv2t(rng, tier) if r < 0.28 \
                    else gen_csv2(rng, tier)
            else:
                yield gen_csv3(rng, tier)

    def run_impl(self, case):
        return {"txt": run_txt, "csv2": run_csv2, "csv3": run_csv3, "csv2p": run_csv2p,
                "csv2t": run_csv2t}[case["kind"]](case)

    def oracle(self, case, res):
        return {"txt": oracle_txt, "csv2": oracle_csv2, "csv3": oracle_csv3,
                "csv2p": oracle_csv2p, "csv2t": oracle_csv2t}[case["kind"]](case, res)

    def coq_case(self, case, res):
        if case["kind"] == "csv2t":
            return None          # oracle only
        return {"txt": coq_txt, "csv2": coq_csv2, "csv3": coq_csv3,
                "csv2p": coq_csv2p}[case["kind"]](case, res)

    def nontrivial(self, case, res):
        if case["kind"] == "txt":
            return bool(case["cols"]) and bool(case["cols"][0]["vals"])
        if case["kind"] == "csv2p":
            return bool(case["rows"])
        return bool(case["fracs"])

    def finding_key(self, case, res, why):
        if case["kind"] == "txt":
            cols = case["cols"]
            if len(cols) == 1 or (cols and len(cols[0]["vals"]) == 1):
                return "read_data_from_txt: single column / single row"
            return "txt-roundtrip"
        return case["kind"] + "-roundtrip"

    def shrink(self, case, still_fails):
        if case["kind"] == "txt":
            cols = case["cols"]
            for c in list(cols):
                if len(cols) > 1:
                    t = dict(case, cols=[x for x in cols if x is not c])
                    if still_fails(t):
                        cols = t["cols"]
            return dict(case, cols=cols)
        if case["kind"] == "csv2p":
            return case
        fr = list(case["fracs"])
        i = 0
        while i < len(fr) and len(fr) > 1:
            t = dict(case, fracs=fr[:i] + fr[i + 1:])
            if still_fails(t):
                fr = t["fracs"]
            else:
                i += 1
        return dict(case, fracs=fr)

    def extra_evidence(self):
        import re
        src = open(os.path.join(core.COQ, "Model", "C47.v")).read()
        m = re.search(r"Definition ws_codes[^\[]*\[([^\]]*)\]", src)
        codes = [int(x) for x in m.group(1).replace("\n", " ").split(";")]
        return {"whitespace_table_matches_cpython": codes == PY_WS}


PROP = C47()
