"""C46 — SparseNdArray (pp.array_operations) behaves like a dictionary of coordinates."""
import numpy as np

from harness.core import Prop, cz, cnat, cbool, clist

import porepy as pp


def _coord(c):
    return clist(c, cz)


def _op(o, row):
    if o[0] == "add":
        return f"OpAdd {cbool(o[1])} {clist(o[2], _coord)} {clist(o[3][row], cz)}"
    return f"OpGet {clist(o[1], _coord)}"


def _out(o, row):
    if o[0] == "perm":
        return f"(OPerm {clist(o[1], cnat)})"
    if o[0] == "vals":
        return f"(OVals {clist(o[1][row], cz)})"
    return "(OErr ValueErr)"


def _exact_int(x):
    xi = int(round(float(x)))
    assert float(xi) == float(x), f"non-integer value {x!r} in the storage"
    return xi


class C46(Prop):
    id = "C46"
    props_file = "Props/C46.v"
    preamble = ("From Coq Require Import List ZArith Bool.\nImport ListNotations.\n"
                "From PP Require Import Model.C46.\n")
    n_cases = (500, 12000)
    design_ref = "DESIGN.md §5 C46"
    level_text = (
        "Coq theorems over an executable transcription of SparseNdArray.add/get (np.unique "
        "consolidation with unique_2_all / all_2_unique / counts, bincount, last occurrence, "
        "membership lists of intersect_sets, fancy-index update, append): for EVERY history of "
        "additive and overwriting batch insertions (duplicates inside and across batches, any "
        "coordinate dimension, any value monoid) and reads, the value held for every coordinate "
        "and the answer of every read equal those of a plain dictionary processing the same "
        "(coordinate, value) pairs one by one (additive: d[c] += v, overwrite: last occurrence "
        "wins); a read containing a coordinate never inserted answers ValueError; stored "
        "coordinates stay duplicate free.  The model is tied to the code on every run: real "
        "histories are executed and Coq compares every returned permutation vector, every read "
        "and the final _coords/_values arrays with the model.")
    level_note = (
        "Trusted: Coq kernel + vm_compute; harness. KD-tree ball query with tol=1e-10 on integer "
        "coordinates = exact equality; integer-valued floats stand for the values (sums exact; "
        "the code adds stored + (0 + v1 + v2 ..) while a dictionary adds ((stored + v1) + v2): "
        "equal in a monoid, possibly different in the last float bit). Calls with mismatching "
        "lengths / mixed coordinate dimensions / an empty read list are outside the theorem "
        "(numpy/scipy raise). The theorem is about the model; the implementation is covered "
        "on the generated histories only.")
    technique = ("Coq proof (refinement of the COO storage to an association map, invariant: stored "
                 "coordinates duplicate free; induction over histories) + vm_compute execution "
                 "correspondence")
    rule = ("random histories (1-10 ops) of add(additive|overwrite)/get on SparseNdArray(dim 1-3, "
            "value_dim 1-3); coordinates from small integer boxes so that duplicates inside and "
            "across batches are frequent; batches in random (unsorted) order; reads mix inserted "
            "and never-inserted coordinates and repeat coordinates; corner streams: single "
            "coordinate, all-equal batch, duplicate-free reversed batch, empty batch; a final read "
            "of every inserted coordinate; non-trivial = >=2 insertions with a coordinate repeated "
            "across batches and a read; distinct by (case, output)")
    trusted = ["scipy KDTree.query_ball_tree(tol=1e-10) on integer coordinates = exact equality",
               "integer-valued float64 values (exact sums) stand for the value type; one model run "
               "per value row (rows of _values are processed independently by the code)"]
    assumptions = ["len(coords) == len(values) in every add; all coordinates of a history have the "
                   "array's dimension; get is called with at least one coordinate"]

    # ------------------------------------------------------------------ generation
    def generate(self, rng, n, tier):
        maxops = 8 if tier == "quick" else 14
        for _ in range(n):
            dim = rng.choice([1, 1, 2, 2, 3])
            vdim = rng.choice([1, 1, 1, 2, 3])
            lo, hi = rng.choice([(0, 1), (0, 2), (-1, 1), (0, 3), (-2, 2)])
            if dim == 1:
                hi += rng.randint(0, 4)

            def coord():
                return [rng.randint(lo, hi) for _ in range(dim)]

            ops = []
            seen = []
            for _ in range(rng.randint(1, maxops)):
                r = rng.random()
                if r < 0.62:
                    style = rng.random()
                    k = rng.randint(1, 7)
                    if style < 0.08:
                        cs = [coord()] * k
                    elif style < 0.2:
                        # duplicate free, deliberately unsorted
                        pool = []
                        for _ in range(k):
                            c = coord()
                            if c not in pool:
                                pool.append(c)
                        pool.sort(reverse=rng.random() < 0.5)
                        if rng.random() < 0.5:
                            rng.shuffle(pool)
                        cs = pool
                    elif style < 0.24:
                        cs = []
                    elif style < 0.4 and seen:
                        cs = [list(rng.choice(seen)) for _ in range(k)]
                    else:
                        cs = [coord() for _ in range(k)]
                    vals = [[rng.randint(-20, 20) for _ in cs] for _ in range(vdim)]
                    ops.append(["add", rng.random() < 0.5, cs, vals])
                    seen += [c for c in cs if c not in seen]
                else:
                    k = rng.randint(1, 5)
                    p_known = rng.choice([1.0, 1.0, 0.8, 0.5])
                    cs = []
                    for _ in range(k):
                        if seen and rng.random() < p_known:
                            cs.append(list(rng.choice(seen)))
                        else:
                            cs.append(coord())
                    ops.append(["get", cs])
            if seen:
                ops.append(["get", [list(c) for c in seen]])
            yield {"dim": dim, "value_dim": vdim, "ops": ops}

    # ------------------------------------------------------------------ implementation
    def run_impl(self, case):
        dim, vdim = case["dim"], case["value_dim"]
        arr = pp.array_operations.SparseNdArray(dim, value_dim=vdim)
        outs = []
        for o in case["ops"]:
            if o[0] == "add":
                cs = [np.array(c, dtype=int) for c in o[2]]
                vals = np.array(o[3], dtype=float).reshape((vdim, len(cs)))
                if vdim == 1:
                    vals = vals[0]
                perm = arr.add(cs, vals, additive=bool(o[1]))
                outs.append(["perm", [int(i) for i in perm]])
            else:
                cs = [np.array(c, dtype=int) for c in o[1]]
                try:
                    v = arr.get(cs)
                except ValueError as e:
                    if "unassigned coordinate" not in str(e):
                        raise
                    outs.append(["err", "ValueErr"])
                    continue
                v = np.atleast_2d(v)
                outs.append(["vals", [[_exact_int(x) for x in row] for row in v]])
        coords = [[int(x) for x in arr._coords[:, j]] for j in range(arr._coords.shape[1])]
        values = [[_exact_int(x) for x in row] for row in np.atleast_2d(arr._values)]
        return {"outs": outs, "coords": coords, "values": values}

    # ------------------------------------------------------------------ property oracle
    def oracle(self, case, res):
        vdim = case["value_dim"]
        d = {}
        for k, (o, out) in enumerate(zip(case["ops"], res["outs"])):
            if o[0] == "add":
                for j, c in enumerate(o[2]):
                    key = tuple(c)
                    v = [o[3][r][j] for r in range(vdim)]
                    if o[1] and key in d:
                        d[key] = [a + b for a, b in zip(d[key], v)]
                    else:
                        d[key] = v
            else:
                keys = [tuple(c) for c in o[1]]
                if any(key not in d for key in keys):
                    if out[0] != "err":
                        return (f"op {k}: reading never-inserted coordinate "
                                f"{[list(x) for x in keys if x not in d][0]} did not raise")
                else:
                    exp = [[d[key][r] for key in keys] for r in range(vdim)]
                    if out[0] != "vals":
                        return f"op {k}: reading inserted coordinates {o[1]} raised"
                    if out[1] != exp:
                        return (f"op {k}: read of {o[1]} returned {out[1]}, a dictionary "
                                f"holds {exp}")
        return None

    # ------------------------------------------------------------------ tie
    def coq_case(self, case, res):
        terms = []
        for r in range(case["value_dim"]):
            ops = clist(case["ops"], lambda o: _op(o, r))
            outs = clist(res["outs"], lambda o: _out(o, r))
            terms.append(f"agree {ops} {outs} {clist(res['coords'], _coord)} "
                         f"{clist(res['values'][r], cz)}")
        return "(" + " && ".join(terms) + ")"

    def coq_diag(self, case, res):
        return f"run 0%Z Z.add empty {clist(case['ops'], lambda o: _op(o, 0))}"

    def nontrivial(self, case, res):
        adds = [o for o in case["ops"] if o[0] == "add" and o[2]]
        if len(adds) < 2 or not any(o[0] == "get" for o in case["ops"]):
            return False
        seen = set()
        for o in adds:
            cur = {tuple(c) for c in o[2]}
            if cur & seen:
                return True
            seen |= cur
        return False

    def finding_key(self, case, res, why):
        return "dict-mismatch"

    def shrink(self, case, still_fails):
        cur = case
        changed = True
        while changed:
            changed = False
            ops = cur["ops"]
            for i in range(len(ops)):
                c = dict(cur, ops=ops[:i] + ops[i + 1:])
                if c["ops"] and still_fails(c):
                    cur, changed = c, True
                    break
            if changed:
                continue
            for i, o in enumerate(ops):
                if o[0] != "add" or len(o[2]) <= 1:
                    continue
                for j in range(len(o[2])):
                    o2 = ["add", o[1], o[2][:j] + o[2][j + 1:],
                          [row[:j] + row[j + 1:] for row in o[3]]]
                    c = dict(cur, ops=ops[:i] + [o2] + ops[i + 1:])
                    if still_fails(c):
                        cur, changed = c, True
                        break
                if changed:
                    break
        return cur


PROP = C46()
