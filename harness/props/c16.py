"""C16 — TPSA is invariant under rigid translations (certificate tie on the real matrices)."""
import hashlib
import json
from fractions import Fraction

import numpy as np
import scipy.sparse as sps

from harness.core import Prop, cbool, clist

import porepy as pp

KW = "mechanics"
TOL = "(1 # 1000000000)"


def cq(x):
    fr = Fraction(x)
    return f"({fr.numerator} # {fr.denominator})" if fr.numerator >= 0 else f"(({fr.numerator}) # {fr.denominator})"


def cn(n):
    n = int(n)
    assert 0 <= n < 5000
    return f"{n}%nat"


def crow(r):
    return clist(r, lambda e: f"({cn(e[0])}, {cq(e[1])})")


def _gcd(a, b):
    while b:
        a, b = b, a % b
    return a


def exact_left_inverse(A):
    """Exact inverse of a square matrix of Fractions (Gauss-Jordan); returns (N, d), integer N and
    integer d != 0 with N * A = d * I, or None if A is singular."""
    n = len(A)
    M = [list(r) + [Fraction(int(i == j)) for j in range(n)] for i, r in enumerate(A)]
    for c in range(n):
        piv = next((r for r in range(c, n) if M[r][c] != 0), None)
        if piv is None:
            return None
        M[c], M[piv] = M[piv], M[c]
        pv = M[c][c]
        M[c] = [v / pv for v in M[c]]
        for r in range(n):
            if r != c and M[r][c] != 0:
                fac = M[r][c]
                M[r] = [a - fac * b for a, b in zip(M[r], M[c])]
    B = [r[n:] for r in M]
    d = 1
    for r in B:
        for v in r:
            d = (d * v.denominator) // _gcd(d, v.denominator)
    return [[int(v * d) for v in r] for r in B], d


# ------------------------------------------------------------------------------ grids
def mixed_grid(nx, ny, split, pert=None):
    """2-D grid mixing cell types, built with the public pp.Grid constructor: an nx x ny lattice
    of unit quadrilaterals where split[c] = 0 keeps the quadrilateral, 1 / 2 cuts it into two
    triangles along one of its diagonals.  Cells are counter-clockwise node loops; a face keeps the
    direction of the first loop that runs through it (sign +1 there, -1 for the neighbour)."""
    import scipy.sparse as _sps
    nn = (nx + 1) * (ny + 1)
    X = np.zeros((3, nn))
    for j in range(ny + 1):
        for i in range(nx + 1):
            X[0, j * (nx + 1) + i] = i
            X[1, j * (nx + 1) + i] = j
    if pert:
        X[:2] += np.array(pert, dtype=float) / 32.0
    cells = []
    for j in range(ny):
        for i in range(nx):
            n00 = j * (nx + 1) + i
            n10, n01 = n00 + 1, n00 + nx + 1
            n11 = n01 + 1
            s = split[j * nx + i]
            if s == 0:
                cells.append([n00, n10, n11, n01])
            elif s == 1:
                cells += [[n00, n10, n11], [n00, n11, n01]]
            else:
                cells += [[n00, n10, n01], [n10, n11, n01]]
    faces, fn, trip = {}, [], []
    for c, loop in enumerate(cells):
        for a, b in zip(loop, loop[1:] + loop[:1]):
            key = (min(a, b), max(a, b))
            if key not in faces:
                faces[key] = len(fn)
                fn.append((a, b))
                trip.append((faces[key], c, 1))
            else:
                f = faces[key]
                trip.append((f, c, 1 if fn[f] == (a, b) else -1))
    nf = len(fn)
    face_nodes = _sps.csc_matrix((np.ones(2 * nf, dtype=int), np.array(fn).ravel(), 2 * np.arange(nf + 1)),
                                 shape=(nn, nf))
    t = np.array(trip)
    cell_faces = _sps.csc_matrix((t[:, 2], (t[:, 0], t[:, 1])), shape=(nf, len(cells)))
    return pp.Grid(2, X, face_nodes, cell_faces, "MixedTriQuad")


def make_grid(spec):
    kind = spec["kind"]
    if kind == "mixed":
        g = mixed_grid(spec["n"][0], spec["n"][1], spec["split"], spec.get("pert"))
        g.compute_geometry()
        return g
    n = np.array(spec["n"])
    if kind == "cart":
        g = pp.CartGrid(n)
    elif kind == "tri":
        g = pp.StructuredTriangleGrid(n)
    elif kind == "tet":
        g = pp.StructuredTetrahedralGrid(n)
    else:
        raise ValueError(kind)
    if spec.get("pert"):
        # node offsets in units of 1/32 (dyadic, well below half a cell width)
        off = np.array(spec["pert"], dtype=float) / 32.0
        g.nodes = g.nodes.copy()
        g.nodes[: g.dim] += off
    g.compute_geometry()
    return g


def grid_spec(rng, tier):
    big = tier != "quick"
    r = rng.random()
    if r < 0.15:
        # triangles and quadrilaterals in one grid (public pp.Grid constructor)
        nx, ny = rng.choice([[2, 1], [1, 2], [2, 2], [3, 1], [3, 2], [3, 3]])
        split = [rng.choice([0, 1, 2]) for _ in range(nx * ny)]
        split[0], split[-1] = 0, rng.choice([1, 2])
        spec = {"kind": "mixed", "n": [nx, ny], "split": split}
    elif r < 0.35:
        spec = {"kind": "cart", "n": [rng.randint(1, 4), rng.randint(1, 4)]}
    elif r < 0.7:
        spec = {"kind": "tri", "n": [rng.randint(1, 3), rng.randint(1, 3)]}
    elif r < 0.87:
        m = 3 if big else 2
        spec = {"kind": "cart", "n": [rng.randint(1, m), rng.randint(1, m), rng.randint(1, 2)]}
    else:
        spec = {"kind": "tet", "n": [rng.randint(1, 2 if big else 1), rng.randint(1, 2), 1]}
    nd = len(spec["n"])
    if rng.random() < 0.55:
        g = make_grid(spec)
        amp = 6 if nd == 2 else 4
        spec["pert"] = [[rng.randint(-amp, amp) for _ in range(g.num_nodes)] for _ in range(nd)]
    return spec


# ------------------------------------------------------------------------------ implementation
class _Capture:
    """Capture the cell-to-face averaging map built inside Tpsa.discretize (monkey-patch of
    the static helper; no hook in /repo)."""

    def __enter__(self):
        self.orig = pp.Tpsa.__dict__["_create_cell_to_face_maps"]
        fn = self.orig.__func__ if isinstance(self.orig, staticmethod) else self.orig
        self.maps = None

        def wrap(*a, **k):
            self.maps = fn(*a, **k)
            return self.maps

        pp.Tpsa._create_cell_to_face_maps = staticmethod(wrap)
        return self

    def __exit__(self, *a):
        pp.Tpsa._create_cell_to_face_maps = self.orig


def rows_of(m):
    m = sps.csr_matrix(m)
    m.sum_duplicates()
    out = []
    for i in range(m.shape[0]):
        lo, hi = m.indptr[i], m.indptr[i + 1]
        out.append([[int(c), float(v)] for c, v in zip(m.indices[lo:hi], m.data[lo:hi]) if v != 0])
    return out


MATRIX_KEYS = ("stress", "stress_rotation", "stress_total_pressure", "rotation_displacement",
               "rotation_rotation", "solid_mass_displacement", "solid_mass_total_pressure", "bound_stress",
               "bound_rotation_displacement", "bound_mass_displacement", "bound_displacement_cell",
               "bound_displacement_face", "bound_displacement_rotation_cell",
               "bound_displacement_solid_pressure_cell")


def _set_bc_flags(bc, bf, neu):
    bc.is_dir[:, bf] = True
    bc.is_neu[:, bf] = False
    for k, f in neu:
        bc.is_dir[k, f] = False
        bc.is_neu[k, f] = True


def discretize(case):
    """Discretise the case.  With case["history"] (a list of earlier stages {"neu", "mu", "how"})
    ONE pp.Tpsa object, ONE grid and ONE data dictionary go through the earlier stages first; "how"
    says how the parameters are changed from one stage to the next: "bc_inplace" (flags of the same
    bc object), "bc_object" (a new bc object in the same dictionary), "mu_inplace" (the mu array of
    the same tensor), "tensor_object" (a new tensor).  The matrices of the LAST discretisation are
    returned, with the largest deviation from a fresh Tpsa object on fresh data."""
    g = make_grid(case["grid"])
    nd, nc, nf = g.dim, g.num_cells, g.num_faces
    bf = g.get_all_boundary_faces()
    stages = list(case.get("history") or []) + [{"neu": case["neu"], "mu": case["mu"], "how": case.get("how", [])}]
    discr = pp.Tpsa(KW)
    # the same Tpsa object first discretises other grids (each with its own data dictionary)
    for spec0 in case.get("pre_grids") or []:
        g0 = make_grid(spec0)
        bf0 = g0.get_all_boundary_faces()
        bc0 = pp.BoundaryConditionVectorial(g0, bf0, ["dir"] * bf0.size)
        C0 = pp.FourthOrderTensor(float(case["mu"]) * np.ones(g0.num_cells),
                                  float(case["lam"]) * np.ones(g0.num_cells))
        data0 = {pp.PARAMETERS: {KW: {"fourth_order_tensor": C0, "bc": bc0}},
                 pp.DISCRETIZATION_MATRICES: {KW: {}}}
        discr.discretize(g0, data0)
    first = stages[0]
    bc = pp.BoundaryConditionVectorial(g, bf, ["dir"] * bf.size)
    _set_bc_flags(bc, bf, first["neu"])
    C = pp.FourthOrderTensor(float(first["mu"]) * np.ones(nc), float(case["lam"]) * np.ones(nc))
    data = {pp.PARAMETERS: {KW: {"fourth_order_tensor": C, "bc": bc}},
            pp.DISCRETIZATION_MATRICES: {KW: {}}}
    with _Capture() as cap:
        discr.discretize(g, data)
        for st in stages[1:]:
            how = st.get("how") or ["bc_object", "tensor_object"]
            if "bc_inplace" in how:
                _set_bc_flags(bc, bf, st["neu"])
            else:
                bc = pp.BoundaryConditionVectorial(g, bf, ["dir"] * bf.size)
                _set_bc_flags(bc, bf, st["neu"])
                data[pp.PARAMETERS][KW]["bc"] = bc
            if "mu_inplace" in how:
                C.mu[:] = float(st["mu"])
            else:
                C = pp.FourthOrderTensor(float(st["mu"]) * np.ones(nc), float(case["lam"]) * np.ones(nc))
                data[pp.PARAMETERS][KW]["fourth_order_tensor"] = C
            discr.discretize(g, data)
    if cap.maps is None:
        raise RuntimeError("Tpsa.discretize did not build its cell-to-face maps")
    mats = data[pp.DISCRETIZATION_MATRICES][KW]
    hist_diff = 0.0
    if len(stages) > 1 or case.get("pre_grids"):
        g2 = make_grid(case["grid"])
        bc2 = pp.BoundaryConditionVectorial(g2, bf, ["dir"] * bf.size)
        _set_bc_flags(bc2, bf, case["neu"])
        C2 = pp.FourthOrderTensor(float(case["mu"]) * np.ones(nc), float(case["lam"]) * np.ones(nc))
        data2 = {pp.PARAMETERS: {KW: {"fourth_order_tensor": C2, "bc": bc2}},
                 pp.DISCRETIZATION_MATRICES: {KW: {}}}
        pp.Tpsa(KW).discretize(g2, data2)
        fresh = data2[pp.DISCRETIZATION_MATRICES][KW]
        for key in MATRIX_KEYS:
            a, b = sps.csr_matrix(mats[key]), sps.csr_matrix(fresh[key])
            dif = abs(a - b)
            scale = 1.0 + (abs(b).max() if b.nnz else 0.0)
            hist_diff = max(hist_diff, float(dif.max() if dif.nnz else 0.0) / scale)
    return g, bc, C, mats, cap.maps.c2f, hist_diff


class C16(Prop):
    id = "C16"
    props_file = "Props/C16.v"
    preamble = ("From Coq Require Import List ZArith Bool QArith.\nImport ListNotations.\n"
                "From PP Require Import Model.C16.\nLocal Open Scope Q_scope.\n")
    n_cases = (14, 60)
    design_ref = "DESIGN.md §5 C16 (certificate tie K, level P-method)"
    level_text = (
        "METHOD-LEVEL Coq theorems plus per-instance certificate validation (translation "
        "validation), not a proof about the Python code. Theorems (over exact rationals, any row, "
        "any column classification, any translation): a sparse row applied to the translation state "
        "(u = t in every cell, rotation = 0, solid pressure = 0, boundary value t on Dirichlet "
        "face-components, zero traction on Neumann ones) equals sum_k t_k * (sum of the row's "
        "entries in columns carrying component k); hence rows written as weighted differences, and "
        "rows whose component sums vanish, give zero (C16_stress_zero_differences, "
        "C16_stress_zero), rows whose component sums are the unit vector reproduce t_k "
        "(C16_averages_reproduce_const); if the stress rows sum to zero, the solid-mass rows sum to "
        "the face normal, the rotation rows to -(n x .) and the signed normals of every cell sum to "
        "zero, then (t, 0, 0) makes every row of Div*[F|RHS] - Accumulation vanish, for every "
        "translation t (C16_system_solution); it is the only solution if the system matrix has a "
        "trivial kernel (C16_unique_solution), and the trivial kernel is ESTABLISHED per instance, "
        "not assumed, wherever an exact left-inverse certificate N A = d I (computed by the harness "
        "in exact rationals, verified by Coq on the assembled rows) is supplied — systems with at "
        "most 20 unknowns (C16_nonsingular_certificate, C16_unique_solution_certified); and the checker evaluated in the tie is sound with "
        "its tolerance carried through quantitatively (C16_certificate_sound: |row . state| <= "
        "tol*(1+sum|row|)*sum|t_k| for every stress row and every assembled row, every t). Per run "
        "Coq evaluates the checkers by vm_compute on the REAL matrices of Tpsa.discretize (all "
        "seven cell blocks and three boundary blocks, converted exactly with Fraction(float)) for "
        "generated grids; a numpy oracle applies the stress matrices to the translation and solves "
        "the real assembled system.")
    level_note = (
        "Not proved: anything about tpsa.py itself (the scheme is not re-implemented in Coq; its "
        "matrices are inputs whose certificates are checked per generated instance only); float "
        "rounding (certificates hold up to the relative tolerance 1e-9, and the quantitative "
        "theorem bounds the residual accordingly; the exact theorems apply to the nearby exact "
        "matrices); non-singularity of the assembled matrix on instances with more than 20 unknowns (there "
        "it stays the hypothesis of C16_unique_solution, observed by the oracle's dense solve, "
        "skipped above condition number 1e7; on smaller instances it is certified exactly, count in "
        "evidence.oracle_solve.nonsingularity_certificates). The assembled "
        "system is the one of the TPSA tests and docstring: Div*face_discretization - diag(0, "
        "V/mu, V/lambda), b = -Div*rhs_matrix*g, assembled in Coq from the face rows and the "
        "incidence rows of sd.divergence(1) (the harness checks that sd.divergence(nd) is its "
        "Kronecker expansion). Robin conditions are not covered. Histories: in every fourth case the matrices come from "
        "the LAST of 2-3 discretisations by one Tpsa object on one grid and one data dictionary (bc "
        "types / bc object / mu changed between the calls); certificates and oracle judge those "
        "matrices, and the oracle additionally requires agreement (1e-12 relative) with a fresh Tpsa "
        "object on fresh data (this tree's Tpsa has no Cosserat parameter to vary). The averaging rows use the "
        "cell-to-face map c2f captured by monkey-patching Tpsa._create_cell_to_face_maps, joined "
        "with the public bound_displacement_face matrix.")
    technique = ("Coq proof of method-level theorems (linearity / row-sum arguments over Q) + "
                 "certificate checkers evaluated by vm_compute on the real matrices + numpy oracle")
    rule = ("grids: CartGrid 2-D (<=4x4) and 3-D, grids mixing triangles and quadrilaterals (public pp.Grid "
            "constructor), StructuredTriangleGrid, StructuredTetrahedralGrid "
            "(3-D larger in the thorough tier), 55% with every node moved by a dyadic offset "
            "(non-planar hexahedral faces included); constant Lame parameters from a dyadic set; "
            "every seventh case uses ONE Tpsa object on a sequence of grids ending with a pair of equal size "
            "signature but different connectivity (transposed shapes); every fourth case is a HISTORY: one Tpsa object / grid / data dictionary discretised 2-3 times, "
            "bc types or mu changed in place or by new objects between the calls, final matrices also "
            "compared (1e-12) with a fresh Tpsa on fresh data; boundary: all Dirichlet (40%), Dirichlet/Neumann per face (30%) or per face-component "
            "(30% + every third case: rollers, Dirichlet in some components and Neumann in others on one "
            "face, on boundaries of every orientation), at least half of the boundary faces Dirichlet in every component; translation with "
            "quarter-integer components; non-trivial = at least 2 cells and a non-zero translation")
    trusted = ["the rows handed to Coq are the matrices of data[pp.DISCRETIZATION_MATRICES] "
               "(scipy hstack of the blocks, explicit zeros dropped) converted with Fraction(float)",
               "tolerance 1e-9 relative to 1 + sum|row entries| inside the Coq checkers"]
    assumptions = ["constant Lame parameters mu, lambda > 0; Dirichlet data = translation, Neumann data = 0; "
                   "no Robin conditions",
                   "uniqueness of the discrete solution = non-singular system matrix (oracle: dense solve)"]

    def __init__(self):
        self._cache = {}
        self._stats = {"solved": 0, "skipped_ill_conditioned": 0, "max_cond": 0.0, "dims": {2: 0, 3: 0},
                       "bc_modes": {}}

    # -------------------------------------------------------------- generation
    def generate(self, rng, n, tier):
        mus = [0.5, 1.0, 1.5, 2.0, 3.0, 0.75]
        lams = [0.5, 1.0, 2.0, 4.0, 0.25, 1.5]
        for idx in range(n):
            spec = grid_spec(rng, tier)
            pre_grids = None
            if idx % 7 == 2:
                # directed: ONE Tpsa object on a SEQUENCE OF GRIDS; the earlier grid has the same
                # (dim, cells, faces, nodes, nnz) as the case's grid but different connectivity
                # (transposed shape), sometimes preceded by an unrelated grid
                kind, shape = rng.choice([("cart", [2, 3]), ("cart", [3, 2]), ("cart", [1, 3]), ("tri", [2, 3]),
                                          ("tri", [1, 2]), ("tri", [3, 1]), ("cart", [1, 2, 1]), ("cart", [2, 1, 1]),
                                          ("cart", [1, 2, 3] if tier != "quick" else [1, 1, 2])])
                spec = {"kind": kind, "n": shape}
                twin = {"kind": kind, "n": shape[::-1] if shape[::-1] != shape else shape[1:] + shape[:1]}
                pre_grids = [twin]
                if rng.random() < 0.4:
                    pre_grids.insert(0, {"kind": "tri", "n": [1, 1]})
                if rng.random() < 0.4:
                    gg = make_grid(spec)
                    spec["pert"] = [[rng.randint(-4, 4) for _ in range(gg.num_nodes)] for _ in range(gg.dim)]
            g = make_grid(spec)
            nd = g.dim
            bf = [int(f) for f in g.get_all_boundary_faces()]
            r = rng.random()
            mode = "dir" if r < 0.4 else ("face" if r < 0.7 else "comp")
            if idx % 3 == 0:
                mode = "comp"       # directed stream: component-wise rollers (Dirichlet in some
                                    # components, Neumann in the others, on one face)
            neu = []

            def pick():
                # a random subset of at most half of the boundary faces, of every orientation
                cand = [f for f in bf if rng.random() < 0.5]
                rng.shuffle(cand)
                return sorted(cand[: len(bf) // 2])

            if mode == "face":
                neu = [[k, f] for f in pick() for k in range(nd)]
            elif mode == "comp":
                for k in range(nd):
                    neu += [[k, f] for f in pick()]
            t = [rng.randint(-16, 16) / 4.0 for _ in range(nd)]
            if rng.random() < 0.1:
                t = [0.0] * nd
            mu = rng.choice(mus)
            history, how = None, []
            if idx % 4 == 1 or rng.random() < 0.15:
                # HISTORY stream: ONE Tpsa object, one grid, one data dictionary, 2-3 discretisations in
                # a row.  Each earlier stage differs from the case proper (the last stage) in one kind
                # of parameter only (bc types, or mu); "how" of a stage says how the step INTO it is
                # made: bc flags changed in place / a new bc object, mu array changed in place / a new
                # tensor object (a step may also replace an object by an equal one).
                pick_how = lambda: [rng.choice(["bc_inplace", "bc_inplace", "bc_object"]),
                                    rng.choice(["mu_inplace", "tensor_object"])]
                history = []
                for _ in range(rng.choice([1, 1, 2])):
                    st = {"neu": neu, "mu": mu, "how": pick_how()}
                    if rng.random() < 0.65:
                        other = rng.choice(["dir", "dir", "face", "comp"])
                        st["neu"] = ([] if other == "dir" else
                                     [[k, f] for f in pick() for k in range(nd)] if other == "face" else
                                     [[k, f] for k in range(nd) for f in pick()])
                    else:
                        st["mu"] = rng.choice([m for m in mus if m != mu])
                    history.append(st)
                how = pick_how()
                if idx % 8 == 1:
                    # directed: faces go from Dirichlet (previous stage) to Neumann (last stage) with mu
                    # unchanged and the bc flags changed in place
                    if not neu:
                        mode = "face"
                        neu = [[k, f] for f in pick() for k in range(nd)]
                    history[-1] = {"neu": [], "mu": mu, "how": history[-1]["how"]}
                    how = ["bc_inplace", "mu_inplace"]
            yield {"grid": spec, "mu": mu, "lam": rng.choice(lams), "neu": neu, "history": history, "how": how, "pre_grids": pre_grids,
                   "mode": mode, "t": t}

    # -------------------------------------------------------------- implementation
    def run_impl(self, case):
        """The matrices are kept in a per-process cache (they are large); the JSON result that
        goes to evidence / replay files is a summary with a digest of the full data."""
        full = self._run_full(case)
        if len(self._cache) > 400:      # bounded (the driver's search loop may run thousands of cases)
            self._cache.clear()
        self._cache[json.dumps(case, sort_keys=True)] = full
        blob = json.dumps(full, sort_keys=True).encode()
        return {"nd": full["nd"], "rd": full["rd"], "nc": full["nc"], "nf": full["nf"],
                "n_dirichlet": int(sum(full["dir"])), "n_neumann": int(sum(full["neu_flags"])),
                "nnz": {k: int(sum(len(r) for r in full[k])) for k in ("srows", "rrows", "mrows", "arows")},
                "digest": hashlib.sha1(blob).hexdigest()[:16]}

    def _full(self, case):
        key = json.dumps(case, sort_keys=True)
        if key not in self._cache:
            self._cache[key] = self._run_full(case)
        return self._cache[key]

    def _run_full(self, case):
        g, bc, C, m, c2f, hist_diff = discretize(case)
        nd, nc, nf = g.dim, g.num_cells, g.num_faces
        rd = 3 if nd == 3 else 1
        z = lambda a, b: sps.csr_matrix((a, b))
        srows = sps.hstack([m["stress"], m["stress_rotation"], m["stress_total_pressure"],
                            m["bound_stress"]])
        rrows = sps.hstack([m["rotation_displacement"], m["rotation_rotation"], z(rd * nf, nc),
                            m["bound_rotation_displacement"]])
        mrows = sps.hstack([m["solid_mass_displacement"], z(nf, rd * nc),
                            m["solid_mass_total_pressure"], m["bound_mass_displacement"]])
        arows = sps.hstack([c2f, z(nd * nf, rd * nc), z(nd * nf, nc), m["bound_displacement_face"]])
        ncols = (nd + rd + 1) * nc + nd * nf
        for mat, nr in ((srows, nd * nf), (rrows, rd * nf), (mrows, nf), (arows, nd * nf)):
            if mat.shape != (nr, ncols):
                raise RuntimeError(f"unexpected block shape {mat.shape}, expected {(nr, ncols)}")
        div1 = sps.csr_matrix(g.divergence(dim=1))
        for dim in {nd, rd}:
            if abs(sps.csr_matrix(g.divergence(dim=dim)) - sps.kron(div1, sps.eye(dim))).sum() != 0:
                raise RuntimeError("sd.divergence(dim) is not the Kronecker expansion of sd.divergence(1)")
        inc = rows_of(div1)
        acc = np.hstack([np.repeat(g.cell_volumes / C.mu, rd), g.cell_volumes / C.lmbda])
        full = {"nd": nd, "rd": rd, "nc": nc, "nf": nf, "inc": inc,
                "normals": [[float(x) for x in g.face_normals[:nd, f]] for f in range(nf)],
                "dir": [bool(x) for x in bc.is_dir.ravel("F")],
                "neu_flags": [bool(x) for x in bc.is_neu.ravel("F")],
                "srows": rows_of(srows), "rrows": rows_of(rrows), "mrows": rows_of(mrows),
                "arows": rows_of(arows), "acc": [float(x) for x in acc]}
        full["inv"] = self._inverse(full)
        full["hist_diff"] = hist_diff
        return full

    INV_MAX = 20

    def _inverse(self, full):
        """Exact left inverse of the assembled system matrix, built from the same rationals and in the
        same row order as Model.C16.system_rows (per cell: nd momentum rows, rd rotation rows, 1 mass
        row), on small systems only."""
        nd, rd, nc = full["nd"], full["rd"], full["nc"]
        n = (nd + rd + 1) * nc
        if n > self.INV_MAX:
            return None
        A = []

        def gather(rows, stride, off, c):
            out = [Fraction(0)] * n
            for f, s in full["inc"][c]:
                for col, v in rows[f * stride + off]:
                    if col < n:
                        out[col] += Fraction(s) * Fraction(v)
            return out

        for c in range(nc):
            for k in range(nd):
                A.append(gather(full["srows"], nd, k, c))
            for i in range(rd):
                r = gather(full["rrows"], rd, i, c)
                r[nd * nc + c * rd + i] -= Fraction(full["acc"][c * rd + i])
                A.append(r)
            r = gather(full["mrows"], 1, 0, c)
            r[(nd + rd) * nc + c] -= Fraction(full["acc"][rd * nc + c])
            A.append(r)
        res = exact_left_inverse(A)
        if res is None:
            return None
        N, d = res
        return {"N": [[str(v) for v in r] for r in N], "d": str(d)}

    # -------------------------------------------------------------- oracle (numpy, independent of Coq)
    @staticmethod
    def _dense(rows, ncols):
        a = np.zeros((len(rows), ncols))
        for i, r in enumerate(rows):
            for c, v in r:
                a[i, c] += v
        return a

    def oracle(self, case, res):
        res = self._full(case)
        if res.get("hist_diff", 0.0) > 1e-12:
            return (f"discretisation depends on the history of the Tpsa object: after {len(case.get('history') or [])} "
                    f"earlier discretisation(s) on this grid and {len(case.get('pre_grids') or [])} on other grids the matrices differ from a fresh Tpsa on fresh data by "
                    f"{res['hist_diff']:.3e} (relative)")
        nd, rd, nc, nf = res["nd"], res["rd"], res["nc"], res["nf"]
        ndof = (nd + rd + 1) * nc
        ncols = ndof + nd * nf
        t = np.array(case["t"], dtype=float)
        isdir = np.array(res["dir"])
        gvec = np.where(isdir, np.tile(t, nf), 0.0)
        u = np.tile(t, nc)
        S = self._dense(res["srows"], ncols)
        R = self._dense(res["rrows"], ncols)
        M = self._dense(res["mrows"], ncols)
        tscale = 1.0 + np.abs(t).max()
        st = S[:, : nd * nc] @ u + S[:, ndof:] @ gvec
        sscale = max(1.0, np.abs(S).max())
        if np.abs(st).max() > 1e-8 * tscale * sscale:
            i = int(np.argmax(np.abs(st)))
            return (f"translation {t.tolist()} with matching boundary data gives stress "
                    f"{st[i]:.3e} on face {i // nd} component {i % nd}")
        D1 = self._dense(res["inc"], nf)
        Div = np.block([[np.kron(D1, np.eye(nd)), np.zeros((nd * nc, rd * nf)), np.zeros((nd * nc, nf))],
                        [np.zeros((rd * nc, nd * nf)), np.kron(D1, np.eye(rd)), np.zeros((rd * nc, nf))],
                        [np.zeros((nc, nd * nf)), np.zeros((nc, rd * nf)), D1]])
        G = np.vstack([S, R, M])
        A = Div @ G[:, :ndof] - np.diag(np.hstack([np.zeros(nd * nc), np.array(res["acc"])]))
        b = -Div @ G[:, ndof:] @ gvec
        cond = np.linalg.cond(A)
        self._stats["max_cond"] = max(self._stats["max_cond"], float(min(cond, 1e300)))
        if not np.isfinite(cond) or cond > 1e7:
            self._stats["skipped_ill_conditioned"] += 1
            return None
        x = np.linalg.solve(A, b)
        self._stats["solved"] += 1
        exact = np.hstack([u, np.zeros(ndof - nd * nc)])
        err = np.abs(x - exact)
        if err.max() > 1e-8 * tscale:
            i = int(np.argmax(err))
            what = ("displacement" if i < nd * nc else "rotation" if i < (nd + rd) * nc else "solid pressure")
            return (f"solving the TPSA system with Dirichlet data = translation {t.tolist()} gives "
                    f"{what} dof {i} = {x[i]:.12g}, expected {exact[i]:.12g}")
        return None

    # -------------------------------------------------------------- tie
    def _inst(self, res):
        rows = lambda rs: clist(rs, crow)
        ci = lambda z: f"({z} # 1)" if not str(z).startswith("-") else f"(({z}) # 1)"
        inv = "None"
        if res.get("inv"):
            inv = "(Some ({}, {}))".format(clist(res["inv"]["N"], lambda r: clist(r, ci)), ci(res["inv"]["d"]))
        return ("(mk_inst {} {} {} {} {} {} {} {} {} {} {} {} {})".format(
            cn(res["nd"]), cn(res["rd"]), cn(res["nc"]), cn(res["nf"]),
            rows(res["inc"]),
            clist(res["normals"], lambda v: clist(v, cq)),
            clist(res["dir"], cbool),
            rows(res["srows"]), rows(res["rrows"]), rows(res["mrows"]), rows(res["arows"]),
            clist(res["acc"], cq), inv))

    def coq_case(self, case, res):
        return f"check {TOL} {self._inst(self._full(case))}"

    def coq_diag(self, case, res):
        return f"check_diag {TOL} {self._inst(self._full(case))}"

    def nontrivial(self, case, res):
        self._stats["dims"][res["nd"]] = self._stats["dims"].get(res["nd"], 0) + 1
        self._stats["bc_modes"][case["mode"]] = self._stats["bc_modes"].get(case["mode"], 0) + 1
        self._stats["histories"] = self._stats.get("histories", 0) + int(bool(case.get("history")))
        self._stats["grid_sequences"] = self._stats.get("grid_sequences", 0) + int(bool(case.get("pre_grids")))
        if self._full(case).get("inv"):
            self._stats["nonsingularity_certificates"] = self._stats.get("nonsingularity_certificates", 0) + 1
        return res["nc"] >= 2 and any(x != 0 for x in case["t"])

    def describe(self, case):
        return case

    def extra_evidence(self):
        return {"oracle_solve": dict(self._stats, note=(
            "solved = instances whose assembled system was solved and compared with (t,0,0); "
            "skipped_ill_conditioned = condition number above 1e7 (uniqueness not claimed there); "
            "dims / bc_modes count the generated instances"))}

    def finding_key(self, case, res, why):
        if "history" in why:
            return "history-dependent-discretisation"
        if "gives stress" in why:
            return "translation-stress-nonzero"
        return "translation-not-recovered"

    def shrink(self, case, still_fails):
        # try smaller grids with the same kind and all-Dirichlet data
        best = case
        for n in ([1, 1], [2, 1], [1, 2], [2, 2]) if len(case["grid"]["n"]) == 2 else ([1, 1, 1], [2, 1, 1]):
            c = dict(case, grid={"kind": case["grid"]["kind"], "n": n}, neu=[], mode="dir")
            try:
                if still_fails(c):
                    return c
            except Exception:
                pass
        return best


PROP = C16()
