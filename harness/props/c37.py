"""C37 — block-diagonal inversion returns the true inverse.

Tie: the real `invert_diagonal_blocks` (python and numba backends),
`generate_permutation_to_block_diag_matrix` and `invert_permuted_block_diag_matrix` are run on
generated block-diagonal / row-column-permuted block-diagonal integer matrices; Coq recomputes
the searched block boundaries, the dense blocks handed to np.linalg.inv (captured by wrapping
np.searchsorted / np.linalg.inv from the harness), the permutation, the block form handed to
the block inverter, and checks A.A^-1 = I = A^-1.A in exact rationals on the float output.
"""
from __future__ import annotations

import contextlib
from fractions import Fraction

import numpy as np
import scipy.sparse as sps

from harness.core import Prop, cz, cnat, cq, clist, cbool

ERRN = {"IndexError": "IndexErr", "AssertionError": "AssertErr", "ValueError": "ValueErr"}


# ------------------------------------------------------------------ generators
def unimodular(rng, s, amp):
    """Integer matrix with determinant +-1 (product of unit triangular matrices, a row
    permutation and sign flips), so that its inverse is an integer matrix."""
    L = np.eye(s, dtype=int)
    U = np.eye(s, dtype=int)
    for i in range(s):
        for j in range(i):
            L[i, j] = rng.randint(-amp, amp)
            U[j, i] = rng.randint(-amp, amp)
    M = L @ U
    if rng.random() < 0.5:
        M = M[rng.sample(range(s), s), :]
    if rng.random() < 0.5:
        M = M * np.array([rng.choice([-1, 1]) for _ in range(s)])[:, None]
    return M


def storage(rng, D, csc, block_of, unsorted, zeros_in, zeros_out):
    """Compressed storage (line-wise: rows for csr, columns for csc) of the dense integer
    matrix D with options: shuffled indices inside lines, explicitly stored zeros inside /
    outside the diagonal blocks."""
    n = D.shape[0]
    L = D.T if csc else D
    indptr, indices, data = [0], [], []
    for i in range(n):
        ent = []
        for j in range(n):
            v = int(L[i, j])
            same = block_of[i] == block_of[j]
            if v != 0:
                ent.append((j, v))
            elif same and rng.random() < zeros_in:
                ent.append((j, 0))
            elif (not same) and rng.random() < zeros_out:
                ent.append((j, 0))
        if unsorted:
            rng.shuffle(ent)
        indices += [e[0] for e in ent]
        data += [e[1] for e in ent]
        indptr.append(len(indices))
    return {"nmaj": n, "nmin": n, "indptr": indptr, "indices": indices, "data": data}


def line_exps(case, n):
    """Power-of-two exponent of every line: one common scale, or per line (blocks of very
    different magnitude)."""
    return list(case["bs"]) if "bs" in case else [case.get("e", 0)] * n


def mk(M, csc, e=0):
    cls = sps.csc_matrix if csc else sps.csr_matrix
    if isinstance(e, (list, tuple)):
        line = np.repeat(np.arange(M["nmaj"]), np.diff(M["indptr"]))
        e = np.array(e, dtype=float)[line] if line.size else 0
    return cls((np.array(M["data"], dtype=float) * 2.0 ** e, np.array(M["indices"], dtype=np.int32),
                np.array(M["indptr"], dtype=np.int32)), shape=(M["nmaj"], M["nmin"]))


def lu_storage(case):
    """Raw storage of the scipy product L @ U of two block-diagonal sparse matrices (unit
    lower / unit upper triangular integer blocks): scipy leaves the indices of a product
    unsorted."""
    csc = case["csc"]
    conv = (lambda X: sps.csc_matrix(X)) if csc else (lambda X: sps.csr_matrix(X))
    L = conv(sps.block_diag([np.array(B, dtype=float) for B in case["LU"]["L"]]))
    U = conv(sps.block_diag([np.array(B, dtype=float) for B in case["LU"]["U"]]))
    P = L @ U
    assert (sps.isspmatrix_csc(P) if csc else sps.isspmatrix_csr(P))
    n = P.shape[0]
    return {"nmaj": n, "nmin": n, "indptr": ints(P.indptr), "indices": ints(P.indices),
            "data": ints(P.data)}


def build_perm_input(case):
    """The matrix handed to the permutation functions, in the sparse format of the case."""
    n = len(case["D"])
    D = np.array(case["D"], dtype=float) * 2.0 ** np.array(line_exps(case, n), dtype=float)[:, None]
    coo = sps.coo_matrix(sps.csr_matrix(D))
    rows = list(coo.row) + [z[0] for z in case["stored_zeros"]]
    cols = list(coo.col) + [z[1] for z in case["stored_zeros"]]
    dat = list(coo.data) + [0.0] * len(case["stored_zeros"])
    C = sps.coo_matrix((dat, (rows, cols)), shape=(n, n))  # explicit zeros are kept
    fmt = case.get("fmt", "csr")
    if fmt == "coo":
        rs = np.random.RandomState(case.get("shuf", 0))
        p = rs.permutation(len(dat))  # entries in arbitrary order
        return sps.coo_matrix((np.array(dat)[p], (np.array(rows)[p], np.array(cols)[p])),
                              shape=(n, n))
    if fmt == "bsr":
        return sps.csr_matrix(C).tobsr(blocksize=(1, 1))
    A = sps.csc_matrix(C) if fmt.startswith("csc") else sps.csr_matrix(C)
    if fmt.endswith("_unsorted"):
        rs = np.random.RandomState(case.get("shuf", 0))
        for i in range(n):
            a, b = A.indptr[i], A.indptr[i + 1]
            p = rs.permutation(b - a)
            A.indices[a:b] = A.indices[a:b][p]
            A.data[a:b] = A.data[a:b][p]
        A.has_sorted_indices = False
    return A


def dense_of(M, csc):
    A = mk(M, csc).toarray()
    return A


def ccsr(M):
    return (f"(mkcsr {cnat(M['nmaj'])} {cnat(M['nmin'])} {clist(M['indptr'], cnat)} "
            f"{clist(M['indices'], cnat)} {clist(M['data'], cz)})")


def cmatz(ll):
    return clist(ll, lambda l: clist(l, cz))


def cmatq(ll):
    return clist(ll, lambda l: clist(l, cq))


def cres(r, f):
    return f"(Ok {f(r['ok'])})" if "ok" in r else f"(Err {r['err']})"


def ints(a):
    a = np.asarray(a)
    assert np.all(a == np.round(a))
    return [int(x) for x in a]


@contextlib.contextmanager
def patched(obj, name, new):
    old = getattr(obj, name)
    setattr(obj, name, new)
    try:
        yield
    finally:
        setattr(obj, name, old)


def guarded(f):
    try:
        return {"ok": f()}
    except (IndexError, AssertionError, ValueError) as e:
        return {"err": ERRN[type(e).__name__], "msg": str(e)[:200]}


def frac_inverse_defect(D, Ai, tol=Fraction(1, 10**9), e=0):
    """max |D.Ai - I|, |Ai.D - I| in exact rationals (row i of D = integers * 2**e_i); None if
    within tol."""
    n = len(D)
    es = list(e) if isinstance(e, (list, tuple)) else [e] * n
    Df = [[Fraction(int(x)) * Fraction(2) ** es[i] for x in r] for i, r in enumerate(D)]
    Af = [[Fraction(float(x)) for x in r] for r in Ai]
    if len(Af) != n or any(len(r) != n for r in Af):
        return "shape"
    worst = Fraction(0)
    for X, Y in ((Df, Af), (Af, Df)):
        for i in range(n):
            for j in range(n):
                s = sum(X[i][k] * Y[k][j] for k in range(n)) - (1 if i == j else 0)
                worst = max(worst, abs(s))
    return float(worst) if worst > tol else None


# ------------------------------------------------------------------ the property
class C37(Prop):
    id = "C37"
    props_file = "Props/C37.v"
    preamble = ("From Coq Require Import List ZArith QArith.\nImport ListNotations.\n"
                "From PP Require Import Lib.Csr Lib.Dense Model.C37 Model.C37_tie.\n"
                "Local Close Scope Q_scope.\n")
    n_cases = (48, 600)
    design_ref = "DESIGN.md §5 C37, §6 (C37 row), §6.1"
    level = "proof"
    technique = ("Coq proof (dense-matrix algebra over an arbitrary commutative ring; bisection "
                 "and compressed-storage lemmas) + execution correspondence with the real "
                 "inverters + exact-rational A.A^-1 = I check in Coq")
    level_text = (
        "P-core. Coq theorems, for all sizes and numbers of blocks: (1) over any commutative ring, "
        "block_diag(inv B_i) is a two-sided inverse of block_diag(B_i) whenever inv returns a "
        "two-sided inverse of each square block (np.linalg.inv = hypothesis); (2) Q.B^-1.P is the "
        "two-sided inverse of A when P.A.Q = B for invertible P, Q; permutation matrices of "
        "mutually inverse index lists are mutually inverse; the row slicer A[p,:] is the product "
        "with the permutation matrix; (2') for the slicer model of "
        "invert_permuted_block_diag_matrix itself (row/column slicers and transposes, "
        "entries A[rp_i][cp_j]) and ALL permutations rp, cp: if Bi inverts the block form, the "
        "mapped-back matrix is a two-sided inverse of A (C37_permuted_inverse), with the "
        "permutation test of the tie proved sound; (3) bisection (np.searchsorted) on an array partitioned by "
        "the key returns the partition point; for every well-formed csr/csc storage (unsorted "
        "indices, empty lines) none of whose stored entries straddles a block boundary the "
        "boundaries searchsorted(indices, cumsum(sizes)) are the index pointers of the block "
        "starts and the slices cut (indices, data) exactly into the blocks' own lines; "
        "eliminate_zeros (the repair) keeps the dense matrix and re-establishes that premise for "
        "every matrix whose non-zero entries lie in the blocks; a machine-checked witness shows "
        "the premise fails with a stored zero outside the blocks and that the unrepaired model "
        "raises exactly as the unrepaired code did. The model (block location, scatter into dense "
        "blocks with numpy's wrap/IndexError and numba's size assertion, permutation "
        "post-processing, slicers) is tied to the code on every run: searched boundaries, the "
        "dense blocks actually passed to np.linalg.inv, the permutation and block sizes, the "
        "block form passed to the block inverter are compared by Coq, which also evaluates "
        "block_diag(blocks) = A, the component certificate, P.A.Q = slicer result, and "
        "A.A^-1 = I = A^-1.A in exact rationals (tolerance 1e-9) on the float output of the "
        "python and the numba backend.")
    level_note = (
        "NOT proved (covered by the per-case evaluation in Coq and the oracle only): that the "
        "scatter of a block's slice reproduces the dense sub-block (checked per case as "
        "block_diag(extracted blocks) = to_dense A, and the blocks equal those handed to "
        "np.linalg.inv); the matrix form P.A.Q of the column slicer (checked per case; superseded by the "
        "entrywise theorem C37_permuted_inverse); that connected components of a nonsingular matrix are square "
        "(the code asserts it; the component search of networkx is re-computed by a closure "
        "iteration in the model and its output validated per case by comps_closed); the layout "
        "produced by block_diag_matrix (indptr and indices compared with the model per case, "
        "its dense meaning not proved); floating-point rounding of np.linalg.inv "
        "(tolerance 1e-9 on integer matrices with integer inverses). Matrices with duplicate "
        "entries in one line (non-canonical storage) are not generated: the inverters assign "
        "instead of summing duplicates.")
    rule = ("block-diagonal integer matrices: 1-6 blocks of size 1-4 (thorough 1-6), each a "
            "product of unit-triangular integer matrices with row permutation/sign flips "
            "(integer inverse); csr or csc; indices shuffled inside lines; explicitly stored "
            "zeros inside and outside the blocks; zero entries in the size array; blocks stored in full with shuffled indices "
            "(diagonally dominant integer blocks); the scipy product L @ U of block-diagonal "
            "triangular matrices (unsorted indices as scipy leaves them); permuted "
            "case (matrix handed over as csr, csc, coo with entries in arbitrary order, bsr, "
            "csr/csc with shuffled indices; independent row and column permutations): permuted diagonal matrices (singleton blocks, non-symmetric pattern), random row and column permutations of such a matrix, stored zeros, plus "
            "matrices with non-square components (AssertionError branch). Directed: >= 3 blocks each scaled by its own power of two "
            "(exponents in [-70, 70], contrast >= 2^56 between two blocks), for the permutation "
            "functions and both block inverters. All values scaled by an exact power of two "
            "2^e (e = 0, |e| <= 8, or 40 <= |e| <= 60). Non-trivial = at "
            "least two blocks or a block of size >= 2.")
    trusted = [
        "np.linalg.inv returns a two-sided inverse of each dense block (Section hypothesis inv_ok); "
        "checked on every case in exact rationals up to 1e-9",
        "networkx.connected_components: recomputed in the model, certificate checked per case",
        "the numba backend's internals are observed only through its result / error",
    ]
    assumptions = [
        "storage is canonical (no duplicate minor index in a line); matrix square, block sizes "
        "sum to its dimension; float64 data, int32 indices (numba signature)",
    ]

    # ---------------------------------------------------------------- generation
    def generate(self, rng, n, tier):
        big = tier != "quick"
        for k in range(n):
            if k % 8 in (1, 6):
                yield self.g_contrast(rng, big, perm=(k % 8 == 1))
                continue
            if k % 8 == 5:
                c = self.g_permdiag(rng, big)
            elif k % 8 == 7:
                c = self.g_full(rng, big)
            elif k % 8 == 3:
                c = self.g_lu(rng, big)
            elif k % 3 == 2:
                c = self.g_perm(rng, big)
            else:
                c = self.g_bd(rng, big)
            # exact power-of-two scaling of all values, over many orders of magnitude
            c["e"] = rng.choice([0, 0, rng.randint(-8, 8), rng.randint(40, 60), -rng.randint(40, 60)])
            if c["kind"] == "perm":
                # sparse format of the matrix handed to the permutation functions
                c["fmt"] = rng.choice(["csr", "csc", "csc", "coo", "bsr", "csr_unsorted",
                                       "csc_unsorted"])
                c["shuf"] = rng.randrange(10**6)
            yield c

    def g_contrast(self, rng, big, perm):
        """>= 3 blocks of small integers, block b scaled by 2^(e_b) with the exponents spread
        over [-70, 70] and a contrast of more than 2^53 between some pair of blocks."""
        nb = rng.randint(3, 5)
        sizes = [rng.randint(1, 3) for _ in range(nb)]
        exps = [rng.randint(-70, 70) for _ in range(nb)]
        i, j = rng.sample(range(nb), 2)
        exps[i], exps[j] = rng.randint(28, 70), -rng.randint(28, 70)  # contrast >= 2^56
        blocks = [unimodular(rng, s_, rng.choice([1, 2])) for s_ in sizes]
        n = sum(sizes)
        D = np.zeros((n, n), dtype=int)
        block_of, bs, off = [], [], 0
        for b, (s_, B) in enumerate(zip(sizes, blocks)):
            D[off:off + s_, off:off + s_] = B
            block_of += [b] * s_
            bs += [exps[b]] * s_
            off += s_
        if not perm:
            csc = rng.random() < 0.4
            M = storage(rng, D, csc, block_of, unsorted=rng.random() < 0.6, zeros_in=0,
                        zeros_out=rng.choice([0, 0.1]))
            return {"kind": "bd", "csc": csc, "M": M, "sz": list(sizes), "bs": bs}
        rp = rng.sample(range(n), n)
        cp = rng.sample(range(n), n)
        return {"kind": "perm", "D": D[rp, :][:, cp].tolist(), "stored_zeros": [],
                "bs": [bs[r] for r in rp],
                "fmt": rng.choice(["csr", "csc", "coo", "csr_unsorted", "csc_unsorted"]),
                "shuf": rng.randrange(10**6)}

    def g_lu(self, rng, big):
        """Block-diagonal matrix given as the scipy product L @ U (unsorted indices as scipy
        produces them), csr or csc."""
        nb = rng.randint(1, 4)
        sizes = [rng.randint(1, 4) for _ in range(nb)]
        Ls, Us = [], []
        for s_ in sizes:
            L = np.eye(s_, dtype=int)
            U = np.eye(s_, dtype=int)
            for i in range(s_):
                for j in range(i):
                    L[i, j] = rng.choice([-2, -1, 1, 2, 0])
                    U[j, i] = rng.choice([-2, -1, 1, 2, 0])
            Ls.append(L.tolist())
            Us.append(U.tolist())
        return {"kind": "bd", "csc": rng.random() < 0.5, "LU": {"L": Ls, "U": Us}, "sz": sizes}

    def g_permdiag(self, rng, big):
        """Row/column permuted DIAGONAL matrix (all blocks singletons): the sparsity
        pattern is that of a permutation which in general is not an involution."""
        n = rng.randint(3, 10 if big else 8)
        perm = rng.sample(range(n), n)
        A = np.zeros((n, n), dtype=int)
        for i, j in enumerate(perm):
            A[i, j] = rng.choice([-4, -2, -1, 1, 2, 4, 8])
        zs = []
        if rng.random() < 0.3:
            i, j = rng.randrange(n), rng.randrange(n)
            if A[i, j] == 0:
                zs.append([i, j])
        return {"kind": "perm", "D": A.tolist(), "stored_zeros": zs}

    def g_full(self, rng, big):
        """Hand-built (data, indices, indptr) in which EVERY block is stored in full (no
        zero entry) with the indices of each line in random order."""
        nb = rng.randint(1, 5)
        sizes = [rng.randint(1, 4) for _ in range(nb)]
        same = rng.random() < 0.5
        if same:
            sizes = [sizes[0]] * nb
        n = sum(sizes)
        D = np.zeros((n, n), dtype=int)
        block_of, off = [], 0
        for b, s in enumerate(sizes):
            B = np.array([[rng.choice([-3, -2, -1, 1, 2, 3]) for _ in range(s)] for _ in range(s)])
            B = B + np.diag([rng.choice([-1, 1]) * (4 * s) for _ in range(s)])  # diagonally dominant
            D[off:off + s, off:off + s] = B
            block_of += [b] * s
            off += s
        csc = rng.random() < 0.4
        M = storage(rng, D, csc, block_of, unsorted=rng.random() < 0.85, zeros_in=0, zeros_out=0)
        return {"kind": "bd", "csc": csc, "M": M, "sz": list(sizes)}

    def _blocks(self, rng, big):
        smax = 6 if big and rng.random() < 0.3 else 4
        nb = rng.randint(1, 6)
        sizes = [rng.randint(1, smax) for _ in range(nb)]
        while sum(sizes) > (18 if big else 14):
            sizes.pop()
        amp = rng.choice([1, 1, 2])
        blocks = [unimodular(rng, s, amp) for s in sizes]
        n = sum(sizes)
        D = np.zeros((n, n), dtype=int)
        off = 0
        block_of = []
        for b, (s, B) in enumerate(zip(sizes, blocks)):
            D[off:off + s, off:off + s] = B
            block_of += [b] * s
            off += s
        return sizes, D, block_of

    def g_bd(self, rng, big):
        sizes, D, block_of = self._blocks(rng, big)
        csc = rng.random() < 0.4
        M = storage(rng, D, csc, block_of, unsorted=rng.random() < 0.6,
                    zeros_in=rng.choice([0, 0, 0.3]), zeros_out=rng.choice([0, 0, 0.1, 0.3]))
        sz = list(sizes)
        if rng.random() < 0.2:  # zero sizes are dropped by the dispatcher
            sz.insert(rng.randint(0, len(sz)), 0)
        return {"kind": "bd", "csc": csc, "M": M, "sz": sz}

    def g_perm(self, rng, big):
        if rng.random() < 0.08:
            # non-square components: the code must raise its AssertionError
            D = np.array(rng.choice([
                [[1, 1, 0], [0, 0, 0], [0, 0, 1]],
                [[1, 0, 0, 0], [1, 0, 0, 0], [0, 0, 1, 1], [0, 0, 0, 0]],
                [[0, 2, 2], [0, 0, 0], [3, 0, 0]],
            ]))
            return {"kind": "perm", "D": D.tolist(), "stored_zeros": []}
        sizes, D, block_of = self._blocks(rng, big)
        n = D.shape[0]
        rp = rng.sample(range(n), n)
        cp = rng.sample(range(n), n)
        A = D[rp, :][:, cp]
        zs = []
        if rng.random() < 0.4:
            for _ in range(rng.randint(1, 4)):
                i, j = rng.randrange(n), rng.randrange(n)
                if A[i, j] == 0:
                    zs.append([i, j])
        return {"kind": "perm", "D": A.tolist(), "stored_zeros": zs}

    # ---------------------------------------------------------------- implementation
    def run_impl(self, case):
        from porepy.numerics.linalg import matrix_operations as mo

        if case["kind"] == "bd":
            csc = case["csc"]
            M = case["M"] if "M" in case else lu_storage(case)
            e = line_exps(case, M["nmaj"])
            sz = np.array(case["sz"], dtype=np.int64)
            calls, blocks, layout = [], [], []
            real_ss, real_inv = np.searchsorted, np.linalg.inv

            def ss(a, v, *args, **kw):
                r = real_ss(a, v, *args, **kw)
                calls.append((np.array(v).tolist(), np.array(r).tolist()))
                return r

            def inv(B, *args, **kw):
                blocks.append(np.array(B, dtype=float).copy())
                return real_inv(B, *args, **kw)

            def py():
                A = mk(M, csc, e)
                before = (A.indptr.copy(), A.indices.copy(), A.data.copy())
                with patched(np, "searchsorted", ss), patched(np.linalg, "inv", inv):
                    R = mo.invert_diagonal_blocks(A, sz.copy(), method="python")
                after = (A.indptr, A.indices, A.data)
                assert all(np.array_equal(x, y) for x, y in zip(before, after)), \
                    "argument modified"
                layout.append((ints(R.indptr), ints(R.indices)))
                return np.asarray(R.toarray(), dtype=float).tolist()

            def nb():
                A = mk(M, csc, e)
                R = mo.invert_diagonal_blocks(A, sz.copy(), method="numba")
                return np.asarray(R.toarray(), dtype=float).tolist()

            rpy = guarded(py)
            szf = [int(s) for s in sz if s > 0]
            bounds = np.cumsum([0] + szf).tolist()
            nnz = [r for (v, r) in calls if v == bounds]
            res = {"py": rpy, "nb": guarded(nb),
                   "nnz": nnz[0] if nnz else None, "M": M}
            if "ok" in rpy:
                # the block as the line-wise model sees it: transposed for csc
                starts = np.cumsum([0] + [int(x) for x in sz if x > 0])
                res["blocks"] = [((B.T if csc else B) / 2.0 ** e[int(starts[i])]).tolist()
                                 for i, B in enumerate(blocks)]
                res["layout"] = layout[0]
            return res

        # permuted block-diagonal matrix
        n = len(case["D"])
        e = line_exps(case, n)
        D = np.array(case["D"], dtype=float) * 2.0 ** np.array(e, dtype=float)[:, None]
        A = build_perm_input(case)
        assert np.array_equal(A.toarray(), D)
        res = {"stored": int(A.nnz)}
        perm = guarded(lambda: mo.generate_permutation_to_block_diag_matrix(A))
        if "err" in perm:
            res["perm"] = perm
            return res
        rp, cp, bs = perm["ok"]
        res["perm"] = {"ok": [ints(rp), ints(cp), ints(bs)]}
        captured = []
        real = mo.invert_diagonal_blocks

        def wrap(mat, s, method=None):
            captured.append((mat.toarray().copy(), np.array(s).tolist()))
            return real(mat, s, method=method)

        def run():
            with patched(mo, "invert_diagonal_blocks", wrap):
                R = mo.invert_permuted_block_diag_matrix(A, rp, cp, bs)
            return np.asarray(R.toarray(), dtype=float).tolist()

        res["inv"] = guarded(run)
        if captured:
            # row i of the block form is row rp[i] of A: undo that row's scale
            res["abd"] = [ints(r / 2.0 ** e[int(rp[i])]) for i, r in enumerate(captured[0][0])]
        return res

    # ---------------------------------------------------------------- oracle
    def oracle(self, case, res):
        if case["kind"] == "bd":
            D = dense_of(res["M"], case["csc"])
            e = line_exps(case, D.shape[0])
            for bk in ("py", "nb"):
                r = res[bk]
                if "err" in r:
                    return (f"invert_diagonal_blocks({bk}) raised {r['err']} ({r.get('msg')}) on a "
                            f"nonsingular block-diagonal matrix, sizes {case['sz']}")
                Ai = np.array(r["ok"])
                ref = np.linalg.inv(D)  # D: the integer matrix; Ai column j is scaled by 2**-e_j
                if Ai.shape != D.shape or not np.allclose(
                        Ai * 2.0 ** np.array(e, dtype=float)[None, :], ref, rtol=1e-9, atol=1e-9):
                    return f"{bk} backend: result differs from the dense inverse"
                d = frac_inverse_defect(D.astype(int).tolist(), r["ok"], e=e)
                if d is not None:
                    return f"{bk} backend: |A.Ainv - I| = {d}"
            return None
        D = np.array(case["D"], dtype=float)
        n = D.shape[0]
        if abs(np.linalg.det(D)) < 0.5:
            return None  # singular input: outside the property (error branch is tied)
        p = res["perm"]
        if "err" in p:
            return f"generate_permutation raised {p['err']} on a nonsingular matrix"
        rp, cp, bs = p["ok"]
        if sorted(rp) != list(range(n)) or sorted(cp) != list(range(n)) or sum(bs) != n:
            return f"not a permutation / sizes: {p['ok']}"
        B = D[rp, :][:, cp]
        off = 0
        mask = np.zeros((n, n), dtype=bool)
        for s in bs:
            mask[off:off + s, off:off + s] = True
            off += s
        if np.any(B[~mask] != 0):
            return f"permuted matrix is not block diagonal with sizes {bs}"
        r = res["inv"]
        if "err" in r:
            return f"invert_permuted_block_diag_matrix raised {r['err']} ({r.get('msg')})"
        Ai = np.array(r["ok"])
        e = line_exps(case, n)
        if Ai.shape != D.shape or not np.allclose(
                Ai * 2.0 ** np.array(e, dtype=float)[None, :], np.linalg.inv(D), rtol=1e-9, atol=1e-9):
            return "permuted inverter: result differs from the dense inverse"
        d = frac_inverse_defect(D.astype(int).tolist(), r["ok"], e=e)
        if d is not None:
            return f"permuted inverter: |A.Ainv - I| = {d}"
        return None

    # ---------------------------------------------------------------- tie
    def coq_case(self, case, res):
        if case["kind"] == "bd":
            if res["nnz"] is None:
                return "false"
            blocks = ({"ok": res["blocks"]} if "ok" in res["py"] else {"err": res["py"]["err"]})
            cbl = cres(blocks, lambda bs: clist(bs, lambda b: cmatz([ints(r) for r in b])))
            lay = res.get("layout", ([], []))
            if "bs" in case:
                rs = clist([Fraction(2) ** x for x in case["bs"]], cq)
                return (f"tie_bd_r {cbool(case['csc'])} {ccsr(res['M'])} {clist(case['sz'], cnat)} "
                        f"{rs} {clist(res['nnz'], cnat)} {cbl} {cres(res['py'], cmatq)} "
                        f"{cres(res['nb'], cmatq)} {clist(lay[0], cnat)} {clist(lay[1], cnat)}")
            return (f"tie_bd_s {cbool(case['csc'])} {ccsr(res['M'])} {clist(case['sz'], cnat)} "
                    f"{cq(Fraction(2) ** case.get('e', 0))} "
                    f"{clist(res['nnz'], cnat)} {cbl} {cres(res['py'], cmatq)} "
                    f"{cres(res['nb'], cmatq)} {clist(lay[0], cnat)} {clist(lay[1], cnat)}")
        n = len(case["D"])
        p = res["perm"]
        cperm = cres(p, lambda t: f"({clist(t[0], cnat)}, {clist(t[1], cnat)}, {clist(t[2], cnat)})")
        abd = res.get("abd", [])
        inv = res.get("inv", {"err": "Undefined"})
        if "bs" in case:
            rs = clist([Fraction(2) ** x for x in case["bs"]], cq)
            return (f"tie_perm_r {cnat(n)} {cmatz(case['D'])} {rs} {cperm} {cmatz(abd)} "
                    f"{cres(inv, cmatq)}")
        return (f"tie_perm_s {cnat(n)} {cmatz(case['D'])} {cq(Fraction(2) ** case.get('e', 0))} "
                f"{cperm} {cmatz(abd)} {cres(inv, cmatq)}")

    def coq_diag(self, case, res):
        if case["kind"] == "bd":
            return (f"(idx_nnz {ccsr(res['M'])} {clist(case['sz'], cnat)}, "
                    f"extract_blocks Python {ccsr(res['M'])} {clist(case['sz'], cnat)}, "
                    f"extract_blocks Numba {ccsr(res['M'])} {clist(case['sz'], cnat)})")
        n = len(case["D"])
        return f"(generate_permutation {cnat(n)} {cmatz(case['D'])})"

    def nontrivial(self, case, res):
        if case["kind"] == "bd":
            sz = [s for s in case["sz"] if s > 0]
            return len(sz) >= 2 or max(sz) >= 2
        return len(case["D"]) >= 2

    def finding_key(self, case, res, why):
        if case["kind"] == "bd":
            M = res["M"]
            if 0 in M["data"] and "raised" in why:
                return "block inverter: explicitly stored zeros outside the blocks"
            return "block inverter: " + why[:40]
        if case.get("stored_zeros") and "raised" in why:
            return "block inverter: explicitly stored zeros outside the blocks"
        return "permuted inverter: " + why[:40]

    def describe(self, case):
        return case


PROP = C37()
