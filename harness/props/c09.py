"""C09 — adaptive time stepping hits every scheduled time (pp.TimeManager + the time loop).

Two kinds of cases:
  * "drive": the REAL time loop ``pp.run_time_dependent_model`` is run on a stub model whose
    (scripted) nonlinear solver ends every step in the real
    ``SolutionStrategy.after_nonlinear_convergence`` / ``after_nonlinear_failure``; after every
    event the manager's state and the answer of ``compute_time_step`` are recorded.  Coq runs
    the model's ``simulate`` (binary64 instance) on the same input and compares bit by bit.
    The oracle evaluates the five claims of the property on the recorded behaviour.
  * "calls": raw sequences of the public calls (increase_time, increase_time_index,
    final_time_reached, compute_time_step with any arguments), compared the same way.
"""
import types
import warnings

import numpy as np

from harness.core import Prop, cz, cfloat, clist, coption, cbool

import porepy as pp

# ---------------------------------------------------------------------------------------
# error enum <- exception messages of the implementation
# ---------------------------------------------------------------------------------------
_MSG = [
    ("Expected schedule with at least two elements", "E_sched_size"),
    ("Encountered at least one negative time in schedule", "E_sched_neg"),
    ("Schedule must contain strictly increasing times", "E_sched_incr"),
    ("Initial time step must be positive", "E_dtinit_pos"),
    ("Initial time step cannot be larger than final simulation time", "E_dtinit_final"),
    ("Initial time step cannot be smaller than minimum time step", "E_dtinit_lt_min"),
    ("Initial time step cannot be larger than maximum time step", "E_dtinit_gt_max"),
    ("Maximum number of iterations must be positive", "E_iter_max"),
    ("Lower endpoint", "E_iter_low"),  # refined below
    ("Upper endpoint", "E_iter_upp_gt_max"),
    ("Expected under-relaxation factor < 1", "E_under"),
    ("Expected over-relaxation factor > 1", "E_over"),
    ("Encountered dt_min * over_relax_factor > dt_max", "E_min_over"),
    ("Encountered dt_max * under_relax_factor < dt_min", "E_max_under"),
    ("Expected recomputation factor < 1", "E_recomp_factor"),
    ("Number of recomputation attempts must be > 0", "E_recomp_max"),
    ("Time step cannot be adapted without 'iterations'", "E_no_iterations"),
    ("Recomputation will not have any effect", "E_dt_at_min"),
    ("Solution did not converge after", "E_recomp_exhausted"),
    ("Nonlinear iterations did not converge", "E_not_converged"),
    ("Mismatch between the time step and scheduled time", "UNMODELLED_constant_ctor"),
]


def _err_code(e):
    if isinstance(e, IndexError):
        return "E_index"
    if not isinstance(e, ValueError):
        raise e
    msg = str(e)
    for prefix, code in _MSG:
        if msg.startswith(prefix):
            if code == "E_iter_low":
                return "E_iter_low_neg" if "cannot be negative" in msg else "E_iter_low_gt_upp"
            return code
    raise e  # a ValueError the model does not know: broken tie


def _num(x):
    """python number from JSON (int stays int: exercises the integer-array paths)."""
    return x


def _make_tm(case):
    a = case["args"]
    kw = dict(
        schedule=[_num(x) for x in case["sched"]],
        dt_init=_num(a["dt_init"]),
        constant_dt=a["constant"],
        dt_min_max=None if a["dt_min_max"] is None else tuple(a["dt_min_max"]),
        iter_max=a["iter_max"],
        iter_optimal_range=tuple(a["iter_range"]),
        iter_relax_factors=tuple(a["relax"]),
        recomp_factor=a["recomp_factor"],
        recomp_max=a["recomp_max"],
        rtol=a["rtol"],
        atol=a["atol"],
    )
    return pp.TimeManager(**kw)


def _snap(tm, out):
    return {
        "time": float(tm.time), "dt": float(tm.dt), "tidx": int(tm.time_index),
        "idx": int(tm._scheduled_idx), "recomp": int(tm._recomp_num),
        "about": bool(tm._is_about_to_hit_schedule), "out": out,
    }


def _cfg(tm):
    return {
        "dt_init": float(tm.dt_init), "constant": bool(tm.is_constant),
        "dt_min": float(tm.dt_min_max[0]), "dt_max": float(tm.dt_min_max[1]),
        "iter_max": int(tm.iter_max), "iter_low": int(tm.iter_optimal_range[0]),
        "iter_upp": int(tm.iter_optimal_range[1]),
        "under": float(tm.iter_relax_factors[0]), "over": float(tm.iter_relax_factors[1]),
        "recomp_factor": float(tm.recomp_factor), "recomp_max": int(tm.recomp_max),
        "rtol": float(tm.rtol), "atol": float(tm.atol),
    }


class _OutOfEvents(Exception):
    pass


class _EqSys:
    def get_variable_values(self, *a, **k):
        return np.zeros(1)

    def set_variable_values(self, *a, **k):
        pass

    def shift_time_step_values(self, *a, **k):
        pass


class _StubModel:
    """What run_time_dependent_model and after_nonlinear_convergence/failure touch."""

    def __init__(self, tm, events):
        self.time_manager = tm
        self.events = list(events)
        self.snaps = []
        self.last = None
        self.equation_system = _EqSys()
        self.nonlinear_solver_statistics = types.SimpleNamespace(num_iteration=0)
        self.time_step_indices = np.array([0])
        self.convergence_status = False
        orig = tm.compute_time_step

        def wrapped(*a, **k):
            try:
                r = orig(*a, **k)
            except Exception as e:
                self.last = ["err", _err_code(e)]
                raise
            self.last = ["none"] if r is None else ["dt", float(r)]
            return r

        tm.compute_time_step = wrapped

    def prepare_simulation(self):
        pass

    def after_simulation(self):
        pass

    def _is_nonlinear_problem(self):
        return True

    def save_data_time_step(self):
        pass

    def update_solution(self, solution):
        pass


class _ScriptedSolver:
    def __init__(self, params):
        self.params = params

    def solve(self, model):
        if not model.events:
            raise _OutOfEvents()
        ev = model.events.pop(0)
        model.last = None
        try:
            if ev[0] == "c":
                model.nonlinear_solver_statistics.num_iteration = ev[1]
                pp.SolutionStrategy.after_nonlinear_convergence(model)
                conv = True
            else:
                pp.SolutionStrategy.after_nonlinear_failure(model)
                conv = False
        except (ValueError, IndexError) as e:
            model.snaps.append(_snap(model.time_manager, ["err", _err_code(e)]))
            raise
        model.snaps.append(_snap(model.time_manager, model.last or ["unit"]))
        return conv


# ---------------------------------------------------------------------------------------
# Coq emission
# ---------------------------------------------------------------------------------------
def _f(x):
    return cfloat(float(x))


def _args(case):
    a = case["args"]
    mm = coption(a["dt_min_max"], lambda p: f"({_f(p[0])}, {_f(p[1])})")
    return ("(Build_args float " + " ".join([
        _f(a["dt_init"]), cbool(a["constant"]), mm, cz(a["iter_max"]),
        cz(a["iter_range"][0]), cz(a["iter_range"][1]), _f(a["relax"][0]), _f(a["relax"][1]),
        _f(a["recomp_factor"]), cz(a["recomp_max"]), _f(a["rtol"]), _f(a["atol"])]) + ")")


def _cfg_term(c):
    return ("(Build_cfg float " + " ".join([
        _f(c["dt_init"]), cbool(c["constant"]), _f(c["dt_min"]), _f(c["dt_max"]),
        cz(c["iter_max"]), cz(c["iter_low"]), cz(c["iter_upp"]), _f(c["under"]), _f(c["over"]),
        _f(c["recomp_factor"]), cz(c["recomp_max"]), _f(c["rtol"]), _f(c["atol"])]) + ")")


def _out_term(o):
    k = o[0]
    if k == "none":
        return "ONone"
    if k == "unit":
        return "OUnit"
    if k == "dt":
        return f"(ODt {_f(o[1])})"
    if k == "bool":
        return f"(OBool {cbool(o[1])})"
    return f"(OErr {o[1]})"


def _snap_term(s):
    st = ("(Build_state float " + " ".join([
        _f(s["time"]), _f(s["dt"]), cz(s["tidx"]), cz(s["idx"]), cz(s["recomp"]),
        cbool(s["about"])]) + ")")
    return f"({st}, {_out_term(s['out'])})"


def _event_term(e):
    return f"Converged {cz(e[1])}" if e[0] == "c" else "Failed"


def _call_term(k):
    if k[0] == "inc":
        return "CIncreaseTime"
    if k[0] == "idx":
        return "CIncreaseIndex"
    if k[0] == "final":
        return "CFinal"
    return f"CCompute {coption(k[1], cz)} {cbool(k[2])}"


def _stop_term(s):
    if s[0] == "finished":
        return "Finished"
    if s[0] == "out":
        return "OutOfEvents"
    return f"(Raised {s[1]})"


# ---------------------------------------------------------------------------------------
# generator helpers
# ---------------------------------------------------------------------------------------
_DYADIC_GAPS = [0.25, 0.5, 0.5, 1.0, 1.0, 1.5, 2.0, 3.0, 0.75, 0.125]
_DECIMAL_GAPS = [0.1, 0.2, 0.3, 0.7, 1.1, 0.05, 2.5, 0.9, 1.3, 10.0, 0.6]
_STARTS = [0, 0, 0, 0.5, 1, 3, 10.25, 0.1, 7.3, 100.0, 1e6]


def _isclose(a, b, rtol, atol):
    return abs(a - b) <= atol + rtol * abs(b) or a == b


class C09(Prop):
    id = "C09"
    props_file = "Props/C09.v"
    preamble = ("From Coq Require Import List ZArith Bool PrimFloat.\nImport ListNotations.\n"
                "From PP Require Import Model.C09.\n")
    n_cases = (500, 20000)
    design_ref = "DESIGN.md §5 C09, §6.1 (repair), Appendix A C09_main"
    level_text = (
        "Coq theorems (exact real arithmetic) over an executable, statement-by-statement "
        "transcription of TimeManager.__init__ validation, compute_time_step with all its "
        "adaptations/corrections, increase_time, final_time_reached and the time loop of "
        "run_time_dependent_model with after_nonlinear_convergence/failure: for every "
        "configuration satisfying the stated validity conditions, every strictly increasing, "
        "well-separated schedule of any length, an initial step inside the first interval and "
        "EVERY sequence of converged (any iteration count) and failed steps: accepted times "
        "strictly increase, never exceed the final time, every scheduled time is (exactly) an "
        "accepted time or within isclose of one once the loop finishes, dt stays in "
        "[dt_min, dt_max] unless shortened onto the schedule (then 0 < dt <= dt_max), a failed "
        "step rewinds the clock exactly or raises (recomputation exhausted / dt == dt_min), and "
        "nothing else raises. The model is tied to the code on every run: the real time loop "
        "and the real class are executed on random schedules / parameters / event scripts and "
        "Coq (binary64 instance of the same polymorphic model) must reproduce every state, "
        "return value and exception bit for bit.")
    level_note = (
        "P-core. NOT proved: floating-point rounding (theorems are over the reals; the binary64 "
        "instance of the model is only executed; in floats (t+dt)-dt may differ from t by an "
        "ulp, which the oracle tolerates via isclose). Trusted: that the polymorphic model "
        "means the same under both instances of the operations record (no transfer lemma "
        "R<->binary64 is possible; instance-independence of the definition is by "
        "parametricity, not proved); Coq kernel, vm_compute and PrimFloat primitives (= IEEE "
        "binary64 as in CPython/numpy, round-to-nearest-even); the harness (generator, "
        "message->error-enum table, literal emission via float.hex()); the stub model and "
        "scripted solver that stand in for a PDE model inside the real time loop. The "
        "constant_dt=True constructor check (np.arange/searchsorted compatibility of dt_init "
        "and schedule) is not modelled: theorems cover constant_dt=False only; constant-dt "
        "runs are tied only when the real constructor accepts. Theorem guards not enforced "
        "by the constructor and therefore explicit hypotheses: 0 < dt_min, tolerances >= 0, "
        "consecutive scheduled times further apart than the isclose tolerance, dt_init <= "
        "first interval. numpy warnings and print_info output are not modelled.")
    technique = ("Coq proof (inductive invariant over all event sequences of the transcribed time "
                 "loop, reals) + vm_compute bit-exact execution correspondence (PrimFloat) + "
                 "direct oracle on the real time loop")
    rule = ("random schedules of 2-6 points (arbitrary start, dyadic or decimal gaps, floats or "
            "ints), parameters mostly valid with dyadic relaxation factors so that time+dt lands "
            "EXACTLY on scheduled times often, plus a stream of boundary/invalid parameter sets "
            "(each constructor check on and just off its boundary, default dt_min_max, zero/"
            "negative tolerances, near-coincident scheduled times, constant_dt); event scripts "
            "of up to 80 (quick) / 400 (thorough) converged(iterations)/failed events run through "
            "the real run_time_dependent_model, and raw public-call sequences; non-trivial = at "
            "least one event executed and (an interior scheduled time, a failure, or an error)")
    trusted = ["instance-independence of the polymorphic model (reals for theorems, binary64 "
               "for execution)", "PrimFloat = IEEE binary64 arithmetic of CPython/numpy",
               "stub model + scripted solver inside the real pp.run_time_dependent_model"]
    assumptions = ["exact real arithmetic in the theorems (rounding not covered)",
                   "0 < dt_min, rtol >= 0, atol >= 0 (not checked by the constructor)",
                   "consecutive scheduled times differ by more than atol + rtol*|later time|",
                   "dt_init <= schedule[1] - schedule[0]", "constant_dt = False in the theorems"]

    # ------------------------------------------------------------------ generation
    def _schedule(self, rng, dyadic):
        n = rng.choice([2, 2, 3, 3, 4, 5, 6])
        gaps = _DYADIC_GAPS if dyadic else _DECIMAL_GAPS
        t0 = rng.choice(_STARTS if not dyadic else [0, 0, 0.5, 1, 3, 10.25, 64.0])
        pts = [t0]
        for _ in range(n - 1):
            pts.append(pts[-1] + rng.choice(gaps))
        return pts

    def _valid_args(self, rng, sched, dyadic):
        first = sched[1] - sched[0]
        if dyadic:
            dmax = rng.choice([0.25, 0.5, 1.0, 2.0, 4.0])
            dmin = dmax / rng.choice([4, 8, 16, 64])
            relax = rng.choice([(0.5, 2.0), (0.5, 2.0), (0.25, 2.0), (0.5, 1.5), (0.75, 1.25)])
            rf = rng.choice([0.5, 0.5, 0.25, 0.75])
            cands = [d for d in (dmax, dmax / 2, dmax / 4, dmin, first) if dmin <= d <= dmax
                     and d <= first]
        else:
            dmax = rng.choice([0.3, 0.5, 1.0, 0.7, 2.0, 0.25])
            dmin = rng.choice([0.001, 0.01, 0.05, dmax / 10])
            relax = rng.choice([(0.7, 1.3), (0.9, 1.1), (0.5, 2.0), (0.3, 1.7)])
            rf = rng.choice([0.5, 0.3, 0.1, 0.9])
            cands = [d for d in (dmax, dmin, 0.1, 0.2, first, first / 3) if dmin <= d <= dmax
                     and d <= first]
        dinit = rng.choice(cands) if cands else dmin
        low = rng.choice([1, 2, 4, 4])
        upp = low + rng.choice([0, 1, 3, 3])
        tol = rng.choice([(1e-10, 1e-16)] * 6 + [(1e-8, 1e-12), (1e-12, 0.0), (1e-5, 1e-8)])
        return {
            "dt_init": dinit, "constant": False, "dt_min_max": [dmin, dmax],
            "iter_max": upp + rng.choice([0, 3, 8]), "iter_range": [low, upp],
            "relax": list(relax), "recomp_factor": rf, "recomp_max": rng.choice([1, 2, 3, 5, 10]),
            "rtol": tol[0], "atol": tol[1],
        }

    def _perturb(self, rng, case):
        """One deliberate corner: each constructor check on / off its boundary etc."""
        a = case["args"]
        s = case["sched"]
        dmin, dmax = a["dt_min_max"]
        k = rng.randrange(30)
        if k == 0:
            case["sched"] = s[:1]
        elif k == 1:
            case["sched"] = [-1.0] + [x for x in s[1:]]
        elif k == 2:
            case["sched"] = s[:-1] + [s[-2]]
        elif k == 3:
            a["dt_init"] = rng.choice([0, 0.0, -0.5])
        elif k == 4:
            a["dt_init"] = rng.choice([s[-1], s[-1] * 2 + 1])
            a["dt_min_max"] = [dmin, max(dmax, a["dt_init"])]
        elif k == 5:
            a["dt_init"] = rng.choice([dmin, dmin / 2])
        elif k == 6:
            a["dt_init"] = rng.choice([dmax, dmax * 1.5])
        elif k == 7:
            a["iter_max"] = rng.choice([0, -1, 1])
            if a["iter_max"] == 1:
                a["iter_range"] = rng.choice([[0, 1], [1, 1], [0, 0], [1, 2]])
        elif k == 8:
            a["iter_range"] = [a["iter_range"][1] + 1, a["iter_range"][1]]
        elif k == 9:
            a["iter_range"] = [a["iter_range"][0], a["iter_max"] + rng.choice([0, 1])]
        elif k == 10:
            a["iter_range"] = [rng.choice([-1, 0]), a["iter_range"][1]]
        elif k == 11:
            a["relax"] = [rng.choice([1.0, 1.2, 0.0, -0.5]), a["relax"][1]]
        elif k == 12:
            a["relax"] = [a["relax"][0], rng.choice([1.0, 0.9])]
        elif k == 13:
            a["dt_min_max"] = [dmin, dmin * a["relax"][1] * rng.choice([1.0, 0.99])]
            a["dt_init"] = dmin
        elif k == 14:
            a["dt_min_max"] = [dmax * a["relax"][0] * rng.choice([1.0, 1.01]), dmax]
            a["dt_init"] = dmax
        elif k == 15:
            a["recomp_factor"] = rng.choice([1.0, 1.5, 0.0, -0.5])
        elif k == 16:
            a["recomp_max"] = rng.choice([0, -2])
        elif k in (17, 18, 19):
            a["dt_min_max"] = None
            a["dt_init"] = rng.choice([0.001 * s[-1], 0.1 * s[-1], 0.01 * s[-1], 0.05,
                                       0.2 * s[-1], 0.0005 * s[-1]])
        elif k == 20:
            a["rtol"], a["atol"] = rng.choice([(0.0, 0.0), (-1e-10, 0.0), (0.0, 1e-16)])
        elif k == 21:
            # near-coincident scheduled times (inside / just outside the isclose band)
            j = rng.randrange(1, len(s))
            eps = rng.choice([1e-12, 1e-11, 3e-10, 1e-9]) * max(1.0, abs(s[j]))
            case["sched"] = s[:j] + [s[j] - eps] + s[j:]
        elif k == 22:
            a["dt_min_max"] = [rng.choice([0.0, -0.25]), dmax]
        elif k in (23, 24):
            a["constant"] = True
            a["dt_init"] = rng.choice([s[1] - s[0], (s[1] - s[0]) / 2, 0.25, 0.5, 0.1, 1.0])
        elif k == 25:
            # dt_init larger than the first interval (outside the property's precondition)
            a["dt_init"] = min(dmax, (s[1] - s[0]) * 2)
        elif k == 26 and all(float(x).is_integer() for x in s):
            case["sched"] = [int(x) for x in s]
            if float(a["dt_init"]).is_integer():
                a["dt_init"] = int(a["dt_init"])
        # 27..29: unchanged
        return case

    def _events(self, rng, a, n):
        low, upp = a["iter_range"]
        pfail = rng.choice([0.0, 0.05, 0.15, 0.3, 0.5])
        mode = rng.choice(["mixed", "mixed", "keep", "grow", "shrink"])
        evs = []
        for _ in range(n):
            if rng.random() < pfail:
                evs.append(["f"])
                continue
            if mode == "keep" and upp - low >= 2:
                k = rng.randint(low + 1, upp - 1)
            elif mode == "grow":
                k = rng.randint(0, max(low, 0))
            elif mode == "shrink":
                k = upp + rng.randint(0, 3)
            else:
                k = rng.randint(0, upp + 3)
            evs.append(["c", k])
        return evs

    def generate(self, rng, n, tier):
        maxev = 80 if tier == "quick" else 400
        for i in range(n):
            dyadic = rng.random() < 0.6
            sched = self._schedule(rng, dyadic)
            case = {"kind": "drive", "sched": sched,
                    "args": self._valid_args(rng, sched, dyadic)}
            if rng.random() < 0.3:
                case = self._perturb(rng, case)
            nev = rng.choice([5, 20, maxev // 2, maxev, maxev])
            if rng.random() < 0.8:
                case["events"] = self._events(rng, case["args"], nev)
            else:
                case["kind"] = "calls"
                calls = []
                for _ in range(nev):
                    r = rng.random()
                    if r < 0.3:
                        calls.append(["inc"])
                    elif r < 0.4:
                        calls.append(["idx"])
                    elif r < 0.5:
                        calls.append(["final"])
                    elif r < 0.85:
                        calls.append(["compute", rng.choice([None, 0, 1, 3, 4, 5, 6, 8, 20]),
                                      False])
                    else:
                        calls.append(["compute", rng.choice([None, None, 3]), True])
                case["calls"] = calls
            yield case

    # ------------------------------------------------------------------ implementation
    def run_impl(self, case):
        with warnings.catch_warnings():
            warnings.simplefilter("ignore")
            try:
                tm = _make_tm(case)
            except ValueError as e:
                code = _err_code(e)
                if code.startswith("UNMODELLED"):
                    return {"skip": code}
                return {"ctor": code}
            res = {"ctor": None, "cfg": _cfg(tm), "t0": float(tm.time)}
            if case["kind"] == "calls":
                snaps = []
                for k in case["calls"]:
                    if k[0] == "inc":
                        tm.increase_time()
                        out = ["unit"]
                    elif k[0] == "idx":
                        tm.increase_time_index()
                        out = ["unit"]
                    elif k[0] == "final":
                        out = ["bool", bool(tm.final_time_reached())]
                    else:
                        try:
                            r = tm.compute_time_step(iterations=k[1], recompute_solution=k[2])
                            out = ["none"] if r is None else ["dt", float(r)]
                        except (ValueError, IndexError) as e:
                            out = ["err", _err_code(e)]
                    snaps.append(_snap(tm, out))
                res["snaps"] = snaps
                return res
            model = _StubModel(tm, case["events"])
            try:
                pp.run_time_dependent_model(
                    model, {"nonlinear_solver": _ScriptedSolver, "prepare_simulation": True})
                stop = ["finished"]
            except _OutOfEvents:
                stop = ["out"]
            except (ValueError, IndexError) as e:
                stop = ["raised", _err_code(e)]
            res["snaps"] = model.snaps
            res["stop"] = stop
            return res

    # ------------------------------------------------------------------ oracle
    def in_scope(self, case, res):
        """The property's preconditions (valid parameters and schedule, initial step inside
        the first interval), with a safety margin between the schedule and the tolerance."""
        if case["kind"] != "drive" or res.get("skip") or res.get("ctor"):
            return False
        c = res["cfg"]
        s = [float(x) for x in case["sched"]]
        if c["constant"]:
            return False
        if not (c["dt_min"] > 0 and c["rtol"] >= 1e-12 and c["atol"] >= 0):
            return False
        if not (c["dt_init"] <= s[1] - s[0]):
            return False
        for a, b in zip(s, s[1:]):
            if not (b - a > 100 * (c["atol"] + c["rtol"] * abs(b))):
                return False
        return True

    def oracle(self, case, res):
        if not self.in_scope(case, res):
            return None
        c = res["cfg"]
        s = [float(x) for x in case["sched"]]
        rtol, atol = c["rtol"], c["atol"]
        close = lambda x, y: _isclose(x, y, rtol, atol)
        accepted = [res["t0"]]
        nfail = 0
        for ev, sn in zip(case["events"], res["snaps"]):
            err = sn["out"][0] == "err"
            if ev[0] == "c":
                nfail = 0
                if err:
                    return f"raise:converged step raised {sn['out'][1]}"
                if not sn["time"] > accepted[-1]:
                    return (f"monotone:accepted time {sn['time']!r} does not exceed the "
                            f"previous accepted time {accepted[-1]!r}")
                accepted.append(sn["time"])
                if sn["time"] > s[-1] and not close(sn["time"], s[-1]):
                    return f"final:accepted time {sn['time']!r} exceeds the final time {s[-1]!r}"
            else:
                nfail += 1
                if err:
                    if sn["out"][1] not in ("E_dt_at_min", "E_recomp_exhausted"):
                        return f"raise:failed step raised {sn['out'][1]}"
                    continue
                if nfail > c["recomp_max"]:
                    return (f"rewind:{nfail} consecutive failures did not raise "
                            f"(recomp_max={c['recomp_max']})")
                if not close(sn["time"], accepted[-1]):
                    return (f"rewind:after a failed step the clock is {sn['time']!r}, last "
                            f"accepted time {accepted[-1]!r}")
            if not err and sn["out"][0] == "dt":
                dt = sn["dt"]
                inb = c["dt_min"] <= dt <= c["dt_max"]
                short = sn["about"] and 0 < dt <= c["dt_max"]
                if not (inb or short):
                    return (f"dtbounds:dt={dt!r} outside [{c['dt_min']!r}, {c['dt_max']!r}] "
                            f"and not shortened onto the schedule")
        if res["stop"][0] == "finished":
            for t in s:
                if not any(close(x, t) for x in accepted):
                    return f"missed:scheduled time {t!r} is not an accepted time {accepted!r}"
        elif res["stop"][0] == "raised" and res["stop"][1] not in (
                "E_dt_at_min", "E_recomp_exhausted"):
            return f"raise:time loop raised {res['stop'][1]}"
        return None

    # ------------------------------------------------------------------ tie
    def coq_case(self, case, res):
        if res.get("skip"):
            return None
        sched = clist(case["sched"], _f)
        if case["kind"] == "calls":
            if res["ctor"]:
                exp = f"(inr {res['ctor']})"
            else:
                exp = f"(inl ({_cfg_term(res['cfg'])}, {clist(res['snaps'], _snap_term)}))"
            return f"agree_calls {_args(case)} {sched} {clist(case['calls'], _call_term)} {exp}"
        if res["ctor"]:
            exp = f"(inr {res['ctor']})"
        else:
            exp = (f"(inl ({_cfg_term(res['cfg'])}, {clist(res['snaps'], _snap_term)}, "
                   f"{_stop_term(res['stop'])}))")
        return f"agree_drive {_args(case)} {sched} {clist(case['events'], _event_term)} {exp}"

    def coq_diag(self, case, res):
        sched = clist(case["sched"], _f)
        if case["kind"] == "calls":
            return (f"match construct float FOps {_args(case)} {sched} with inr e => inr e | "
                    f"inl c => inl (c, run_calls float FOps c {sched} "
                    f"(init_state float FOps c {sched}) {clist(case['calls'], _call_term)}) end")
        return f"simulate float FOps {_args(case)} {sched} {clist(case['events'], _event_term)}"

    def nontrivial(self, case, res):
        if res.get("skip") or res.get("ctor") or not res.get("snaps"):
            return False
        if case["kind"] == "calls":
            return True
        return (len(case["sched"]) > 2 or any(e[0] == "f" for e in case["events"])
                or res["stop"][0] == "raised")

    def finding_key(self, case, res, why):
        return "C09-" + why.split(":", 1)[0]

    def shrink(self, case, still_fails):
        if case["kind"] != "drive":
            return case
        evs = list(case["events"])
        # drop the tail, then single events
        lo = 0
        while lo < len(evs):
            c = dict(case, events=evs[:len(evs) - 1])
            if len(evs) > 0 and still_fails(c):
                evs = c["events"]
            else:
                break
        changed = True
        while changed and len(evs) > 1:
            changed = False
            for i in range(len(evs)):
                c = dict(case, events=evs[:i] + evs[i + 1:])
                if still_fails(c):
                    evs = c["events"]
                    changed = True
                    break
        return dict(case, events=evs)

    def describe(self, case):
        d = dict(case)
        for k in ("events", "calls"):
            if k in d and len(d[k]) > 12:
                d[k] = d[k][:12] + [f"... {len(case[k]) - 12} more"]
        return d


PROP = C09()
