"""C09 — adaptive time stepping hits every scheduled time (pp.TimeManager + the time loop).

Two kinds of cases:
  * "drive": the REAL time loop ``pp.run_time_dependent_model`` is run on a stub model whose
    (scripted) nonlinear solver ends every step in the real
    ``SolutionStrategy.after_nonlinear_convergence`` / ``after_nonlinear_failure``; after every
    event the manager's state and the answer of ``compute_time_step`` are recorded.  Coq runs
    the model's ``simulate`` (binary64 instance) on the same input and compares bit by bit.
    The oracle evaluates the five claims of the property on the recorded behaviour.
  * "calls": raw sequences of the public calls (increase_time, increase_time_index,
    final_time_reached, compute_time_step with any arguments), compared the same way.
"""
import types
import warnings

import numpy as np

from fractions import Fraction

from harness.core import Prop, cz, cq, cfloat, clist, coption, cbool

import porepy as pp

# ---------------------------------------------------------------------------------------
# error enum <- exception messages of the implementation
# ---------------------------------------------------------------------------------------
_MSG = [
    ("Expected schedule with at least two elements", "E_sched_size"),
    ("Encountered at least one negative time in schedule", "E_sched_neg"),
    ("Schedule must contain strictly increasing times", "E_sched_incr"),
    ("Initial time step must be positive", "E_dtinit_pos"),
    ("Initial time step cannot be larger than final simulation time", "E_dtinit_final"),
    ("Initial time step cannot be smaller than minimum time step", "E_dtinit_lt_min"),
    ("Initial time step cannot be larger than maximum time step", "E_dtinit_gt_max"),
    ("Maximum number of iterations must be positive", "E_iter_max"),
    ("Lower endpoint", "E_iter_low"),  # refined below
    ("Upper endpoint", "E_iter_upp_gt_max"),
    ("Expected under-relaxation factor < 1", "E_under"),
    ("Expected over-relaxation factor > 1", "E_over"),
    ("Encountered dt_min * over_relax_factor > dt_max", "E_min_over"),
    ("Encountered dt_max * under_relax_factor < dt_min", "E_max_under"),
    ("Expected recomputation factor < 1", "E_recomp_factor"),
    ("Number of recomputation attempts must be > 0", "E_recomp_max"),
    ("Time step cannot be adapted without 'iterations'", "E_no_iterations"),
    ("Recomputation will not have any effect", "E_dt_at_min"),
    ("Solution did not converge after", "E_recomp_exhausted"),
    ("Nonlinear iterations did not converge", "E_not_converged"),
    ("Mismatch between the time step and scheduled time", "E_const_mismatch"),
]


def _err_code(e):
    if isinstance(e, IndexError):
        return "E_index"
    if not isinstance(e, ValueError):
        raise e
    msg = str(e)
    for prefix, code in _MSG:
        if msg.startswith(prefix):
            if code == "E_iter_low":
                return "E_iter_low_neg" if "cannot be negative" in msg else "E_iter_low_gt_upp"
            return code
    raise e  # a ValueError the model does not know: broken tie


def _num(x):
    """python number from JSON (int stays int: exercises the integer-array paths)."""
    return x


def _make_tm(case):
    a = case["args"]
    kw = dict(
        schedule=[_num(x) for x in case["sched"]],
        dt_init=_num(a["dt_init"]),
        constant_dt=a["constant"],
        dt_min_max=None if a["dt_min_max"] is None else tuple(a["dt_min_max"]),
        iter_max=a["iter_max"],
        iter_optimal_range=tuple(a["iter_range"]),
        iter_relax_factors=tuple(a["relax"]),
        recomp_factor=a["recomp_factor"],
        recomp_max=a["recomp_max"],
        rtol=a["rtol"],
        atol=a["atol"],
    )
    return pp.TimeManager(**kw)


def _snap(tm, out):
    return {
        "time": float(tm.time), "dt": float(tm.dt), "tidx": int(tm.time_index),
        "idx": int(tm._scheduled_idx), "recomp": int(tm._recomp_num),
        "about": bool(tm._is_about_to_hit_schedule), "out": out,
    }


def _cfg(tm):
    return {
        "dt_init": float(tm.dt_init), "constant": bool(tm.is_constant),
        "dt_min": float(tm.dt_min_max[0]), "dt_max": float(tm.dt_min_max[1]),
        "iter_max": int(tm.iter_max), "iter_low": int(tm.iter_optimal_range[0]),
        "iter_upp": int(tm.iter_optimal_range[1]),
        "under": float(tm.iter_relax_factors[0]), "over": float(tm.iter_relax_factors[1]),
        "recomp_factor": float(tm.recomp_factor), "recomp_max": int(tm.recomp_max),
        "rtol": float(tm.rtol), "atol": float(tm.atol),
    }


class _OutOfEvents(Exception):
    pass


class _EqSys:
    def get_variable_values(self, *a, **k):
        return np.zeros(1)

    def set_variable_values(self, *a, **k):
        pass

    def shift_time_step_values(self, *a, **k):
        pass


class _StubModel:
    """What run_time_dependent_model and after_nonlinear_convergence/failure touch."""

    def __init__(self, tm, events):
        self.time_manager = tm
        self.events = list(events)
        self.snaps = []
        self.last = None
        self.equation_system = _EqSys()
        self.nonlinear_solver_statistics = types.SimpleNamespace(num_iteration=0)
        self.time_step_indices = np.array([0])
        self.convergence_status = False
        orig = tm.compute_time_step

        def wrapped(*a, **k):
            try:
                r = orig(*a, **k)
            except Exception as e:
                self.last = ["err", _err_code(e)]
                raise
            self.last = ["none"] if r is None else ["dt", float(r)]
            return r

        tm.compute_time_step = wrapped

    def prepare_simulation(self):
        pass

    def after_simulation(self):
        pass

    def _is_nonlinear_problem(self):
        return True

    def save_data_time_step(self):
        pass

    def update_solution(self, solution):
        pass


class _ScriptedSolver:
    def __init__(self, params):
        self.params = params

    def solve(self, model):
        if not model.events:
            raise _OutOfEvents()
        ev = model.events.pop(0)
        model.last = None
        try:
            if ev[0] == "c":
                model.nonlinear_solver_statistics.num_iteration = ev[1]
                pp.SolutionStrategy.after_nonlinear_convergence(model)
                conv = True
            else:
                pp.SolutionStrategy.after_nonlinear_failure(model)
                conv = False
        except (ValueError, IndexError) as e:
            model.snaps.append(_snap(model.time_manager, ["err", _err_code(e)]))
            raise
        model.snaps.append(_snap(model.time_manager, model.last or ["unit"]))
        return conv


# ---------------------------------------------------------------------------------------
# Coq emission
# ---------------------------------------------------------------------------------------
def _f(x):
    return cfloat(float(x))


def _q(x):
    return cq(Fraction(float(x)))


def _args(case, num=_f, ty="float"):
    a = case["args"]
    mm = coption(a["dt_min_max"], lambda p: f"({num(p[0])}, {num(p[1])})")
    return (f"(Build_args {ty} " + " ".join([
        num(a["dt_init"]), cbool(a["constant"]), mm, cz(a["iter_max"]),
        cz(a["iter_range"][0]), cz(a["iter_range"][1]), num(a["relax"][0]), num(a["relax"][1]),
        num(a["recomp_factor"]), cz(a["recomp_max"]), num(a["rtol"]), num(a["atol"])]) + ")")


def _cfg_term(c, num=_f, ty="float"):
    return (f"(Build_cfg {ty} " + " ".join([
        num(c["dt_init"]), cbool(c["constant"]), num(c["dt_min"]), num(c["dt_max"]),
        cz(c["iter_max"]), cz(c["iter_low"]), cz(c["iter_upp"]), num(c["under"]), num(c["over"]),
        num(c["recomp_factor"]), cz(c["recomp_max"]), num(c["rtol"]), num(c["atol"])]) + ")")


def _out_term(o, num=_f):
    k = o[0]
    if k == "none":
        return "ONone"
    if k == "unit":
        return "OUnit"
    if k == "dt":
        return f"(ODt {num(o[1])})"
    if k == "bool":
        return f"(OBool {cbool(o[1])})"
    return f"(OErr {o[1]})"


def _snap_term(s, num=_f, ty="float"):
    st = (f"(Build_state {ty} " + " ".join([
        num(s["time"]), num(s["dt"]), cz(s["tidx"]), cz(s["idx"]), cz(s["recomp"]),
        cbool(s["about"])]) + ")")
    return f"({st}, {_out_term(s['out'], num)})"


def _ctor_err(code):
    return "(inr E_const_mismatch)" if code == "E_const_mismatch" else f"(inr (Base {code}))"


def _event_term(e):
    return f"Converged {cz(e[1])}" if e[0] == "c" else "Failed"


def _call_term(k):
    if k[0] == "inc":
        return "CIncreaseTime"
    if k[0] == "idx":
        return "CIncreaseIndex"
    if k[0] == "final":
        return "CFinal"
    return f"CCompute {coption(k[1], cz)} {cbool(k[2])}"


def _stop_term(s):
    if s[0] == "finished":
        return "Finished"
    if s[0] == "out":
        return "OutOfEvents"
    return f"(Raised {s[1]})"


# ---------------------------------------------------------------------------------------
# generator helpers
# ---------------------------------------------------------------------------------------
_DYADIC_GAPS = [0.25, 0.5, 0.5, 1.0, 1.0, 1.5, 2.0, 3.0, 0.75, 0.125]
_DECIMAL_GAPS = [0.1, 0.2, 0.3, 0.7, 1.1, 0.05, 2.5, 0.9, 1.3, 10.0, 0.6]
_STARTS = [0, 0, 0, 0.5, 1, 3, 10.25, 0.1, 7.3, 100.0, 1e6]


def _isclose(a, b, rtol, atol):
    return abs(a - b) <= atol + rtol * abs(b) or a == b


class C09(Prop):
    id = "C09"
    props_file = "Props/C09.v"
    preamble = ("From Coq Require Import List ZArith Bool QArith PrimFloat.\nImport ListNotations.\n"
                "From PP Require Import Model.C09 Model.C09_ext.\n")
    n_cases = (500, 20000)
    design_ref = "DESIGN.md §5 C09, §6.1 (repair), Appendix A C09_main"
    level_text = (
        "Coq theorems (exact real arithmetic) over an executable, statement-by-statement "
        "transcription of the COMPLETE TimeManager.__init__ validation (incl. the np.arange/"
        "searchsorted/isclose compatibility test for constant_dt), compute_time_step with all its "
        "adaptations/corrections, increase_time, final_time_reached and the time loop of "
        "run_time_dependent_model with after_nonlinear_convergence/failure. C09_main: for every "
        "accepted adaptive configuration with 0 < dt_min and non-negative tolerances, every "
        "well-separated schedule of any length, an initial step inside the first interval and "
        "EVERY sequence of converged (any iteration count) and failed steps: accepted times "
        "strictly increase, never exceed the final time, every scheduled time is within isclose "
        "of an accepted time once the loop finishes, dt stays in [dt_min, dt_max] unless "
        "shortened onto the schedule (then 0 < dt <= dt_max), a failed step rewinds the clock "
        "exactly or raises (recomputation exhausted / dt == dt_min), nothing else raises. "
        "C09_constant: the constant-step analogue (accepted times t0+k*dt, every scheduled time "
        "matched under the constructor's compatibility test, failed steps raise). "
        "C09_instance_independence / C09_rational_runs_are_real_runs: the polymorphic model "
        "commutes with every homomorphism of instances, in particular Q2R from the executable "
        "exact rational instance to the real instance. Three _refuted theorems give the boundary: "
        "dropping any one of the guards (first interval, separation, 0 < dt_min) on inputs the "
        "constructor accepts falsifies C09_main; non-positive tolerances degrade isclose to "
        "equality. Tie on every run: the real time loop and the real class are executed on random "
        "schedules / parameters / event scripts; Coq must reproduce every state, return value and "
        "exception bit for bit with the binary64 instance, and on inputs where no binary64 "
        "operation rounds (small dyadic data, power-of-two factors and tolerances) additionally "
        "with the exact rational instance on the implementation's numbers read as rationals.")
    level_note = (
        "P-core. NOT proved: floating-point rounding (theorems are over the reals; the binary64 "
        "instance of the model is only executed; in floats (t+dt)-dt may differ from t by an "
        "ulp, which the oracle tolerates via isclose). The link binary64 <-> exact instance is by "
        "execution (per run, on the dyadic cases only), not a theorem about PrimFloat; the link "
        "rational <-> real instance IS a theorem (homomorphism transfer). Trusted: Coq kernel, "
        "vm_compute and PrimFloat primitives (= IEEE binary64 as in CPython/numpy, "
        "round-to-nearest-even), Prim2SF for the ceiling of a double; the harness (generator, "
        "message->error-enum table, literal emission via float.hex() / fractions.Fraction); the "
        "stub model and scripted solver that stand in for a PDE model inside the real time loop; "
        "np.arange's documented fill rule (start + i*((start+step)-start), length "
        "ceil((stop-start)/step)) and searchsorted(left) = number of smaller entries on a sorted "
        "array, both transcribed and tied. Theorem guards not enforced by the constructor and "
        "therefore explicit hypotheses: 0 < dt_min, tolerances >= 0, consecutive scheduled times "
        "further apart than the isclose tolerance, dt_init <= first interval (each shown "
        "necessary by a _refuted theorem, except the tolerance sign: non-positive tolerances are "
        "shown to mean exact comparison, mixed signs are not characterised); for constant dt: "
        "dt_init > 2*(atol + rtol*|final + dt_init|). In C09_constant scheduled times are matched "
        "in the constructor's orientation isclose(scheduled, simulated). numpy warnings and "
        "print_info output are not modelled.")
    technique = ("Coq proof (inductive invariant over all event sequences of the transcribed time "
                 "loop, reals) + vm_compute bit-exact execution correspondence (PrimFloat) + "
                 "direct oracle on the real time loop")
    rule = ("random schedules of 2-6 points (arbitrary start, dyadic or decimal gaps, floats or "
            "ints), parameters mostly valid with dyadic relaxation factors so that time+dt lands "
            "EXACTLY on scheduled times often, plus a stream of boundary/invalid parameter sets "
            "(each constructor check on and just off its boundary, default dt_min_max, zero/"
            "negative tolerances, near-coincident scheduled times, constant_dt); event scripts "
            "of up to 80 (quick) / 400 (thorough) converged(iterations)/failed events run through "
            "the real run_time_dependent_model, and raw public-call sequences; non-trivial = at "
            "least one event executed and (an interior scheduled time, a failure, or an error)")
    trusted = ["binary64 instance vs exact instances: linked by execution on non-rounding (dyadic) "
               "cases, not by a theorem; rational vs real instance: proved (Q2R homomorphism)",
               "PrimFloat = IEEE binary64 arithmetic of CPython/numpy",
               "stub model + scripted solver inside the real pp.run_time_dependent_model"]
    assumptions = ["exact real arithmetic in the theorems (rounding not covered)",
                   "0 < dt_min, rtol >= 0, atol >= 0 (not checked by the constructor)",
                   "consecutive scheduled times differ by more than atol + rtol*|later time|",
                   "dt_init <= schedule[1] - schedule[0] (C09_main)",
                   "constant dt (C09_constant): dt_init > 2*(atol + rtol*|final + dt_init|)"]

    # ------------------------------------------------------------------ generation
    def _schedule(self, rng, dyadic):
        n = rng.choice([2, 2, 3, 3, 4, 5, 6])
        gaps = _DYADIC_GAPS if dyadic else _DECIMAL_GAPS
        t0 = rng.choice(_STARTS if not dyadic else [0, 0, 0.5, 1, 3, 10.25, 64.0])
        pts = [t0]
        for _ in range(n - 1):
            pts.append(pts[-1] + rng.choice(gaps))
        return pts

    def _valid_args(self, rng, sched, dyadic):
        first = sched[1] - sched[0]
        if dyadic:
            dmax = rng.choice([0.25, 0.5, 1.0, 2.0, 4.0])
            dmin = dmax / rng.choice([4, 8, 16, 64])
            relax = rng.choice([(0.5, 2.0), (0.5, 2.0), (0.25, 2.0), (0.5, 4.0), (0.5, 1.5),
                                (0.75, 1.25)])
            rf = rng.choice([0.5, 0.5, 0.25, 0.75])
            cands = [d for d in (dmax, dmax / 2, dmax / 4, dmin, first) if dmin <= d <= dmax
                     and d <= first]
        else:
            dmax = rng.choice([0.3, 0.5, 1.0, 0.7, 2.0, 0.25])
            dmin = rng.choice([0.001, 0.01, 0.05, dmax / 10])
            relax = rng.choice([(0.7, 1.3), (0.9, 1.1), (0.5, 2.0), (0.3, 1.7)])
            rf = rng.choice([0.5, 0.3, 0.1, 0.9])
            cands = [d for d in (dmax, dmin, 0.1, 0.2, first, first / 3) if dmin <= d <= dmax
                     and d <= first]
        dinit = rng.choice(cands) if cands else dmin
        low = rng.choice([1, 2, 4, 4])
        upp = low + rng.choice([0, 1, 3, 3])
        tol = rng.choice([(1e-10, 1e-16)] * 6 + [(1e-8, 1e-12), (1e-12, 0.0), (1e-5, 1e-8)])
        if dyadic and rng.random() < 0.6:
            # tolerances that are powers of two: with power-of-two factors no operation rounds
            tol = rng.choice([(2.0 ** -33, 2.0 ** -53), (2.0 ** -33, 0.0), (2.0 ** -40, 2.0 ** -60)])
        return {
            "dt_init": dinit, "constant": False, "dt_min_max": [dmin, dmax],
            "iter_max": upp + rng.choice([0, 3, 8]), "iter_range": [low, upp],
            "relax": list(relax), "recomp_factor": rf, "recomp_max": rng.choice([1, 2, 3, 5, 10]),
            "rtol": tol[0], "atol": tol[1],
        }

    def _perturb(self, rng, case):
        """One deliberate corner: each constructor check on / off its boundary etc."""
        a = case["args"]
        s = case["sched"]
        dmin, dmax = a["dt_min_max"]
        k = rng.randrange(30)
        if k == 0:
            case["sched"] = s[:1]
        elif k == 1:
            case["sched"] = [-1.0] + [x for x in s[1:]]
        elif k == 2:
            case["sched"] = s[:-1] + [s[-2]]
        elif k == 3:
            a["dt_init"] = rng.choice([0, 0.0, -0.5])
        elif k == 4:
            a["dt_init"] = rng.choice([s[-1], s[-1] * 2 + 1])
            a["dt_min_max"] = [dmin, max(dmax, a["dt_init"])]
        elif k == 5:
            a["dt_init"] = rng.choice([dmin, dmin / 2])
        elif k == 6:
            a["dt_init"] = rng.choice([dmax, dmax * 1.5])
        elif k == 7:
            a["iter_max"] = rng.choice([0, -1, 1])
            if a["iter_max"] == 1:
                a["iter_range"] = rng.choice([[0, 1], [1, 1], [0, 0], [1, 2]])
        elif k == 8:
            a["iter_range"] = [a["iter_range"][1] + 1, a["iter_range"][1]]
        elif k == 9:
            a["iter_range"] = [a["iter_range"][0], a["iter_max"] + rng.choice([0, 1])]
        elif k == 10:
            a["iter_range"] = [rng.choice([-1, 0]), a["iter_range"][1]]
        elif k == 11:
            a["relax"] = [rng.choice([1.0, 1.2, 0.0, -0.5]), a["relax"][1]]
        elif k == 12:
            a["relax"] = [a["relax"][0], rng.choice([1.0, 0.9])]
        elif k == 13:
            a["dt_min_max"] = [dmin, dmin * a["relax"][1] * rng.choice([1.0, 0.99])]
            a["dt_init"] = dmin
        elif k == 14:
            a["dt_min_max"] = [dmax * a["relax"][0] * rng.choice([1.0, 1.01]), dmax]
            a["dt_init"] = dmax
        elif k == 15:
            a["recomp_factor"] = rng.choice([1.0, 1.5, 0.0, -0.5])
        elif k == 16:
            a["recomp_max"] = rng.choice([0, -2])
        elif k in (17, 18, 19):
            a["dt_min_max"] = None
            a["dt_init"] = rng.choice([0.001 * s[-1], 0.1 * s[-1], 0.01 * s[-1], 0.05,
                                       0.2 * s[-1], 0.0005 * s[-1]])
        elif k == 20:
            a["rtol"], a["atol"] = rng.choice([(0.0, 0.0), (-1e-10, 0.0), (0.0, 1e-16)])
        elif k == 21:
            # near-coincident scheduled times (inside / just outside the isclose band)
            j = rng.randrange(1, len(s))
            eps = rng.choice([1e-12, 1e-11, 3e-10, 1e-9]) * max(1.0, abs(s[j]))
            case["sched"] = s[:j] + [s[j] - eps] + s[j:]
        elif k == 22:
            a["dt_min_max"] = [rng.choice([0.0, -0.25]), dmax]
        elif k in (23, 24):
            self._make_constant(rng, case)
        elif k == 25:
            # dt_init larger than the first interval (outside the property's precondition)
            a["dt_init"] = min(dmax, (s[1] - s[0]) * 2)
        elif k == 26 and all(float(x).is_integer() for x in s):
            case["sched"] = [int(x) for x in s]
            if float(a["dt_init"]).is_integer():
                a["dt_init"] = int(a["dt_init"])
        # 27..29: unchanged
        return case

    def _make_constant(self, rng, case):
        """constant_dt=True with a step that is (often) compatible with the schedule; the
        number of simulated times of the constructor's np.arange is kept below ~4000."""
        a = case["args"]
        s = [float(x) for x in case["sched"]]
        span = s[-1] - s[0]
        gaps = [b - x for x, b in zip(s, s[1:])]
        cands = [min(gaps), min(gaps) / 2, min(gaps) / 4, 0.125, 0.25, 0.5, 0.1, 0.05, 1.0,
                 0.3, span, span / 3, gaps[0]]
        cands = [d for d in cands if d > 0 and span / d <= 4000]
        a["constant"] = True
        a["dt_init"] = rng.choice(cands) if cands else span
        return case

    def _events(self, rng, a, n):
        low, upp = a["iter_range"]
        pfail = rng.choice([0.0, 0.05, 0.15, 0.3, 0.5])
        if a["constant"]:
            pfail = rng.choice([0.0, 0.0, 0.0, 0.01])      # any failure ends a constant-dt run
        mode = rng.choice(["mixed", "mixed", "keep", "grow", "shrink"])
        evs = []
        for _ in range(n):
            if rng.random() < pfail:
                evs.append(["f"])
                continue
            if mode == "keep" and upp - low >= 2:
                k = rng.randint(low + 1, upp - 1)
            elif mode == "grow":
                k = rng.randint(0, max(low, 0))
            elif mode == "shrink":
                k = upp + rng.randint(0, 3)
            else:
                k = rng.randint(0, upp + 3)
            evs.append(["c", k])
        return evs

    def generate(self, rng, n, tier):
        maxev = 80 if tier == "quick" else 400
        for i in range(n):
            dyadic = rng.random() < 0.6
            sched = self._schedule(rng, dyadic)
            case = {"kind": "drive", "sched": sched,
                    "args": self._valid_args(rng, sched, dyadic)}
            r0 = rng.random()
            if r0 < 0.3:
                case = self._perturb(rng, case)
            elif r0 < 0.4:
                case = self._make_constant(rng, case)
            nev = rng.choice([5, 20, maxev // 2, maxev, maxev])
            if rng.random() < 0.8:
                case["events"] = self._events(rng, case["args"], nev)
            else:
                case["kind"] = "calls"
                calls = []
                for _ in range(nev):
                    r = rng.random()
                    if r < 0.3:
                        calls.append(["inc"])
                    elif r < 0.4:
                        calls.append(["idx"])
                    elif r < 0.5:
                        calls.append(["final"])
                    elif r < 0.85:
                        calls.append(["compute", rng.choice([None, 0, 1, 3, 4, 5, 6, 8, 20]),
                                      False])
                    else:
                        calls.append(["compute", rng.choice([None, None, 3]), True])
                case["calls"] = calls
            yield case

    # ------------------------------------------------------------------ implementation
    def run_impl(self, case):
        with warnings.catch_warnings():
            warnings.simplefilter("ignore")
            try:
                tm = _make_tm(case)
            except ValueError as e:
                return {"ctor": _err_code(e)}
            res = {"ctor": None, "cfg": _cfg(tm), "t0": float(tm.time)}
            if case["kind"] == "calls":
                snaps = []
                for k in case["calls"]:
                    if k[0] == "inc":
                        tm.increase_time()
                        out = ["unit"]
                    elif k[0] == "idx":
                        tm.increase_time_index()
                        out = ["unit"]
                    elif k[0] == "final":
                        out = ["bool", bool(tm.final_time_reached())]
                    else:
                        try:
                            r = tm.compute_time_step(iterations=k[1], recompute_solution=k[2])
                            out = ["none"] if r is None else ["dt", float(r)]
                        except (ValueError, IndexError) as e:
                            out = ["err", _err_code(e)]
                    snaps.append(_snap(tm, out))
                res["snaps"] = snaps
                return res
            model = _StubModel(tm, case["events"])
            try:
                pp.run_time_dependent_model(
                    model, {"nonlinear_solver": _ScriptedSolver, "prepare_simulation": True})
                stop = ["finished"]
            except _OutOfEvents:
                stop = ["out"]
            except (ValueError, IndexError) as e:
                stop = ["raised", _err_code(e)]
            res["snaps"] = model.snaps
            res["stop"] = stop
            return res

    # ------------------------------------------------------------------ oracle
    def in_scope(self, case, res):
        """The property's preconditions (valid parameters and schedule, initial step inside
        the first interval), with a safety margin between the schedule and the tolerance."""
        if case["kind"] != "drive" or res.get("ctor"):
            return False
        c = res["cfg"]
        s = [float(x) for x in case["sched"]]
        if c["constant"]:
            return False
        if not (c["dt_min"] > 0 and c["rtol"] >= 1e-12 and c["atol"] >= 0):
            return False
        if not (c["dt_init"] <= s[1] - s[0]):
            return False
        for a, b in zip(s, s[1:]):
            if not (b - a > 100 * (c["atol"] + c["rtol"] * abs(b))):
                return False
        return True

    def oracle_constant(self, case, res):
        """constant_dt=True accepted by the constructor: accepted times increase by dt_init,
        do not pass the final time (beyond isclose), every scheduled time is matched when the
        loop finishes, and a failed step raises."""
        if case["kind"] != "drive" or res.get("ctor") or not res["cfg"]["constant"]:
            return None
        c = res["cfg"]
        s = [float(x) for x in case["sched"]]
        rtol, atol, d = c["rtol"], c["atol"], c["dt_init"]
        if not (rtol >= 1e-12 and atol >= 0 and d > 1e4 * (atol + rtol * abs(s[-1] + d))):
            return None
        # either orientation of np.isclose, as the constructor (scheduled vs simulated) and
        # final_time_reached (time vs final) use different reference values
        close = lambda x, y: _isclose(x, y, rtol, atol) or _isclose(y, x, rtol, atol)
        accepted = [res["t0"]]
        for ev, sn in zip(case["events"], res["snaps"]):
            err = sn["out"][0] == "err"
            if ev[0] == "f":
                if not (err and sn["out"][1] == "E_not_converged"):
                    return f"rewind:failed constant step answered {sn['out']}"
                continue
            if err or sn["out"] != ["unit"]:
                return f"raise:converged constant step answered {sn['out']}"
            if not sn["time"] > accepted[-1]:
                return f"monotone:accepted time {sn['time']!r} after {accepted[-1]!r}"
            if sn["dt"] != d:
                return f"dtbounds:constant manager changed dt to {sn['dt']!r} (dt_init {d!r})"
            accepted.append(sn["time"])
            if sn["time"] > s[-1] and not close(sn["time"], s[-1]):
                return f"final:accepted time {sn['time']!r} exceeds the final time {s[-1]!r}"
        if res["stop"][0] == "finished":
            for t in s:
                if not any(close(x, t) for x in accepted):
                    return f"missed:scheduled time {t!r} is not an accepted time (constant dt)"
        elif res["stop"][0] == "raised" and res["stop"][1] != "E_not_converged":
            return f"raise:time loop raised {res['stop'][1]}"
        return None

    def oracle(self, case, res):
        if case["kind"] == "drive" and not res.get("ctor") and res["cfg"]["constant"]:
            return self.oracle_constant(case, res)
        if not self.in_scope(case, res):
            return None
        c = res["cfg"]
        s = [float(x) for x in case["sched"]]
        rtol, atol = c["rtol"], c["atol"]
        close = lambda x, y: _isclose(x, y, rtol, atol)
        accepted = [res["t0"]]
        nfail = 0
        for ev, sn in zip(case["events"], res["snaps"]):
            err = sn["out"][0] == "err"
            if ev[0] == "c":
                nfail = 0
                if err:
                    return f"raise:converged step raised {sn['out'][1]}"
                if not sn["time"] > accepted[-1]:
                    return (f"monotone:accepted time {sn['time']!r} does not exceed the "
                            f"previous accepted time {accepted[-1]!r}")
                accepted.append(sn["time"])
                if sn["time"] > s[-1] and not close(sn["time"], s[-1]):
                    return f"final:accepted time {sn['time']!r} exceeds the final time {s[-1]!r}"
            else:
                nfail += 1
                if err:
                    if sn["out"][1] not in ("E_dt_at_min", "E_recomp_exhausted"):
                        return f"raise:failed step raised {sn['out'][1]}"
                    continue
                if nfail > c["recomp_max"]:
                    return (f"rewind:{nfail} consecutive failures did not raise "
                            f"(recomp_max={c['recomp_max']})")
                if not close(sn["time"], accepted[-1]):
                    return (f"rewind:after a failed step the clock is {sn['time']!r}, last "
                            f"accepted time {accepted[-1]!r}")
            if not err and sn["out"][0] == "dt":
                dt = sn["dt"]
                inb = c["dt_min"] <= dt <= c["dt_max"]
                short = sn["about"] and 0 < dt <= c["dt_max"]
                if not (inb or short):
                    return (f"dtbounds:dt={dt!r} outside [{c['dt_min']!r}, {c['dt_max']!r}] "
                            f"and not shortened onto the schedule")
        if res["stop"][0] == "finished":
            for t in s:
                if not any(close(x, t) for x in accepted):
                    return f"missed:scheduled time {t!r} is not an accepted time {accepted!r}"
        elif res["stop"][0] == "raised" and res["stop"][1] not in (
                "E_dt_at_min", "E_recomp_exhausted"):
            return f"raise:time loop raised {res['stop'][1]}"
        return None

    # ------------------------------------------------------------------ tie
    @staticmethod
    def exact_designated(case):
        """Inputs on which NO binary64 operation of the time stepping rounds: small dyadic
        schedule / steps / bounds, relaxation and recomputation factors that are powers of
        two, tolerances that are powers of two (or 0), dt_min bounded away from 0.  On these
        the implementation's numbers, read as exact rationals, must be reproduced by the
        RATIONAL instance of the model as well."""
        a = case["args"]

        def small(x):
            fr = Fraction(float(x))
            return abs(fr) <= 1024 and fr.denominator <= 256

        def pow2(x, lo=-4, hi=4):
            fr = Fraction(float(x))
            if fr <= 0:
                return False
            n, d = fr.numerator, fr.denominator
            return (n == 1 or d == 1) and (n & (n - 1)) == 0 and (d & (d - 1)) == 0 \
                and 2.0 ** lo <= fr <= 2.0 ** hi

        if a["dt_min_max"] is None or len(case["sched"]) < 2:
            return False
        nums = list(case["sched"]) + [a["dt_init"]] + list(a["dt_min_max"])
        if not all(small(x) for x in nums):
            return False
        if not (Fraction(float(a["dt_min_max"][0])) >= Fraction(1, 256)):
            return False
        if not (pow2(a["relax"][0]) and pow2(a["relax"][1]) and pow2(a["recomp_factor"])):
            return False
        for t in (a["rtol"], a["atol"]):
            if not (t == 0 or pow2(t, -60, 0)):
                return False
        if a["constant"] and not pow2(a["dt_init"], -8, 8):
            return False
        return True

    def coq_case(self, case, res):
        sched = clist(case["sched"], _f)
        if case["kind"] == "calls":
            if res["ctor"]:
                exp = _ctor_err(res["ctor"])
            else:
                exp = f"(inl ({_cfg_term(res['cfg'])}, {clist(res['snaps'], _snap_term)}))"
            return (f"agree_calls_full {_args(case)} {sched} "
                    f"{clist(case['calls'], _call_term)} {exp}")
        evs = clist(case["events"], _event_term)
        if res["ctor"]:
            exp = _ctor_err(res["ctor"])
        else:
            exp = (f"(inl ({_cfg_term(res['cfg'])}, {clist(res['snaps'], _snap_term)}, "
                   f"{_stop_term(res['stop'])}))")
        term = f"agree_drive_full {_args(case)} {sched} {evs} {exp}"
        self._counts["drive_cases"] = self._counts.get("drive_cases", 0) + 1
        if case["args"]["constant"]:
            k = "constant_dt_" + ("rejected" if res["ctor"] else "accepted")
            self._counts[k] = self._counts.get(k, 0) + 1
        if self.exact_designated(case):
            self._counts["also_exact_rational_instance"] = \
                self._counts.get("also_exact_rational_instance", 0) + 1
            # second, exact instance: the same run in rational arithmetic
            if res["ctor"]:
                expq = _ctor_err(res["ctor"])
            else:
                snaps = clist(res["snaps"], lambda x: _snap_term(x, _q, "Q"))
                expq = (f"(inl ({_cfg_term(res['cfg'], _q, 'Q')}, {snaps}, "
                        f"{_stop_term(res['stop'])}))")
            term = (f"({term}) && agree_drive_Q {_args(case, _q, 'Q')} "
                    f"{clist(case['sched'], _q)} {evs} {expq}")
        return term

    _counts = {}

    def extra_evidence(self):
        return {"tie_breakdown": dict(self._counts)}

    def coq_diag(self, case, res):
        sched = clist(case["sched"], _f)
        if case["kind"] == "calls":
            return (f"match construct_full float FOps FExt {_args(case)} {sched} with "
                    f"inr e => inr e | inl c => inl (c, run_calls float FOps c {sched} "
                    f"(init_state float FOps c {sched}) {clist(case['calls'], _call_term)}) end")
        return (f"simulate_full float FOps FExt {_args(case)} {sched} "
                f"{clist(case['events'], _event_term)}")

    def nontrivial(self, case, res):
        if res.get("ctor") or not res.get("snaps"):
            return False
        if case["kind"] == "calls":
            return True
        return (len(case["sched"]) > 2 or any(e[0] == "f" for e in case["events"])
                or res["stop"][0] == "raised")

    def finding_key(self, case, res, why):
        return "C09-" + why.split(":", 1)[0]

    def shrink(self, case, still_fails):
        if case["kind"] != "drive":
            return case
        evs = list(case["events"])
        # drop the tail, then single events
        lo = 0
        while lo < len(evs):
            c = dict(case, events=evs[:len(evs) - 1])
            if len(evs) > 0 and still_fails(c):
                evs = c["events"]
            else:
                break
        changed = True
        while changed and len(evs) > 1:
            changed = False
            for i in range(len(evs)):
                c = dict(case, events=evs[:i] + evs[i + 1:])
                if still_fails(c):
                    evs = c["events"]
                    changed = True
                    break
        return dict(case, events=evs)

    def describe(self, case):
        d = dict(case)
        for k in ("events", "calls"):
            if k in d and len(d[k]) > 12:
                d[k] = d[k][:12] + [f"... {len(case[k]) - 12} more"]
        return d


PROP = C09()
