"""C25 — fractured mixed-dimensional grids are geometrically conforming."""
import warnings
from fractions import Fraction as F

import numpy as np
import scipy.sparse as sps

from harness.core import Prop, cq, cz, cnat, cbool, clist

import porepy as pp
from porepy.fracs import split_grid

TOL = 1e-9
KEY_SHIFT = "create_mdg-cartesian-domain-not-at-origin"


# ------------------------------------------------------------------ Coq literals
def _vec(v):
    return clist([float(x) for x in v], cq)


def _nat(n):
    return f"{int(n)}%nat"


def _pairs(l):
    return clist(l, lambda p: f"({_nat(p[0])}, {_nat(p[1])})")


def _grid(g):
    cf = clist(g["cf"], lambda t: f"({_nat(t[0])}, {_nat(t[1])}, {cz(t[2])})")
    geom = clist(g["geom"], lambda x: f"({_vec(x[0])}, {_vec(x[1])}, {cq(x[2])})")
    return (f"(mkGrid {_nat(g['nf'])} {cf} {geom} {clist(g['tF'], cbool)} {clist(g['tT'], cbool)} "
            f"{clist(g['tB'], cbool)} {_pairs(g['pairs'])})")


def _hface(f):
    return (f"(mkHF {_nat(f['id'])} {_vec(f['c'])} {cq(f['area'])} {_vec(f['nout'])} "
            f"{_nat(f['ncells'])} {cbool(f['tag'])})")


def _lcell(c):
    return f"(mkLC {_vec(c['c'])} {cq(c['vol'])} {clist(c['faces'], _hface)})"


def _wl(l):
    return clist(l, lambda p: f"({_nat(p[0])}, {cq(p[1])})")


def _mcell(m):
    return f"(mkMC {_vec(m['c'])} {cq(m['vol'])} {_wl(m['low'])} {_wl(m['face'])})"


def _frac(fr):
    if fr is None:
        return "NoFrac"
    if fr[0] == "line":
        return f"(Line {_vec(fr[1])} {_vec(fr[2])})"
    return f"(Plane {_vec(fr[1])} {_vec(fr[2])} {_vec(fr[3])})"


def _iface(it):
    return (f"(mkIF {_nat(it['sides'])} {clist(it['cells'], _lcell)} {clist(it['mortar'], _mcell)} "
            f"{_frac(it['frac'])} {clist(it['pts'], _vec)})")


# ------------------------------------------------------------------ snapshots
def _snapshot(g, pairs=True):
    cf = g.cell_faces.tocoo()
    trip = sorted((int(r), int(c), int(v)) for r, c, v in zip(cf.row, cf.col, cf.data) if v != 0)
    nf = int(g.num_faces)
    geom = [[g.face_centers[:, f].tolist(), g.face_normals[:, f].tolist(), float(g.face_areas[f])]
            for f in range(g.face_centers.shape[1])]
    out = {"nf": nf, "cf": [list(t) for t in trip], "geom": geom,
           "tF": [bool(x) for x in g.tags["fracture_faces"]],
           "tT": [bool(x) for x in g.tags["tip_faces"]],
           "tB": [bool(x) for x in g.tags["domain_boundary_faces"]],
           "pairs": []}
    if pairs and hasattr(g, "frac_pairs"):
        out["pairs"] = [[int(a), int(b)] for a, b in np.asarray(g.frac_pairs).T]
    return out


class C25(Prop):
    id = "C25"
    props_file = "Props/C25.v"
    preamble = ("From Coq Require Import List QArith ZArith Bool.\nImport ListNotations.\n"
                "From PP Require Import Model.C25.\nOpen Scope Q_scope.\n")
    n_cases = (20, 150)
    design_ref = "DESIGN.md §5 C25"
    level_text = (
        "Two halves.  (a) Coq theorems (all inputs) over an executable incidence model of "
        "split_grid.split_faces (duplicate_faces/_duplicate_specific_faces, _update_face_cells, "
        "update_cell_connectivity incl. its on-boundary, ValueError and AssertionError exits, "
        "frac_pairs): the split branch only relabels incidences (C25_split_step_is_relabel, "
        "C25_relabel_incidences); every duplicated pair has identical face geometry "
        "(C25_split_pair_geometry) and keeps neighbours of opposite sides with opposite signs, "
        "hence opposite outward normals (C25_split_pair_opposite); every cell keeps its faces' "
        "geometry and signs, so cell volumes and the host volume are unchanged "
        "(C25_cells_unchanged); the face-cell map couples each lower cell to the face and its copy "
        "(C25_face_cells_both_sides).  The model is tied (X) to the real split_faces on Cartesian "
        "grids: Coq recomputes cell_faces, face geometry, tags, frac_pairs and the face-cell maps "
        "and compares exactly.  (b) Certificate tie (K) on the FULL md-grid produced by "
        "pp.create_mdg (Cartesian and gmsh simplex, 2-D and 3-D): a Coq boolean conformity checker "
        "is evaluated on the real face_cells / mortar projection maps, face centres, outward "
        "normals, areas, cell centres, volumes and tags (converted exactly to Q); "
        "C25_certificate_sound proves that acceptance implies the conformity statement (one host "
        "face per side, coinciding in centre and measure, split, tagged, opposite outward normals; "
        "mortar cells matching cells and faces one to one per side; fracture grids on their "
        "line/plane; tags = coupled faces; host volume = domain volume) within 1e-9; "
        "C25_certificate_request_sound adds the comparison with what was REQUESTED (fracture-grid "
        "measure = requested fracture length/area, 3-D intersection-line length, host node span = "
        "domain box, one fracture grid per fracture); C25_certificate_extents_sound adds the "
        "per-axis extent of every fracture grid = extent of its (snapped) fracture; "
        "C25_certificate_coupling_complete adds coupling completeness (faces coinciding with cells "
        "of a lower-dimensional grid = faces coupled to it by an interface, so a missing interface "
        "at a T/L ending is rejected).  The oracle is "
        "the same predicate in numpy.")
    level_note = (
        "P-core.  NOT proved: gmsh meshing, _assemble_mdg face matching, create_interfaces / "
        "MortarGrid construction, node duplication (duplicate_nodes) and the geometry recomputation "
        "are not modelled — their result is validated per generated instance by the certificate; "
        "the tag bookkeeping of duplicate_faces is transcribed and tied but has no theorem; "
        "floating-point rounding.  The split theorems assume a well-formed host (face numbers below "
        "num_faces, two neighbours of a face carry opposite signs) — stated as hypotheses.")
    technique = ("Coq proof (incidence-model invariants of the face split; soundness of the boolean "
                 "conformity certificate) + vm_compute execution correspondence (split step) and "
                 "certificate evaluation on the real md-grid")
    rule = ("(a) split step: Cartesian 2-D grids with 1-2 face sets (interior lines, lines reaching or "
            "lying on the boundary, crossing lines, a bent face set as error input) through the real "
            "split_faces; (b) full pipeline through pp.create_mdg: 1-3 line fractures (isolated, X, T, "
            "L, touching the boundary, either orientation) drawn in index space and mapped through the "
            "expected grid lines of: uniform Cartesian grids (cell_size / cell_size_x,y), Cartesian "
            "grids whose cell size does NOT divide the extent (documented: round(L/cs) cells filling "
            "the domain), TENSOR grids with non-uniform lines and domains not at the origin, and "
            "Cartesian grids on domains not at the origin (repaired in /repo d7e47e835; the old "
            "witness is replayed from the corpus first) [quick]; plus simplex grids "
            "via gmsh (also translated domains) and 1-2 rectangle fractures in 3-D (Cartesian, "
            "non-dividing, tensor, simplex) [thorough]; in both tiers two of every five cases are "
            "NON-DYADIC structured grids (10/20/25/50/100 cells over lengths 1, 0.7, 2, 3 on one axis, "
            "2-D and 3-D, through create_mdg and through meshing.cart_grid directly) whose fracture "
            "coordinates are decimals k*h (preferring those whose float quotient x*n/L falls just "
            "below k, e.g. 0.29, 0.57, 0.58 with 100 cells) or off-grid in the lower / upper half of "
            "a cell; the expected fracture is the request snapped to the NEAREST grid plane per "
            "coordinate, computed in exact rationals; every grid is checked against the REQUESTED "
            "(snapped) fractures and domain: plane/line equation, measure, extent per axis; one case in "
            "five is a 2-D T- or L-ending (Cartesian, non-dividing or tensor; Cartesian, tensor and "
            "simplex endings are also replayed from the corpus); COUPLING COMPLETENESS is checked for "
            "every pair of grids of dimensions d, d-1: the faces whose centre coincides with a cell "
            "of the lower grid are exactly the faces an interface between the two couples; "
            "non-trivial = at least one interface with two sides")
    trusted = ["gmsh meshing and _assemble_mdg face matching are NOT modelled: their output is validated "
               "per instance by the certificate (conformity checker evaluated in Coq on the real "
               "face_cells / mortar maps, centres, normals, measures converted exactly to Q, tolerance "
               "1e-9*(1+|x|))",
               "the extraction of the certificate data from the md-grid objects (harness/props/c25.py)"]
    assumptions = ["fractures are planar and either inside the domain or on its boundary; Cartesian "
                   "networks contain no overlapping collinear fractures (create_mdg rejects them)"]

    # ---------------------------------------------------------------- generator
    def _gen_split(self, rng):
        nx, ny = rng.randint(3, 5), rng.randint(3, 5)
        yface = lambda i, j: (nx + 1) * ny + j * nx + i      # horizontal face (i..i+1, y=j)
        xface = lambda i, j: j * (nx + 1) + i                # vertical face (x=i, j..j+1)
        kind = rng.choice(["h", "v", "x", "bdry", "reach", "bent", "hh"])
        sets = []
        if kind in ("h", "x", "hh", "reach"):
            j = rng.randint(1, ny - 1)
            a = 0 if kind == "reach" else rng.randint(0, nx - 2)
            b = rng.randint(a + 1, nx)
            sets.append([yface(i, j) for i in range(a, b)])
        if kind in ("v", "x"):
            i = rng.randint(1, nx - 1)
            c = rng.randint(0, ny - 2)
            d = rng.randint(c + 1, ny)
            sets.append([xface(i, jj) for jj in range(c, d)])
        if kind == "hh":
            j2 = rng.choice([j for j in range(1, ny) if j != sets[0] and yface(0, j) not in sets[0]] or [1])
            s2 = [yface(i, j2) for i in range(0, nx)]
            if not set(s2) & set(sets[0]):
                sets.append(s2)
        if kind == "bdry":
            sets.append([yface(i, 0) for i in range(0, nx)])
        if kind == "bent":
            j = rng.randint(1, ny - 1)
            i = rng.randint(1, nx - 1)
            sets.append([yface(i - 1, j), xface(i, j)] if rng.random() < 0.5 else [xface(i, j - 1), yface(i, j)])
        if rng.random() < 0.3:
            rng.shuffle(sets[0])
        return {"kind": "split", "n": [nx, ny], "sets": sets}

    # -- structured (Cartesian / tensor) networks are drawn in INDEX space and mapped through
    #    the grid lines the mesher is expected to produce
    def _lines(self, rng, n, mode, h):
        if mode == "tensor":
            x = rng.choice([0.0, 0.0, -1.5, 2.0])
            out = [x]
            for _ in range(n):
                x += rng.choice([0.25, 0.5, 0.5, 1.0, 1.5, 2.0])
                out.append(x)
            return out
        off = rng.choice([1.0, -0.5, 2.0]) if mode == "cart_shift" else 0.0
        return [off + k * h for k in range(n + 1)]

    def _struct_args(self, rng, mode, lines):
        """meshing args for the structured grid with the given lines"""
        if mode == "tensor":
            keys = ["x_pts", "y_pts", "z_pts"]
            return "tensor_grid", {k: list(l) for k, l in zip(keys, lines)}
        keys = ["cell_size_x", "cell_size_y", "cell_size_z"]
        args = {}
        for k, l in zip(keys, lines):
            n, L = len(l) - 1, l[-1] - l[0]
            if mode == "cart_nondiv":
                # a cell size that does not divide the extent; round(L / cs) is still n, the
                # documented result is n cells that FILL the domain
                args[k] = L / (n + rng.choice([0.25, -0.25, 0.375, -0.125]))
            else:
                args[k] = L / n
        if mode != "cart_nondiv" and len(set(args.values())) == 1 and rng.random() < 0.5:
            args = {"cell_size": args["cell_size_x"]}
        return "cartesian", args

    def _gen_struct2d(self, rng, mode, conf=None):
        nx, ny = rng.randint(3, 6), rng.randint(3, 6)
        h = rng.choice([0.5, 1.0, 0.25])
        xs, ys = self._lines(rng, nx, mode, h), self._lines(rng, ny, mode, h)
        conf = conf or rng.choice(["one", "X", "T", "L", "two", "bdry", "three"])
        fr = []
        j = rng.randint(1, ny - 1)
        i = rng.randint(1, nx - 1)
        if conf == "one":
            if rng.random() < 0.5:
                a = rng.randint(0, nx - 1); fr.append([[a, j], [rng.randint(a + 1, nx), j]])
            else:
                c = rng.randint(0, ny - 1); fr.append([[i, c], [i, rng.randint(c + 1, ny)]])
        elif conf == "X":
            fr.append([[rng.randint(0, i - 1), j], [rng.randint(i + 1, nx), j]])
            fr.append([[i, rng.randint(0, j - 1)], [i, rng.randint(j + 1, ny)]])
        elif conf == "T":
            fr.append([[rng.randint(0, i - 1), j], [rng.randint(i + 1, nx), j]])
            fr.append([[i, j], [i, rng.randint(j + 1, ny)]] if rng.random() < 0.5 else [[i, rng.randint(0, j - 1)], [i, j]])
        elif conf == "L":
            fr.append([[rng.randint(0, i - 1), j], [i, j]])
            fr.append([[i, j], [i, rng.randint(j + 1, ny)]])
        elif conf == "two":
            fr.append([[rng.randint(0, i - 1), j], [rng.randint(i, nx), j]])
            j2 = rng.choice([y for y in range(1, ny) if y != j] or [j])
            if j2 != j:
                fr.append([[0, j2], [rng.randint(1, nx), j2]])
        elif conf == "bdry":
            fr.append([[0, j], [rng.randint(1, nx), j]])
            fr.append([[i, 0], [i, ny]])
        else:
            fr.append([[0, j], [nx, j]])
            fr.append([[i, rng.randint(0, j - 1)], [i, rng.randint(j + 1, ny)]])
            i2 = rng.choice([x for x in range(1, nx) if x != i] or [i])
            if i2 != i:
                fr.append([[i2, j], [i2, rng.randint(j + 1, ny)]])
        fr = [[[xs[p[0]], ys[p[1]]] for p in (f if rng.random() < 0.7 else f[::-1])] for f in fr]
        grid, args = self._struct_args(rng, mode, [xs, ys])
        return {"kind": "mdg", "grid": grid, "mode": mode, "dim": 2,
                "box": [[xs[0], xs[-1]], [ys[0], ys[-1]]], "args": args, "fracs": fr}

    def _gen_simplex2d(self, rng):
        q = lambda lo, hi: rng.randint(lo, hi) / 4.0
        conf = rng.choice(["one", "X", "T", "L", "two"])
        fr = []
        if conf == "one":
            fr.append([[q(1, 3), q(1, 7)], [q(5, 7), q(1, 7)]])
        elif conf == "X":
            fr.append([[q(1, 2), q(1, 3)], [q(6, 7), q(5, 7)]])
            fr.append([[q(1, 2), q(5, 7)], [q(6, 7), q(1, 3)]])
        elif conf == "T":
            y = q(2, 6)
            fr.append([[0.25, y], [1.75, y]])
            fr.append([[q(2, 6), y], [q(1, 7), y + rng.choice([0.5, 0.75, 1.0]) if y <= 1.0 else y - rng.choice([0.5, 0.75])]])
        elif conf == "L":
            c = [q(3, 5), q(3, 5)]
            fr.append([[q(0, 1) + 0.25, c[1]], c])
            fr.append([c, [c[0], q(6, 7)]])
        else:
            fr.append([[0.25, 0.5], [1.75, 0.75]])
            fr.append([[0.25, 1.25], [1.5, 1.5]])
        s = rng.choice([0.5, 0.7, 1.0])
        off = rng.choice([0.0, 0.0, -1.0, 3.0])
        fr = [[[p[0] + off, p[1] + off] for p in f] for f in fr]
        return {"kind": "mdg", "grid": "simplex", "mode": "simplex", "dim": 2,
                "box": [[off, 2 + off], [off, 2 + off]],
                "args": {"cell_size": s, "cell_size_fracture": s, "cell_size_boundary": s}, "fracs": fr}

    def _gen_3d(self, rng, mode):
        if mode == "simplex":
            xs = ys = zs = [0.0, 0.25, 0.5, 1.0, 1.5, 1.75, 2.0]
            n = 6
            i, k = 3, 3
            lo, hi = rng.choice([1, 2]), rng.choice([4, 5])
        else:
            n = rng.randint(3, 4)
            h = 0.5
            xs, ys, zs = (self._lines(rng, n, mode, h) for _ in range(3))
            i, k = rng.randint(1, n - 1), rng.randint(1, n - 1)
            lo, hi = rng.randint(0, 1), n - rng.randint(0, 1)
        conf = rng.choice(["one", "X", "T"])
        rect_y = lambda j, x0, x1, z0, z1: [[x0, j, z0], [x1, j, z0], [x1, j, z1], [x0, j, z1]]
        rect_x = lambda ii, y0, y1, z0, z1: [[ii, y0, z0], [ii, y1, z0], [ii, y1, z1], [ii, y0, z1]]
        fr = [rect_y(i, lo, hi, lo, hi)]
        if conf == "X" and lo < k < hi:
            y0 = 0 if (mode != "simplex" and rng.random() < 0.3) else lo
            y1 = hi if hi > i else n
            if y0 < i < y1:
                fr.append(rect_x(k, y0, y1, lo, hi))
        elif conf == "T" and i < n and lo < k < hi:
            fr.append(rect_x(k, i, n if (mode != "simplex" and rng.random() < 0.5) else min(n - (1 if mode == "simplex" else 0), i + 1), lo, hi))
        fr = [[[xs[p[0]], ys[p[1]], zs[p[2]]] for p in f] for f in fr]
        if mode == "simplex":
            grid, args = "simplex", {"cell_size": 0.8, "cell_size_fracture": 0.8, "cell_size_boundary": 0.8}
        else:
            grid, args = self._struct_args(rng, mode, [xs, ys, zs])
        return {"kind": "mdg", "grid": grid, "mode": mode, "dim": 3,
                "box": [[xs[0], xs[-1]], [ys[0], ys[-1]], [zs[0], zs[-1]]], "args": args, "fracs": fr}

    # -- non-dyadic structured grids: n cells over lengths like 1, 0.7, 3; fracture coordinates
    #    k*h as DECIMALS (0.29, 0.57, ...) and off-grid coordinates in the lower / upper half of
    #    a cell.  Documented behaviour: every vertex snaps to the NEAREST grid plane / node.
    #    Coordinates are kept as exact rationals ("num/den"); the implementation gets their floats.
    def _dec_coord(self, rng, n, L, lo=1, hi=None):
        """a coordinate on an axis with n cells over length L: (string, snapped index)"""
        hi = n - 1 if hi is None else hi
        h = F(L) / n
        r = rng.random()
        bad = [k for k in range(lo, hi + 1) if int(float(k * h) * n / float(F(L))) != k]
        k, x = rng.randint(lo, hi), None
        if r < 0.45 and bad:
            k = rng.choice(bad)                  # on a plane, float quotient just below k
        elif r < 0.75:                           # upper half of cell k-1 -> snaps up to k
            x = (k - F(rng.choice([2, 3, 4]), 10)) * h
        elif r < 0.9:                            # lower half of cell k -> snaps down to k
            x = (k + F(rng.choice([2, 3, 4]), 10)) * h
        x = k * h if x is None else x
        return f"{x.numerator}/{x.denominator}", k

    def _gen_dec(self, rng, dim):
        big = rng.choice([10, 20, 25, 50, 100] if dim == 3 else [10, 20, 25, 50])
        Ls = ["1", "7/10", "3", "2", "1"]
        axes = list(range(dim))
        ax = rng.choice(axes)                    # the finely resolved axis = normal of fracture 1
        n = [rng.randint(2, 4) if dim == 3 else rng.randint(3, 6) for _ in axes]
        n[ax] = big
        L = [rng.choice(Ls) for _ in axes]
        fr, idx = [], []

        def rect(normal):
            """an axis-aligned fracture with the given normal axis: per axis (lo, hi) strings"""
            span, span_i = [], []
            for a in axes:
                if a == normal:
                    c, k = self._dec_coord(rng, n[a], L[a])
                    span.append((c, c)); span_i.append((k, k))
                else:
                    k0 = rng.randint(0, n[a] - 2)
                    k1 = rng.randint(k0 + 1 if n[a] - k0 < 3 else k0 + 2, n[a]) if n[a] - k0 >= 2 else n[a]
                    c0, k0 = (self._dec_coord(rng, n[a], L[a], k0, k0) if 0 < k0 else ("0/1", 0))
                    h = F(L[a]) / n[a]
                    c1 = (k1 * h)
                    c1s = f"{c1.numerator}/{c1.denominator}"
                    span.append((c0, c1s)); span_i.append((k0, k1))
            return span, span_i

        normals = [ax]
        if rng.random() < 0.4:
            normals.append(rng.choice([a for a in axes if a != ax]))
        spans = [rect(nm) for nm in normals]
        if len(spans) == 2:
            # make the two cross: each spans the other's normal coordinate
            (s1, i1), (s2, i2) = spans
            a1, a2 = normals
            if not (i2[a1][0] < i1[a1][0] < i2[a1][1] and i1[a2][0] < i2[a2][0] < i1[a2][1]):
                spans = spans[:1]
        for sp, _ in spans:
            if dim == 2:
                fr.append([[sp[0][0], sp[1][0]], [sp[0][1], sp[1][1]]])
            else:
                nm = [a for a in axes if sp[a][0] == sp[a][1]][0]
                u, v = [a for a in axes if a != nm]
                pts = []
                for cu, cv in ((0, 0), (1, 0), (1, 1), (0, 1)):
                    q = [None] * 3
                    q[nm] = sp[nm][0]; q[u] = sp[u][cu]; q[v] = sp[v][cv]
                    pts.append(q)
                fr.append(pts)
        box = [[0.0, float(F(l))] for l in L]
        api = rng.choice(["cart_grid", "create_mdg", "create_mdg"])
        args = {k: float(F(l)) / m for k, l, m in zip(["cell_size_x", "cell_size_y", "cell_size_z"], L, n)}
        return {"kind": "mdg", "grid": "cartesian", "mode": "cart_dec", "dim": dim, "api": api,
                "n": n, "L": L, "box": box, "args": args, "fracs_dec": fr,
                "fracs": [[[float(F(c)) for c in p] for p in f] for f in fr]}

    @staticmethod
    def _expected_fracs(case):
        """the fractures the grids must discretise: as requested, or (structured grids with
        off-grid vertices) snapped to the nearest grid plane per coordinate, computed exactly"""
        if case.get("mode") != "cart_dec":
            return case["fracs"]
        out = []
        for f in case["fracs_dec"]:
            pts = []
            for p in f:
                q = []
                for c, n, L in zip(p, case["n"], case["L"]):
                    h = F(L) / n
                    k = (F(c) / h + F(1, 2)).__floor__()
                    q.append(float(k * h))
                pts.append(q)
            out.append(pts)
        return out

    def generate(self, rng, n, tier):
        for it in range(n):
            r = rng.random()
            if it % 5 == 0:      # a fracture ending on another one (T) or two ending at one point (L)
                yield self._gen_struct2d(rng, rng.choice(["cartesian", "tensor", "cart_nondiv"]),
                                         conf="T" if it % 10 == 0 else "L")
            elif it % 5 == 1:
                yield self._gen_dec(rng, 3)
            elif it % 5 == 3:
                yield self._gen_dec(rng, 2)
            elif tier == "quick":
                if r < 0.3:
                    yield self._gen_split(rng)
                else:
                    yield self._gen_struct2d(rng, rng.choice(
                        ["cartesian", "tensor", "tensor", "cart_nondiv", "cart_shift"]))
            else:
                if r < 0.2:
                    yield self._gen_split(rng)
                elif r < 0.55:
                    yield self._gen_struct2d(rng, rng.choice(
                        ["cartesian", "tensor", "tensor", "cart_nondiv", "cart_nondiv", "cart_shift"]))
                elif r < 0.75:
                    yield self._gen_simplex2d(rng)
                elif r < 0.92:
                    yield self._gen_3d(rng, rng.choice(["cartesian", "tensor", "tensor", "cart_nondiv",
                                                        "cart_shift"]))
                else:
                    yield self._gen_3d(rng, "simplex")

    # ---------------------------------------------------------------- implementation
    def _run_split(self, case):
        nx, ny = case["n"]
        g = pp.CartGrid([nx, ny])
        g.compute_geometry()
        before = _snapshot(g, pairs=False)
        centers = [g.cell_centers[:, c].tolist() for c in range(g.num_cells)]
        fcs = []
        for s in case["sets"]:
            m = sps.csc_matrix((np.ones(len(s), dtype=bool), (np.arange(len(s)), np.array(s))),
                               shape=(len(s), g.num_faces))
            fcs.append(m)
        try:
            out = split_grid.split_faces(g, fcs)
        except ValueError:
            return {"before": before, "centers": centers, "err": "SValueErr"}
        except AssertionError:
            return {"before": before, "centers": centers, "err": "SAssertErr"}
        maps = []
        for m in out:
            co = m.tocoo()
            maps.append(sorted([int(r), int(c)] for r, c in zip(co.row, co.col)))
        return {"before": before, "centers": centers, "after": _snapshot(g), "maps": maps}

    def _network(self, case):
        box = case["box"]
        keys = ["x", "y", "z"][:case["dim"]]
        bb = {}
        meas = 1.0
        for k, (lo, hi) in zip(keys, box):
            bb[k + "min"], bb[k + "max"] = lo, hi
            meas *= hi - lo
        cls = pp.LineFracture if case["dim"] == 2 else pp.PlaneFracture
        fr = [cls(np.array(f, dtype=float).T) for f in case["fracs"]]
        return pp.create_fracture_network(fr, pp.Domain(bb)), meas

    @staticmethod
    def _requested_measures(case):
        """measure of every requested fracture, and (3-D, two axis-aligned rectangles) the
        length of their intersection line"""
        out = []
        fracs = C25._expected_fracs(case)
        for f in fracs:
            P = np.array(f, dtype=float)
            if case["dim"] == 2:
                out.append(float(np.linalg.norm(P[1] - P[0])))
            else:
                out.append(float(np.linalg.norm(np.cross(P[1] - P[0], P[3] - P[0]))))
        line = None
        if case["dim"] == 3 and len(case["fracs"]) == 2:
            A, B = (np.array(f, dtype=float) for f in fracs)
            lo = np.maximum(A.min(axis=0), B.min(axis=0))
            hi = np.minimum(A.max(axis=0), B.max(axis=0))
            if np.all(hi >= lo):
                line = float(np.max(hi - lo))
        return out, line

    def _run_mdg(self, case):
        net, meas = self._network(case)
        args = {k: (np.array(v, dtype=float) if isinstance(v, list) else v)
                for k, v in case["args"].items()}
        expected = self._expected_fracs(case)
        with warnings.catch_warnings():
            warnings.simplefilter("ignore")
            try:
                if case.get("api") == "cart_grid":
                    mdg = pp.meshing.cart_grid(
                        [np.array(f, dtype=float).T for f in case["fracs"]], np.array(case["n"]),
                        physdims=np.array([b[1] for b in case["box"]]))
                else:
                    mdg = pp.create_mdg(case["grid"], args, net)
            except (AssertionError, ValueError, IndexError) as e:
                # meshing must not fail on these inputs; recorded so that the oracle reports it
                # with the input (a regression of the repaired lower-corner handling did this)
                return {"raised": type(e).__name__}
        top = mdg.dim_max()
        ifaces = []
        iface_hosts = []
        host_ids = []
        coupled = {}
        coupled_pair = {}
        for intf, d in mdg.interfaces(return_data=True):
            h, l = mdg.interface_to_subdomain_pair(intf)
            fc = sps.csr_matrix(d["face_cells"])
            cfh = sps.csr_matrix(h.cell_faces)
            cells = []
            for c in range(l.num_cells):
                faces = []
                for f in fc.indices[fc.indptr[c]:fc.indptr[c + 1]]:
                    row = cfh.data[cfh.indptr[f]:cfh.indptr[f + 1]]
                    row = row[row != 0]
                    sgn = float(row[0]) if row.size == 1 else 0.0
                    faces.append({"id": int(f), "c": h.face_centers[:, f].tolist(),
                                  "area": float(h.face_areas[f]),
                                  "nout": (sgn * h.face_normals[:, f]).tolist(),
                                  "ncells": int(row.size), "tag": bool(h.tags["fracture_faces"][f])})
                    coupled.setdefault(id(h), set()).add(int(f))
                    coupled_pair.setdefault((id(h), id(l)), set()).add(int(f))
                cells.append({"c": l.cell_centers[:, c].tolist(), "vol": float(l.cell_volumes[c]),
                              "faces": faces})
            s2m = sps.csr_matrix(intf.secondary_to_mortar_int())
            p2m = sps.csr_matrix(intf.primary_to_mortar_int())
            mortar = []
            for m in range(intf.num_cells):
                low = [[int(j), float(v)] for j, v in zip(s2m.indices[s2m.indptr[m]:s2m.indptr[m + 1]],
                                                          s2m.data[s2m.indptr[m]:s2m.indptr[m + 1]]) if v != 0]
                fac = [[int(j), float(v)] for j, v in zip(p2m.indices[p2m.indptr[m]:p2m.indptr[m + 1]],
                                                          p2m.data[p2m.indptr[m]:p2m.indptr[m + 1]]) if v != 0]
                mortar.append({"c": intf.cell_centers[:, m].tolist(), "vol": float(intf.cell_volumes[m]),
                               "low": low, "face": fac})
            frac = None
            pts = []
            if l.dim == top - 1:
                fn = int(l.frac_num)
                P = np.asarray(expected[fn], dtype=float).T
                if top == 2:
                    frac = ["line", [P[0, 0], P[1, 0], 0.0], [P[0, 1], P[1, 1], 0.0]]
                else:
                    frac = ["plane", P[:, 0].tolist(), P[:, 1].tolist(), P[:, 2].tolist()]
                pts = [l.cell_centers[:, c].tolist() for c in range(l.num_cells)] + \
                      [l.nodes[:, k].tolist() for k in range(l.num_nodes)]
            iface_hosts.append(id(h))
            ifaces.append({"sides": int(intf.num_sides()), "cells": cells, "mortar": mortar,
                           "frac": frac, "pts": pts, "dims": [h.dim, l.dim]})
        hosts = []
        vols = []
        bbox = []
        req_f, req_line = self._requested_measures(case)
        meas_req = []      # (cell volumes of a lower-dimensional grid, requested measure)
        ext = []           # (node span of a fracture grid per axis, span of its fracture per axis)
        lines = [sd for sd in mdg.subdomains() if sd.dim == top - 2 and top == 3]
        for sd in mdg.subdomains():
            if sd.dim >= 1:
                host_ids.append(id(sd))
                hosts.append([[int(f) for f in np.flatnonzero(sd.tags["fracture_faces"])],
                              sorted(coupled.get(id(sd), set()))])
            if sd.dim == top:
                vols = [float(v) for v in sd.cell_volumes]
                bbox = [[float(sd.nodes[k].min()), float(sd.nodes[k].max())] for k in range(top)]
            if sd.dim == top - 1:
                meas_req.append([[float(v) for v in sd.cell_volumes], req_f[int(sd.frac_num)]])
                E = np.asarray(expected[int(sd.frac_num)], dtype=float)
                ext.append([[[float(sd.nodes[k].min()), float(sd.nodes[k].max())] for k in range(top)],
                            [[float(E[:, k].min()), float(E[:, k].max())] for k in range(top)]])
        if top == 3 and len(case["fracs"]) == 2:
            tot = [float(v) for sd in lines for v in sd.cell_volumes]
            meas_req.append([tot, req_line if req_line is not None else 0.0])
        nfr = sum(1 for sd in mdg.subdomains() if sd.dim == top - 1)
        # Coupling completeness: for every pair (grid of dimension d, grid of dimension d-1) the
        # faces of the first whose centre coincides with a cell centre of the second, against the
        # faces an interface between the two couples (no interface = no coupled face).
        subs = list(mdg.subdomains())
        inc_raw = []
        for hh in subs:
            if hh.dim < 1:
                continue
            fcen = hh.face_centers
            for ll in subs:
                if ll.dim != hh.dim - 1:
                    continue
                coin = set()
                for c in range(ll.num_cells):
                    cc = ll.cell_centers[:, c:c + 1]
                    hit = np.all(np.abs(fcen - cc) <= TOL * (1 + np.abs(cc)), axis=0)
                    coin.update(int(f) for f in np.flatnonzero(hit))
                coup = coupled_pair.get((id(hh), id(ll)), set())
                if coin or coup:
                    inc_raw.append([id(hh), sorted(coin), sorted(coup), [hh.dim, ll.dim]])
        extra = {}
        for hid, coin, coup, _ in inc_raw:
            extra.setdefault(hid, set()).update(coin)
        # Host face numbers are only compared for equality: relabel them, per host grid, by their
        # rank among the faces that occur (tagged or coupled), so that no large index reaches Coq.
        rank = {}
        for hid, (tagged, coup) in zip(host_ids, hosts):
            rank[hid] = {f: r for r, f in enumerate(sorted(set(tagged) | set(coup) | extra.get(hid, set())))}
        for it, hid in zip(ifaces, iface_hosts):
            rk = rank[hid]
            for c in it["cells"]:
                for f in c["faces"]:
                    f["id"] = rk[f["id"]]
            for m in it["mortar"]:
                m["face"] = [[rk.get(j, len(rk) + j), v] for j, v in m["face"]]
        hosts = [[[rank[hid][f] for f in tagged], [rank[hid][f] for f in coup]]
                 for hid, (tagged, coup) in zip(host_ids, hosts)]
        inc = [[[rank[hid][f] for f in coin], [rank[hid][f] for f in coup], dims]
               for hid, coin, coup, dims in inc_raw]
        return {"inc": inc, "ifaces": ifaces, "hosts": hosts, "vols": vols, "domain": float(meas),
                "bbox": bbox, "meas": meas_req, "nfrac": nfr, "ext": ext}

    def run_impl(self, case):
        if case["kind"] == "split":
            return self._run_split(case)
        return self._run_mdg(case)

    # ---------------------------------------------------------------- oracle
    def oracle(self, case, res):
        if case["kind"] == "split":
            return self._oracle_split(case, res)
        if "raised" in res:
            return f"create_mdg raised {res['raised']} on a valid network (grid {case['grid']}, domain {case['box']})"
        near = lambda x, y: abs(x - y) <= TOL * (1 + abs(y))
        vnear = lambda a, b: len(a) == len(b) and all(near(x, y) for x, y in zip(a, b))
        for k, it in enumerate(res["ifaces"]):
            tag = f"interface {k} (dims {it['dims']})"
            if it["sides"] not in (1, 2):
                return f"{tag}: {it['sides']} sides"
            for c, lc in enumerate(it["cells"]):
                if len(lc["faces"]) != it["sides"]:
                    return f"{tag}: cell {c} coupled to {len(lc['faces'])} faces, interface has {it['sides']} sides"
                for f in lc["faces"]:
                    if not vnear(f["c"], lc["c"]):
                        return f"{tag}: face {f['id']} centre {f['c']} differs from cell {c} centre {lc['c']}"
                    if not near(f["area"], lc["vol"]):
                        return f"{tag}: face {f['id']} measure {f['area']} differs from cell {c} measure {lc['vol']}"
                    if f["ncells"] != 1:
                        return f"{tag}: coupled face {f['id']} belongs to {f['ncells']} host cells (not split)"
                    if not f["tag"]:
                        return f"{tag}: coupled face {f['id']} is not tagged as fracture face"
                if len(lc["faces"]) == 2:
                    f1, f2 = lc["faces"]
                    if f1["id"] == f2["id"] or any(abs(a + b) > TOL for a, b in zip(f1["nout"], f2["nout"])):
                        return f"{tag}: faces {f1['id']},{f2['id']} of cell {c} do not have opposite outward normals"
            n = len(it["cells"])
            if len(it["mortar"]) != it["sides"] * n:
                return f"{tag}: {len(it['mortar'])} mortar cells for {n} cells x {it['sides']} sides"
            used = []
            for m, mc in enumerate(it["mortar"]):
                if len(mc["low"]) != 1 or len(mc["face"]) != 1 or mc["low"][0][1] != 1 or mc["face"][0][1] != 1:
                    return f"{tag}: mortar cell {m} is not matched to one cell and one face"
                c, f = mc["low"][0][0], mc["face"][0][0]
                if c >= n or f not in [x["id"] for x in it["cells"][c]["faces"]]:
                    return f"{tag}: mortar cell {m} joins cell {c} and face {f} which are not coupled"
                if not vnear(mc["c"], it["cells"][c]["c"]) or not near(mc["vol"], it["cells"][c]["vol"]):
                    return f"{tag}: mortar cell {m} differs from cell {c} in centre or measure"
                used.append(f)
            for s in range(it["sides"]):
                lows = [mc["low"][0][0] for mc in it["mortar"][s * n:(s + 1) * n]]
                if sorted(lows) != list(range(n)):
                    return f"{tag}: side {s} does not match the lower-dimensional cells one to one"
            if len(set(used)) != len(used) or len(used) != sum(len(c["faces"]) for c in it["cells"]):
                return f"{tag}: mortar cells do not use every coupled face exactly once"
            if it["frac"] is not None:
                fr = it["frac"]
                for p in it["pts"]:
                    p = np.array(p)
                    if fr[0] == "line":
                        a, b = np.array(fr[1]), np.array(fr[2])
                        d, w = b - a, p - a
                        if abs(d[0] * w[1] - d[1] * w[0]) > TOL * (1 + d @ d) or not (-TOL <= w @ d <= d @ d + TOL):
                            return f"{tag}: point {p.tolist()} of the fracture grid is not on its fracture"
                    else:
                        v0, v1, v2 = (np.array(x) for x in fr[1:])
                        nn = np.cross(v1 - v0, v2 - v0)
                        if abs(nn @ (p - v0)) > TOL * (1 + nn @ nn):
                            return f"{tag}: point {p.tolist()} of the fracture grid is not in its fracture plane"
        for k, (tagged, coupled) in enumerate(res["hosts"]):
            if sorted(tagged) != sorted(coupled):
                return f"host grid {k}: fracture-face tags {tagged} differ from coupled faces {coupled}"
        if not near(sum(res["vols"]), res["domain"]):
            return f"host volume {sum(res['vols'])} differs from domain volume {res['domain']}"
        for (lo, hi), (blo, bhi) in zip(res["bbox"], case["box"]):
            if not near(lo, blo) or not near(hi, bhi):
                return f"host grid spans {res['bbox']}, the domain is {case['box']}"
        if res["nfrac"] != len(case["fracs"]):
            return f"fracture grids: {res['nfrac']} for {len(case['fracs'])} requested fractures"
        for coin, coup, dims in res["inc"]:
            if sorted(coin) != sorted(coup):
                return (f"coupling incomplete between a grid of dimension {dims[0]} and one of dimension "
                        f"{dims[1]}: faces {coin} coincide with its cells, an interface couples {coup}")
        for got, want in res["ext"]:
            for (lo, hi), (wlo, whi) in zip(got, want):
                if not near(lo, wlo) or not near(hi, whi):
                    return f"fracture grid spans {got}, its (snapped) fracture spans {want}"
        for vols, want in res["meas"]:
            if not near(sum(vols), want):
                return f"fracture grid of measure {sum(vols)} for a requested fracture (or intersection) of measure {want}"
        return None

    def _oracle_split(self, case, res):
        """the split step itself on straight interior face sets: every duplicated pair has the
        same geometry, one neighbour each with opposite signs; cells keep their faces' geometry"""
        if "err" in res or case["sets"] and any(res["before"]["tB"][f] for s in case["sets"] for f in s):
            return None
        b, a = res["before"], res["after"]
        if len(case["sets"]) == 1 and len(a["pairs"]) == 0:
            return None
        nb = {}
        for f, c, s in a["cf"]:
            nb.setdefault(f, []).append((c, s))
        for l, r in a["pairs"]:
            if a["geom"][l] != a["geom"][r]:
                return f"pair ({l},{r}) differs in geometry"
            if len(nb.get(l, [])) != 1 or len(nb.get(r, [])) != 1 or nb[l][0][1] != -nb[r][0][1]:
                return f"pair ({l},{r}) does not have one neighbour each with opposite signs"
        cells_b, cells_a = {}, {}
        for f, c, s in b["cf"]:
            cells_b.setdefault(c, []).append((b["geom"][f], s))
        for f, c, s in a["cf"]:
            cells_a.setdefault(c, []).append((a["geom"][f], s))
        for c in cells_b:
            if sorted(map(repr, cells_b[c])) != sorted(map(repr, cells_a.get(c, []))):
                return f"cell {c} changed its face geometry"
        return None

    # ---------------------------------------------------------------- tie
    def coq_case(self, case, res):
        if case["kind"] == "split":
            cen = clist(res["centers"], _vec)
            fcs = clist(case["sets"], lambda s: _pairs([[k, f] for k, f in enumerate(s)]))
            if "err" in res:
                io = f"(SErr {res['err']})"
            else:
                io = f"(SOk {_grid(res['after'])} {clist(res['maps'], _pairs)})"
            return f"split_agree {cen} {_grid(res['before'])} {fcs} {io}"
        if "raised" in res:
            return None
        hosts = clist(res["hosts"], lambda h: f"({clist(h[0], _nat)}, {clist(h[1], _nat)})")
        mdgd = (f"(mkMDG {clist(res['ifaces'], _iface)} {hosts} {clist(res['vols'], cq)} "
                f"{cq(res['domain'])})")
        req = (f"(mkREQ {clist(res['meas'], lambda m: f'({clist(m[0], cq)}, {cq(m[1])})')} "
               f"{clist(res['bbox'], lambda b: f'({cq(b[0])}, {cq(b[1])})')} "
               f"{clist(case['box'], lambda b: f'({cq(b[0])}, {cq(b[1])})')} "
               f"{_nat(res['nfrac'])} {_nat(len(case['fracs']))})")
        span = lambda l: clist(l, lambda b: f"({cq(b[0])}, {cq(b[1])})")
        ext = clist(res["ext"], lambda e: f"({span(e[0])}, {span(e[1])})")
        inc = clist(res["inc"], lambda e: f"({clist(e[0], _nat)}, {clist(e[1], _nat)})")
        return f"conform_req4 {mdgd} {req} {ext} {inc}"

    def nontrivial(self, case, res):
        if case["kind"] == "split":
            return "after" in res and len(res["after"]["pairs"]) > 0
        return "ifaces" in res and any(it["sides"] == 2 for it in res["ifaces"])

    def finding_key(self, case, res, why):
        return "conformity-" + why.split(":")[0].split(" ")[0]

    def describe(self, case):
        return case


PROP = C25()
