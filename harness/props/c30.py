"""C30 — distance kernels (porepy/geometry/distances.py) against exact rational minimisation."""
import itertools
import math
import warnings
from fractions import Fraction as F

import numpy as np

from harness.core import Prop, cq, clist

from porepy.geometry import distances as D

from harness.props.c32 import _normal_selection, _isqrt_exact

RTOL = 1e-9


# ------------------------------------------------------------------ exact geometry
def _sub(a, b):
    return [x - y for x, y in zip(a, b)]


def _dot(a, b):
    return sum(x * y for x, y in zip(a, b))


def _cross(a, b):
    return [a[1] * b[2] - a[2] * b[1], a[2] * b[0] - a[0] * b[2], a[0] * b[1] - a[1] * b[0]]


def _lin(a, t, d):
    return [x + t * y for x, y in zip(a, d)]


def _fr(p):
    return [F(x) for x in p]


def ps_exact(p, a, b):
    """(squared distance, closest point) from point p to segment ab (a != b allowed equal)"""
    p, a, b = _fr(p), _fr(a), _fr(b)
    line = _sub(b, a)
    l2 = _dot(line, line)
    t = F(0) if l2 == 0 else max(F(0), min(F(1), _dot(_sub(p, a), line) / l2))
    cp = _lin(a, t, line)
    return _dot(_sub(p, cp), _sub(p, cp)), cp


def ss_exact(a, b, c, d):
    """squared distance between segments ab and cd: minimum over the KKT candidates of the
    convex quadratic |a + s(b-a) - c - t(d-c)|^2 on [0,1]^2"""
    a, b, c, d = _fr(a), _fr(b), _fr(c), _fr(d)
    best = min(ps_exact(a, c, d)[0], ps_exact(b, c, d)[0], ps_exact(c, a, b)[0], ps_exact(d, a, b)[0])
    d1, d2, ds = _sub(b, a), _sub(d, c), _sub(a, c)
    d11, d12, d22 = _dot(d1, d1), _dot(d1, d2), _dot(d2, d2)
    d1s, d2s = _dot(d1, ds), _dot(d2, ds)
    discr = d11 * d22 - d12 * d12
    if discr != 0:
        s = (d12 * d2s - d22 * d1s) / discr
        t = (d11 * d2s - d12 * d1s) / discr
        if 0 <= s <= 1 and 0 <= t <= 1:
            w = _sub(_lin(a, s, d1), _lin(c, t, d2))
            best = min(best, _dot(w, w))
    return best


def _inside_simple(q, poly, n):
    """q in the plane of the simple polygon poly (exact rationals): 2 = strictly inside,
    1 = on the boundary, 0 = outside.  Drops the coordinate of the largest normal entry and
    counts crossings of the ray in +x direction."""
    k = max(range(3), key=lambda i: abs(n[i]))
    ax = [i for i in range(3) if i != k]
    P = [(v[ax[0]], v[ax[1]]) for v in poly]
    x, y = q[ax[0]], q[ax[1]]
    m = len(P)
    inside = False
    for i in range(m):
        (x1, y1), (x2, y2) = P[i], P[(i + 1) % m]
        cr = (x2 - x1) * (y - y1) - (y2 - y1) * (x - x1)
        if cr == 0 and min(x1, x2) <= x <= max(x1, x2) and min(y1, y2) <= y <= max(y1, y2):
            return 1
        if (y1 > y) != (y2 > y):
            xi = x1 + (y - y1) * (x2 - x1) / (y2 - y1)
            if xi > x:
                inside = not inside
    return 2 if inside else 0


def _inside_convex(q, poly, n):
    return _inside_simple(q, poly, n) > 0


def _poly_normal(poly):
    for i in range(1, len(poly) - 1):
        n = _cross(_sub(poly[i], poly[0]), _sub(poly[i + 1], poly[0]))
        if any(n):
            return n
    raise ValueError("degenerate polygon")


def ppoly_exact(p, poly):
    p = _fr(p)
    poly = [_fr(v) for v in poly]
    n = _poly_normal(poly)
    h = _dot(n, _sub(p, poly[0]))
    q = _lin(p, -h / _dot(n, n), n)
    if _inside_convex(q, poly, n):
        return h * h / _dot(n, n)
    k = len(poly)
    return min(ps_exact(p, poly[i], poly[(i + 1) % k])[0] for i in range(k))


def spoly_exact(a, b, poly):
    a, b = _fr(a), _fr(b)
    poly = [_fr(v) for v in poly]
    n = _poly_normal(poly)
    k = len(poly)
    best = min(ppoly_exact(a, poly), ppoly_exact(b, poly))
    for i in range(k):
        best = min(best, ss_exact(a, b, poly[i], poly[(i + 1) % k]))
    ha, hb = _dot(n, _sub(a, poly[0])), _dot(n, _sub(b, poly[0]))
    if ha != hb and (ha <= 0 <= hb or hb <= 0 <= ha):
        t = ha / (ha - hb)
        q = _lin(a, t, _sub(b, a))
        if _inside_convex(q, poly, n):
            best = F(0)
    return best


def ppoly_inside_flag(p, poly):
    """2/1/0: the orthogonal projection of p is strictly inside / on the boundary / outside"""
    p = _fr(p)
    poly = [_fr(v) for v in poly]
    n = _poly_normal(poly)
    h = _dot(n, _sub(p, poly[0]))
    return _inside_simple(_lin(p, -h / _dot(n, n), n), poly, n)


EPS = 2.0 ** -52


def _all_points(case):
    pts = []
    for key in ("p", "a", "b"):
        if key in case:
            pts.append(case[key])
    for key in ("set", "pts", "poly", "segs"):
        for item in case.get(key, []):
            if item and isinstance(item[0], (list, tuple)):
                pts.extend(item)
            else:
                pts.append(item)
    return pts


def _tol_abs(case):
    """absolute tolerance for lengths / coordinates of this case: 1e-9 of the SEPARATION
    scale L (extent of the configuration) plus 64 ulps of the coordinate magnitude M (the
    shifted inputs themselves are only representable to ulp(M))"""
    pts = _all_points(case)
    nd = len(pts[0])
    M = max(abs(x) for p in pts for x in p)
    L = max(max(p[i] for p in pts) - min(p[i] for p in pts) for i in range(nd))
    if L == 0:
        L = M if M else 1.0
    return RTOL * L + 64 * EPS * M


def _dist_ok(d, ex_sq, tol):
    """returned length d against the exact squared length"""
    return abs(d - math.sqrt(float(ex_sq))) <= tol


def _pt_ok(got, exact, tol):
    return all(abs(float(x) - float(y)) <= tol for x, y in zip(got, exact))


def _on_segment(cp, a, b, tol):
    d2, _ = ps_exact(cp, a, b)
    return math.sqrt(float(d2)) <= 4 * tol


def _pad(p):
    return list(p) + [0] * (3 - len(p))


def _v(p):
    return "(" + ", ".join(cq(x) for x in _pad(p)) + ")"


def _res(r):
    if r[0] == "ok":
        return "(Ok " + clist(r[1], cq) + ")"
    return f"(Err {r[1]})"


def _fin(*vals):
    return all(math.isfinite(x) for x in vals)


class C30(Prop):
    id = "C30"
    props_file = "Props/C30.v"
    preamble = ("From Coq Require Import List QArith.\nImport ListNotations.\n"
                "From PP Require Import Model.C32 Model.C30.\n")
    n_cases = (600, 12000)
    design_ref = "DESIGN.md §5 C30"
    level_text = (
        "Coq theorems over the reals about an executable transcription (on squared distances) of "
        "points_segments, segment_segment_set, segment_set, point_in_polygon and points_polygon. "
        "Point-segment: the result is the global minimum over the segment, attained at the "
        "returned closest point, which lies on the segment (every point, every segment of positive "
        "length). Segment-segment (all branches of the vectorised Sunday/Eberly case analysis, the "
        "three relative tolerance masks included): the parameters lie in "
        "[0,1], the closest points lie on the respective segments and realise the returned "
        "distance; OFF the tolerance band (explicit guard off_band: discriminant 0 or >= "
        "1e-8|d1|^2|d2|^2, final numerators 0 or >= 1e-8 * denominator) the returned distance "
        "is the global minimum over "
        "[0,1]^2 (convexity + KKT per stage). segment_set: entries (i,j),(j,i) carry the same "
        "distance, closest points on segment i resp. j, minimal off the band. "
        "points_polygon for planar polygons: outside branch -- the closest point lies in the "
        "plane, on an edge, at the returned distance, which is the minimum over the whole "
        "boundary; inside branch (normal outside numpy's allclose band around +-e_z, or exactly "
        "+-e_z) -- the closest point is the orthogonal projection, in the plane, at the returned "
        "distance, the minimum over the whole plane. The model is tied to the code on every run "
        "(Coq recomputes distances and closest points in exact rationals on 2-d/3-d integer "
        "configurations and their exact images under translations by up to 2^23 and scalings "
        "2^-20..2^20: parallel, collinear, crossing, touching, zero-length segments; all "
        "entries of segment_set; points against convex, very uneven and non-convex polygons in "
        "planes with rational rotation matrices) and Coq confirms that every segment-segment "
        "configuration of the run is off the band. segments_polygon and polygons in general "
        "planes are checked by the exact rational oracle (min over edges + interior projection "
        "test in fractions; non-convex polygons, plane-piercing segments through notches).")
    level_note = (
        "P-core. NOT proved: (1) correctness of the winding-number test point_in_polygon (so "
        "'cp is inside the polygon' in the inside branch and 'no interior point is closer' in the "
        "outside branch of points_polygon rest on it; transcribed, tied and covered by the exact "
        "oracle incl. non-convex polygons); (2) segments_polygon (oracle only); (3) optimality of "
        "segment-segment INSIDE the tolerance band: there the code is not exact by design "
        "(two unit segments crossing under an angle of 1e-5 get distance 1e-5 instead of 0, see "
        "Example C30_segseg_band_example; after the repair the band is relative: angle below "
        "1e-4, parameters below 1e-8). The generator uses (images of) integer configurations, "
        "never in the band -- a documented tolerance of the "
        "code, not reported as a violation. Zero-length segments make the code return NaN (0/0): "
        "modelled as an error value, excluded by the guard of positive length, not treated as a "
        "violation. Inside numpy's allclose band around +-e_z (polygon tilted by < 1e-8 but not "
        "exactly horizontal) points_polygon uses the identity as rotation: result off by ~1e-8, "
        "excluded by plane_guard. Floating-point rounding is not covered.")
    technique = ("Coq proof over R (convexity/KKT of the quadratic, nra/field on the transcribed case "
                 "analysis) + vm_compute execution correspondence in exact rationals + exact "
                 "rational oracle")
    rule = ("base configurations with small integer coordinates, then (75%) an exact similarity: "
            "all inputs shifted by one integer vector (entries up to 2^23, also at +-2^23) and/or "
            "scaled by 2^k, k in [-20,20] (polygon kernels: no up-scaling together with a shift, "
            "because project_plane_matrix checks planarity with a fixed absolute 1e-5); tolerances "
            "are 1e-9 of the extent of the configuration + 64 ulps of the coordinate magnitude, "
            "geometric tolerance arguments are scaled with the geometry. Base, 2-d and 3-d: point-point, point sets x segment sets (both loop "
            "variants), one segment against a segment set (parallel, collinear overlapping/"
            "disjoint, crossing, touching, skew, zero-length), all-pairs segment_set, points and "
            "segments against simple planar polygons (convex; very uneven edge lengths; "
            "non-convex U/L/chevron/star/comb) in axis-aligned and tilted planes, points near "
            "edge midpoints / in notches / off the plane, segments in the plane, above it, "
            "piercing it at lattice and rational points, with both end points projecting into the "
            "polygon; non-trivial = at least one non-degenerate segment; distinct by (case, output)")
    trusted = ["squares of the returned distances are compared (the model works on squared distances)",
               "comparison tolerance 1e-9*(1+|x|) inside Coq; integer inputs",
               "numeric record / vector library shared with Model/C32.v; Q and R instances of the same definitions"]
    assumptions = ["segments of positive length", "simple planar polygons (vertices exactly in a plane)",
                   "segment-segment optimality: off the SMALL_TOLERANCE band (guard off_band)"]

    # ------------------------------------------------------------------ generation
    def _pt(self, rng, nd, lo=-6, hi=6):
        return [rng.randint(lo, hi) for _ in range(nd)]

    def _seg(self, rng, nd, degenerate_ok=True):
        a = self._pt(rng, nd)
        if degenerate_ok and rng.random() < 0.04:
            return a, list(a)
        while True:
            b = self._pt(rng, nd)
            if b != a:
                return a, b

    def _related_seg(self, rng, nd, a, b):
        """a segment in a special position relative to ab"""
        d = _sub(b, a)
        r = rng.randrange(7)
        if r == 0:      # parallel, shifted
            o = self._pt(rng, nd, -3, 3)
            k = rng.choice([1, -1, 2])
            c = [x + y for x, y in zip(a, o)]
            return c, [x + k * y for x, y in zip(c, d)]
        if r == 1:      # collinear (overlapping or disjoint)
            s, t = rng.sample([-2, -1, 0, 1, 2, 3], 2)
            return _lin(a, s, d), _lin(a, t, d)
        if r == 2:      # shares an end point
            return list(rng.choice([a, b])), self._pt(rng, nd)
        if r == 3:      # crossing through the midpoint direction
            m2 = [x + y for x, y in zip(a, b)]
            o = self._pt(rng, nd, -3, 3)
            if not any(o):
                o[0] = 1
            c = [x - y for x, y in zip(m2, o)]
            e = [x + y for x, y in zip(m2, o)]
            if all(x % 2 == 0 for x in c + e):
                return [x // 2 for x in c], [x // 2 for x in e]
            return self._seg(rng, nd, False)
        if r == 4:      # T configuration: starts on ab
            return list(a), _lin(a, 1, self._pt(rng, nd, -3, 3))
        return self._seg(rng, nd)

    CONVEX = [[(0, 0), (3, 0), (0, 3)], [(0, 0), (2, 0), (2, 2), (0, 2)],
              [(0, 0), (4, 0), (5, 2), (2, 4), (-1, 2)], [(-1, -1), (3, 0), (1, 3)],
              [(0, 0), (3, 1), (4, 4), (1, 3)]]
    # very uneven edge lengths (convex)
    UNEVEN = [[(0, 0), (50, 0), (50, 5), (25, 6), (0, 5)], [(0, 0), (40, 0), (40, 1), (0, 1)],
              [(0, 0), (30, 1), (1, 2)], [(0, 0), (20, 0), (21, 1), (20, 2), (0, 2), (-1, 1)]]
    # simple non-convex polygons: U, L, chevron, star, comb
    NONCONVEX = [[(0, 0), (6, 0), (6, 5), (4, 5), (4, 1), (2, 1), (2, 5), (0, 5)],
                 [(0, 0), (4, 0), (4, 2), (2, 2), (2, 5), (0, 5)],
                 [(0, 0), (3, 2), (6, 0), (3, 5)],
                 [(0, 0), (2, 1), (4, 0), (3, 2), (4, 4), (2, 3), (0, 4), (1, 2)],
                 [(0, 0), (10, 0), (10, 4), (8, 4), (8, 1), (6, 1), (6, 4), (4, 4), (4, 1),
                  (2, 1), (2, 4), (0, 4)]]
    # plane normals; the first block gives rational rotation matrices (used by the tie)
    PLANES_RAT = [(0, 0, 1), (0, 1, 0), (1, 0, 0), (0, 3, 4), (3, 0, 4), (3, 4, 0), (0, 4, 3),
                  (4, 0, 3)]
    PLANES_GEN = [(1, 2, 2), (2, 3, 6), (1, 1, 0), (1, 1, 1), (3, 4, 12)]

    def _polygon(self, rng, rational=False):
        """simple polygon with integer vertices in a plane of R^3: returns the vertices and a
        function local(i, j, k) = o + i u + j w + k m (m normal to the plane)"""
        m = list(rng.choice(self.PLANES_RAT if (rational or rng.random() < 0.6)
                            else self.PLANES_GEN))
        m = [x * rng.choice([1, -1]) if x else 0 for x in m]
        u = [m[1], -m[0], 0] if (m[0] or m[1]) else [1, 0, 0]
        g = math.gcd(*[abs(x) for x in u]) or 1
        u = [x // g for x in u]
        w = _cross(m, u)
        g = math.gcd(*[abs(x) for x in w]) or 1
        w = [x // g for x in w]
        r = rng.random()
        shape = list(rng.choice(self.CONVEX if r < 0.3 else self.UNEVEN if r < 0.55
                                else self.NONCONVEX))
        if rng.random() < 0.5:
            shape = shape[::-1]
        k0 = rng.randrange(len(shape))
        shape = shape[k0:] + shape[:k0]
        o = self._pt(rng, 3, -3, 3)

        def local(i, j, k=0):
            return [o[q] + i * u[q] + j * w[q] + k * m[q] for q in range(3)]

        xs = [i for i, _ in shape]
        ys = [j for _, j in shape]
        box = (min(xs) - 2, max(xs) + 2, min(ys) - 2, max(ys) + 2)
        return [local(i, j) for i, j in shape], local, box, shape

    @staticmethod
    def _ppoly_tie_ok(poly):
        """the model can be executed exactly: the rotation matrix of the polygon's plane is
        rational and compute_normal's two argmax selections are unique by a margin"""
        nrm = _normal_selection(poly)
        if nrm is None or not any(nrm):
            return False
        n2 = _dot(nrm, nrm)
        return (_isqrt_exact(n2) is not None
                and _isqrt_exact((nrm[0] ** 2 + nrm[1] ** 2) / n2) is not None)

    def _poly_points(self, rng, local, box, shape, npts):
        pts = []
        for _ in range(npts):
            r = rng.random()
            k = rng.choice([0, 0, 1, -1, 3, -2])
            if r < 0.25:        # just outside / on the middle of an edge
                e = rng.randrange(len(shape))
                (x1, y1), (x2, y2) = shape[e], shape[(e + 1) % len(shape)]
                mx, my = (x1 + x2) // 2, (y1 + y2) // 2
                dx, dy = rng.choice([(0, 0), (0, 1), (0, -1), (1, 0), (-1, 0)])
                pts.append(local(mx + dx, my + dy, k))
            elif r < 0.85:
                pts.append(local(rng.randint(box[0], box[1]), rng.randint(box[2], box[3]), k))
            else:
                pts.append(self._pt(rng, 3, -8, 8))
        return pts

    def generate(self, rng, n, tier):
        """base (small integer) configurations, then an exact similarity: all inputs of the
        case shifted by one integer vector (entries up to 2^23) and/or scaled by 2^k,
        k in [-20, 20]; all transformed coordinates are exactly representable"""
        for case in self._generate_base(rng, n, tier):
            yield self._transform(rng, case)

    @staticmethod
    def _transform(rng, case):
        r = rng.random()
        big = r < 0.35
        k = 0 if 0.25 <= r < 0.6 else rng.randint(-20, 20)
        if "scale" in case or (not big and k == 0):
            return case
        if big and k > 0 and case["kind"] in ("ppoly", "spoly"):
            # project_plane_matrix checks planarity with a fixed ABSOLUTE tolerance 1e-5
            # (not forwarded by the polygon kernels): large geometry far from the origin
            # trips it by round-off of the centring alone
            k = 0
        nd = len(_all_points(case)[0])
        B = 2 ** 23
        sh = [rng.choice([rng.randint(-B, B), B - rng.randint(0, 9), -B + rng.randint(0, 9)])
              if big else 0 for _ in range(nd)]
        sc = 2.0 ** k

        def f(p):
            return [(x + d) * sc for x, d in zip(p, sh)]

        def mp(obj):
            if obj and isinstance(obj[0], (list, tuple)):
                return [mp(o) for o in obj]
            return f(obj)

        out = dict(case)
        for key in ("p", "a", "b", "set", "pts", "poly", "segs"):
            if key in out:
                out[key] = mp(out[key])
        out["scale"] = sc
        out["shift"] = sh
        return out

    def _generate_base(self, rng, n, tier):
        yield from self._corners()
        for _ in range(n):
            r = rng.random()
            nd = rng.choice([2, 3])
            if r < 0.08:
                yield {"kind": "pp", "p": self._pt(rng, nd),
                       "set": [self._pt(rng, nd) for _ in range(rng.randint(1, 4))]}
            elif r < 0.38:
                npts, nseg = rng.choice([(1, 1), (1, 3), (3, 1), (2, 2), (3, 4), (4, 2)])
                segs = [self._seg(rng, nd) for _ in range(nseg)]
                pts = []
                for _ in range(npts):
                    a, b = rng.choice(segs)
                    q = rng.random()
                    if q < 0.2:     # on the supporting line
                        pts.append(_lin(a, rng.choice([-1, 0, 1, 2]), _sub(b, a)))
                    else:
                        pts.append(self._pt(rng, nd))
                yield {"kind": "ps", "pts": pts, "segs": [list(s) for s in segs]}
            elif r < 0.78:
                a, b = self._seg(rng, nd, degenerate_ok=rng.random() < 0.3)
                k = rng.choice([1, 1, 2, 3])
                st = []
                for _ in range(k):
                    if a != b and rng.random() < 0.6:
                        c, d = self._related_seg(rng, nd, a, b)
                    else:
                        c, d = self._seg(rng, nd)
                    st.append([list(c), list(d)])
                yield {"kind": "ss", "a": a, "b": b, "set": st}
            elif r < 0.83:
                segs = [self._seg(rng, nd, False) for _ in range(rng.randint(1, 4))]
                yield {"kind": "sset", "segs": [list(s) for s in segs]}
            elif r < 0.92:
                poly, local, box, shape = self._polygon(rng, rational=rng.random() < 0.6)
                pts = self._poly_points(rng, local, box, shape, rng.randint(1, 4))
                yield {"kind": "ppoly", "pts": pts, "poly": poly, "tie": self._ppoly_tie_ok(poly)}
            else:
                poly, local, box, shape = self._polygon(rng)
                segs = []
                rp = lambda: (rng.randint(box[0], box[1]), rng.randint(box[2], box[3]))
                for _ in range(rng.randint(1, 3)):
                    q = rng.random()
                    if q < 0.2:      # both end points project INTO the polygon, on opposite
                        #              sides (for non-convex shapes the segment may pass
                        #              through a notch)
                        ins = [ij for ij in (rp() for _ in range(60))
                               if _inside_simple(local(*ij), [_fr(v) for v in poly],
                                                 _poly_normal(poly)) == 2]
                        if len(ins) < 2:
                            continue
                        e = [local(*ins[0], rng.choice([1, 2, 3])),
                             local(*ins[-1], -rng.choice([1, 2, 3]))]
                    elif q < 0.3:    # in the plane
                        e = [local(*rp()), local(*rp())]
                    elif q < 0.6:    # pierces the plane between two lattice end points
                        e = [local(*rp(), rng.choice([1, 2, 3])), local(*rp(), -rng.choice([1, 2]))]
                    elif q < 0.8:    # pierces the plane exactly at a lattice point
                        t = rp()
                        dv = (rng.randint(-2, 2), rng.randint(-2, 2), rng.choice([1, 2]))
                        al, be = rng.choice([1, 2]), rng.choice([1, 2])
                        e = [local(t[0] + al * dv[0], t[1] + al * dv[1], al * dv[2]),
                             local(t[0] - be * dv[0], t[1] - be * dv[1], -be * dv[2])]
                    elif q < 0.9:    # above the plane (parallel or inclined)
                        e = [local(*rp(), rng.choice([1, 2])), local(*rp(), rng.choice([1, 2, 4]))]
                    else:
                        e = list(self._seg(rng, 3, False))
                    if e[0] != e[1]:
                        segs.append(e)
                if segs:
                    yield {"kind": "spoly", "segs": segs, "poly": poly}

    def _corners(self):
        yield {"kind": "ss", "a": [0, 0], "b": [2, 0], "set": [[[0, 1], [2, 1]], [[1, -1], [1, 1]],
                                                              [[3, 0], [5, 0]], [[1, 0], [4, 0]],
                                                              [[2, 0], [2, 3]], [[3, 1], [4, 5]]]}
        yield {"kind": "ss", "a": [0, 0, 0], "b": [0, 0, 0], "set": [[[1, 0, 0], [1, 1, 0]]]}
        yield {"kind": "ss", "a": [0, 0, 0], "b": [1, 0, 0], "set": [[[2, 1, 0], [2, 1, 0]],
                                                                    [[0, 1, 0], [1, 1, 1]]]}
        yield {"kind": "ss", "a": [0, 0, 0], "b": [4, 0, 0], "set": [[[1, -1, 1], [1, 1, 1]],
                                                                    [[6, 2, 1], [9, 3, -1]]]}
        yield {"kind": "ps", "pts": [[1, 1], [-1, 2], [5, 0], [1, 0]], "segs": [[[0, 0], [2, 0]]]}
        yield {"kind": "ps", "pts": [[1, 1]], "segs": [[[0, 0], [0, 0]], [[0, 0], [2, 2]]]}
        yield {"kind": "sset", "segs": [[[0, 0, 0], [1, 0, 0]], [[0, 1, 0], [1, 1, 0]],
                                         [[3, 0, 1], [3, 2, 1]]]}

    # -------------------------------------------------------------- implementation
    def run_impl(self, case):
        k = case["kind"]
        with warnings.catch_warnings():
            warnings.simplefilter("ignore")
            with np.errstate(all="ignore"):
                return self._run(case, k)

    def _run(self, case, k):
        A = lambda pts: np.array(pts, dtype=float).T
        if k == "pp":
            d = D.point_pointset(np.array(case["p"], dtype=float), A(case["set"]))
            return [float(x) for x in d]
        if k == "ps":
            P = A(case["pts"])
            S = A([s[0] for s in case["segs"]])
            E = A([s[1] for s in case["segs"]])
            d, cp = D.points_segments(P, S, E)
            out = []
            for i in range(len(case["pts"])):
                row = []
                for j in range(len(case["segs"])):
                    vals = [float(d[i, j])] + [float(x) for x in cp[i, j]]
                    row.append(["ok", vals] if _fin(*vals) else ["err", "NanErr"])
                out.append(row)
            return out
        if k == "ss":
            S = A([s[0] for s in case["set"]])
            E = A([s[1] for s in case["set"]])
            d, c1, c2 = D.segment_segment_set(np.array(case["a"], dtype=float),
                                              np.array(case["b"], dtype=float), S, E)
            out = []
            for j in range(len(case["set"])):
                vals = [float(d[j])] + [float(x) for x in c1[:, j]] + [float(x) for x in c2[:, j]]
                out.append(["ok", vals] if _fin(*vals) else ["err", "NanErr"])
            return out
        if k == "sset":
            S = A([s[0] for s in case["segs"]])
            E = A([s[1] for s in case["segs"]])
            try:
                d, cp = D.segment_set(S, E)
            except (IndexError, ValueError) as e:
                return {"error": f"{type(e).__name__}: {e}"}
            return {"d": [[float(x) for x in row] for row in d],
                    "cp": [[[float(x) for x in cp[i, j]] for j in range(cp.shape[1])]
                           for i in range(cp.shape[0])]}
        if k == "ppoly":
            d, cp, inp = D.points_polygon(A(case["pts"]), A(case["poly"]),
                                          tol=1e-5 * case.get("scale", 1))
            return {"d": [float(x) for x in d], "cp": [[float(x) for x in cp[:, i]]
                                                        for i in range(cp.shape[1])]}
        if k == "spoly":
            S = A([s[0] for s in case["segs"]])
            E = A([s[1] for s in case["segs"]])
            d, cp = D.segments_polygon(S, E, A(case["poly"]), tol=1e-5 * case.get("scale", 1))
            return {"d": [float(x) for x in d], "cp": [[float(x) for x in cp[:, i]]
                                                        for i in range(cp.shape[1])]}
        raise ValueError(k)

    # ---------------------------------------------------------------------- oracle
    def oracle(self, case, res):
        k = case["kind"]
        tol = _tol_abs(case)
        if k == "pp":
            for q, d in zip(case["set"], res):
                ex = _dot(_sub(_fr(case["p"]), _fr(q)), _sub(_fr(case["p"]), _fr(q)))
                if not _dist_ok(d, ex, tol):
                    return f"point-point distance {d!r}, exact squared {ex}"
            return None
        if k == "ps":
            for i, p in enumerate(case["pts"]):
                for j, (a, b) in enumerate(case["segs"]):
                    r = res[i][j]
                    if a == b:
                        continue            # zero-length segment: outside the property
                    if r[0] != "ok":
                        return f"point-segment returned {r[1]} for a proper segment"
                    ex, cp = ps_exact(p, a, b)
                    if not _dist_ok(r[1][0], ex, tol):
                        return f"point-segment distance {r[1][0]!r}, exact squared {ex}"
                    if not _pt_ok(r[1][1:], cp, tol):
                        return f"point-segment closest point {r[1][1:]}, exact {[str(x) for x in cp]}"
                    if abs(math.dist(p, r[1][1:]) - r[1][0]) > 4 * tol:
                        return "point-segment distance disagrees with the returned closest point"
            return None
        if k == "ss":
            a, b = case["a"], case["b"]
            if a == b or any(c == d for c, d in case["set"]):
                return None                 # zero-length segment in play
            nd = len(a)
            for (c, d), r in zip(case["set"], res):
                if r[0] != "ok":
                    return f"segment-segment returned {r[1]} for proper segments"
                dist, c1, c2 = r[1][0], r[1][1:1 + nd], r[1][1 + nd:]
                ex = ss_exact(a, b, c, d)
                if not _dist_ok(dist, ex, tol):
                    return (f"segment-segment distance {dist!r} (squared {dist * dist!r}), "
                            f"exact squared minimum {ex}")
                if not _on_segment(c1, a, b, tol):
                    return f"closest point {c1} is not on the main segment"
                if not _on_segment(c2, c, d, tol):
                    return f"closest point {c2} is not on the second segment"
                if abs(math.dist(c1, c2) - dist) > 4 * tol:
                    return "returned closest points do not realise the returned distance"
            return None
        if k == "sset":
            if "error" in res:
                return "implementation raised " + res["error"]
            segs = case["segs"]
            n = len(segs)
            for i in range(n):
                for j in range(n):
                    if i == j:
                        if res["d"][i][i] != 0:
                            return "segment_set: nonzero diagonal"
                        continue
                    ex = ss_exact(*segs[i], *segs[j])
                    if not _dist_ok(res["d"][i][j], ex, tol):
                        return (f"segment_set: distance[{i}][{j}] = {res['d'][i][j]!r}, exact "
                                f"squared {ex}")
                    if not _on_segment(res["cp"][i][j], segs[i][0], segs[i][1], tol):
                        return f"segment_set: cp[{i}][{j}] is not on segment {i}"
                    if abs(math.dist(res["cp"][i][j], res["cp"][j][i]) - res["d"][i][j]) > 4 * tol:
                        return f"segment_set: cp[{i}][{j}], cp[{j}][{i}] do not realise the distance"
            return None
        if k == "ppoly":
            poly = case["poly"]
            for p, d, cp in zip(case["pts"], res["d"], res["cp"]):
                ex = ppoly_exact(p, poly)
                if not _dist_ok(d, ex, tol):
                    return f"point-polygon distance {d!r}, exact squared {ex}"
                if math.sqrt(float(ppoly_exact(cp, poly))) > 4 * tol:
                    return f"point-polygon closest point {cp} is not on the polygon"
                if abs(math.dist(p, cp) - d) > 4 * tol:
                    return "point-polygon closest point is not at the returned distance"
            return None
        if k == "spoly":
            poly = case["poly"]
            for (a, b), d, cp in zip(case["segs"], res["d"], res["cp"]):
                ex = spoly_exact(a, b, poly)
                if not _dist_ok(d, ex, tol):
                    return f"segment-polygon distance {d!r}, exact squared {ex}"
                # the returned point lies on one of the two objects, at the returned
                # distance from the other
                dseg = math.sqrt(float(ps_exact(cp, a, b)[0]))
                dpol = math.sqrt(float(ppoly_exact(cp, poly)))
                on_seg = dseg <= 4 * tol and abs(dpol - d) <= 8 * tol
                on_pol = dpol <= 4 * tol and abs(dseg - d) <= 8 * tol
                if not (on_seg or on_pol):
                    return (f"segment-polygon closest point {cp} is not on the segment/polygon "
                            "at the returned distance from the other")
            return None
        return None

    # ------------------------------------------------------------------------- tie
    def coq_case(self, case, res):
        k = case["kind"]
        tol = cq(F(_tol_abs(case)))
        if k == "pp":
            return " && ".join(f"agree_pp {tol} {_v(case['p'])} {_v(q)} {cq(d)}"
                               for q, d in zip(case["set"], res))
        if k == "ps":
            terms = []
            for i, p in enumerate(case["pts"]):
                for j, (a, b) in enumerate(case["segs"]):
                    r = res[i][j]
                    if r[0] == "ok":
                        r = ["ok", [r[1][0]] + _pad(r[1][1:])]
                    terms.append(f"agree_ps {tol} {_v(p)} {_v(a)} {_v(b)} {_res(r)}")
            return " && ".join(terms)
        if k == "ss":
            nd = len(case["a"])
            outs = []
            for r in res:
                if r[0] == "ok":
                    r = ["ok", [r[1][0]] + _pad(r[1][1:1 + nd]) + _pad(r[1][1 + nd:])]
                outs.append(r)
            st = clist(case["set"], lambda s: f"({_v(s[0])}, {_v(s[1])})")
            t = f"agree_ss {tol} {_v(case['a'])} {_v(case['b'])} {st} {clist(outs, _res)}"
            if case["a"] != case["b"] and all(c != d for c, d in case["set"]):
                # the configuration is off the tolerance band: the optimality theorem
                # applies to it
                t += f" && off_band_set Q QO {_v(case['a'])} {_v(case['b'])} {st}"
            return t
        if k == "sset":
            if "error" in res:
                return "false"
            segs = clist(case["segs"], lambda s: f"({_v(s[0])}, {_v(s[1])})")
            n = len(case["segs"])
            terms = []
            for i in range(n):
                for j in range(n):
                    vals = [res["d"][i][j]] + _pad(res["cp"][i][j])
                    r = ["ok", vals] if _fin(*vals) else ["err", "NanErr"]
                    terms.append(f"agree_sset_entry {tol} {segs} {i}%nat {j}%nat {_res(r)}")
            return " && ".join(terms)
        if k == "ppoly" and case.get("tie"):
            poly = clist(case["poly"], _v)
            gtol = cq(F(1, 100000) * F(case.get("scale", 1)))
            terms = []
            for pt, d, cp in zip(case["pts"], res["d"], res["cp"]):
                terms.append(f"agree_ppoly {tol} {gtol} {_v(pt)} {poly} "
                             f"{_res(['ok', [d] + list(cp)])}")
            return " && ".join(terms)
        return None

    def coq_diag(self, case, res):
        k = case["kind"]
        if k == "ss":
            st = clist(case["set"], lambda s: f"({_v(s[0])}, {_v(s[1])})")
            return f"seg_seg_set Q QO {_v(case['a'])} {_v(case['b'])} {st}"
        if k == "ps":
            a, b = case["segs"][0]
            return f"point_segment Q QO {_v(case['pts'][0])} {_v(a)} {_v(b)}"
        if k == "ppoly":
            poly = clist(case["poly"], _v)
            gtol = cq(F(1, 100000) * F(case.get("scale", 1)))
            return (f"map (fun p => points_polygon Q QO (1 # 100000) {gtol} p {poly}) "
                    f"{clist(case['pts'], _v)}")
        if k == "sset":
            segs = clist(case["segs"], lambda s: f"({_v(s[0])}, {_v(s[1])})")
            return f"segment_set_upper Q QO {segs}"
        return None

    def nontrivial(self, case, res):
        k = case["kind"]
        if k == "ss":
            return case["a"] != case["b"] and any(c != d for c, d in case["set"])
        if k in ("ps", "sset", "spoly"):
            return any(a != b for a, b in case["segs"])
        return True

    def finding_key(self, case, res, why):
        w = why.split(" ")
        return f"{case['kind']}: {' '.join(w[:3])}".rstrip(":")

    def shrink(self, case, still_fails):
        for key in ("set", "pts", "segs"):
            if key in case and len(case[key]) > 1:
                items = list(case[key])
                changed = True
                while changed and len(items) > 1:
                    changed = False
                    for i in range(len(items)):
                        c = dict(case, **{key: items[:i] + items[i + 1:]})
                        if still_fails(c):
                            items = c[key]
                            changed = True
                            break
                case = dict(case, **{key: items})
        return case


PROP = C30()
