"""C20 — grid geometry is equivariant under rigid motions (Grid.compute_geometry)."""
import warnings
from fractions import Fraction as F

import numpy as np
import scipy.sparse as sps

from harness.core import Prop, clist

import porepy as pp

TOL = F(1, 10 ** 9)


# ------------------------------------------------------------------------------------------
# grids and motions
# ------------------------------------------------------------------------------------------
#: 2-D grids with NON-CONVEX cells: (node coordinates, cells as counter-clockwise node loops)
POLY_TEMPLATES = {
    "arrow": ([(0, 0), (0.5, 0.5), (1, 0), (0.5, 1)], [[0, 1, 2, 3]]),
    "arrow_ext": ([(0, 0), (0.5, 0.75), (1, 0), (0.5, 1)], [[0, 1, 2, 3]]),     # centroid outside
    "three": ([(0, 0), (0.5, 0.5), (1, 0), (0.5, 1), (0.5, -0.5), (0.5, -1)],
              [[0, 1, 2, 3], [0, 4, 2, 1], [0, 5, 2, 4]]),                        # 2 concave + 1 convex
    "ell": ([(0, 0), (2, 0), (2, 1), (1, 1), (1, 2), (0, 2), (2, 2)],
            [[0, 1, 2, 3, 4, 5], [3, 2, 6, 4]]),                                   # L-shape + square
    "pent": ([(0, 0), (2, 0), (2, 2), (1, 1), (0, 2)], [[0, 1, 2, 3, 4], [2, 4, 3]]),
    # long L and U: not star-shaped w.r.t. the mean of their face centres
    "longL": ([(0, 0), (4, 0), (4, 1), (1, 1), (1, 2), (0, 2)], [[0, 1, 2, 3, 4, 5]]),
    "longU": ([(0, 0), (5, 0), (5, 3), (4, 3), (4, 1), (1, 1), (1, 3), (0, 3)],
              [[0, 1, 2, 3, 4, 5, 6, 7]]),
    "notch": ([(0, 0), (3, 0), (3, 2), (2, 2), (1.5, 0.5), (1, 2), (0, 2)],
              [[0, 1, 2, 3, 4, 5, 6], [3, 5, 4]]),                                 # heptagon + triangle
}


def poly_nodes(case):
    nodes, cells = POLY_TEMPLATES[case["template"]]
    sx, sy = case["scale2"]
    return [(F(x) * F(sx), F(y) * F(sy)) for x, y in nodes], cells


def build_poly(case):
    """pp.Grid from node loops; clockwise = every loop reversed (consistent orientation, the
    loop normal points to -z); some faces stored with reversed node order (sign -1)."""
    nodes, cells = poly_nodes(case)
    if case["clockwise"]:
        cells = [c[::-1] for c in cells]
    faces, index = [], {}
    rows, cols, vals = [], [], []
    flip = case.get("flip_faces", 0)
    for ci, loop in enumerate(cells):
        for a, b in zip(loop, loop[1:] + loop[:1]):
            key = (min(a, b), max(a, b))
            if key not in index:
                index[key] = len(faces)
                faces.append((b, a) if (flip >> len(faces)) & 1 else (a, b))
            f = index[key]
            rows.append(f)
            cols.append(ci)
            vals.append(1 if faces[f] == (a, b) else -1)
    fn = sps.csc_matrix((np.ones(2 * len(faces)), np.array(faces).ravel(),
                         np.arange(0, 2 * len(faces) + 1, 2)), shape=(len(nodes), len(faces)))
    cf = sps.csc_matrix((np.array(vals, dtype=float), (np.array(rows), np.array(cols))),
                        shape=(len(faces), len(cells)))
    xyz = np.array([[float(x), float(y), 0.0] for x, y in nodes]).T
    return pp.Grid(2, xyz, fn, cf, "nonconvex_" + case["template"])


def pre_apply(case, p):
    """The prior rigid motion (exact) that embeds the grid before its geometry is computed
    for the first time; identity if the case has none."""
    if not case.get("pre_quat"):
        return list(p)
    return apply(rotation(case["pre_quat"]), [F(a, b) for a, b in case["pre_shift"]], p)


def build(case):
    g = build0(case)
    if case.get("node_scale"):
        g.nodes = g.nodes * float(case["node_scale"])      # dyadic factor: exact
    if case.get("pre_quat"):
        g.nodes = np.array([[float(x) for x in pre_apply(case, [F(c) for c in p])]
                            for p in g.nodes.T.tolist()]).T.copy()
    return g


def build0(case):
    k = case["kind"]
    if k == "poly":
        return build_poly(case)
    if k == "cart":
        g = pp.CartGrid(np.array(case["dims"]))
    elif k == "tensor":
        g = pp.TensorGrid(*[np.array(c, dtype=float) for c in case["coords"]])
    elif k == "tri":
        g = pp.StructuredTriangleGrid(np.array(case["dims"]))
    elif k == "tet":
        g = pp.StructuredTetrahedralGrid(np.array(case["dims"]))
    else:
        raise ValueError(k)
    nd = g.dim
    lo, hi = g.nodes.min(axis=1), g.nodes.max(axis=1)
    mode = case.get("perturb", "none")
    if mode == "interior":
        targets = [i for i in range(g.num_nodes)
                   if all(lo[d] < g.nodes[d, i] < hi[d] for d in range(nd))]
    elif mode == "all":
        targets = list(range(g.num_nodes))
    else:
        targets = []
    pert = case.get("pert", [0])
    for j, i in enumerate(targets):
        for d in range(nd):
            g.nodes[d, i] += case["scale"] * pert[(j * nd + d) % len(pert)]
    for f in case.get("swap_faces", []):
        if nd == 2 and g.num_faces:
            f = f % g.num_faces
            a, b = g.face_nodes.indptr[f], g.face_nodes.indptr[f + 1]
            g.face_nodes.indices[a:b] = g.face_nodes.indices[a:b][::-1].copy()
    return g


def rotation(q):
    """Exact rational rotation matrix of the integer quaternion q = (a, b, c, d)."""
    a, b, c, d = [F(x) for x in q]
    n = a * a + b * b + c * c + d * d
    R = [[a * a + b * b - c * c - d * d, 2 * (b * c - a * d), 2 * (b * d + a * c)],
         [2 * (b * c + a * d), a * a - b * b + c * c - d * d, 2 * (c * d - a * b)],
         [2 * (b * d - a * c), 2 * (c * d + a * b), a * a - b * b - c * c + d * d]]
    return [[x / n for x in row] for row in R]


def apply(R, t, p):
    return [sum(R[i][j] * p[j] for j in range(3)) + t[i] for i in range(3)]


def geometry(g):
    with warnings.catch_warnings(record=True) as w:
        warnings.simplefilter("always")
        g.compute_geometry()
    fallback = any("Orientations are inconsistent" in str(x.message) for x in w)
    return {"area": g.face_areas.tolist(), "fc": g.face_centers.T.tolist(),
            "fn": g.face_normals.T.tolist(), "vol": g.cell_volumes.tolist(),
            "cc": g.cell_centers.T.tolist(), "fallback": bool(fallback)}


# ------------------------------------------------------------------------------------------
# Coq literals
# ------------------------------------------------------------------------------------------
def qz(x):
    fr = F(x)
    n, d = fr.numerator, fr.denominator
    return f"{n}" if (d == 1 and n >= 0) else (f"({n})" if d == 1 else f"({n}#{d})")


def qv(p):
    return f"({qz(p[0])},{qz(p[1])},{qz(p[2])})"


def geom_term(G):
    return (f"{{| g_area := {clist(G['area'], qz)}; g_fc := {clist(G['fc'], qv)}; "
            f"g_fn := {clist(G['fn'], qv)}; g_vol := {clist(G['vol'], qz)}; "
            f"g_cc := {clist(G['cc'], qv)} |}}")


class C20(Prop):
    id = "C20"
    props_file = "Props/C20.v"
    preamble = ("From Coq Require Import List ZArith QArith.\nImport ListNotations.\n"
                "From PP Require Import Model.C20.\nOpen Scope Q_scope.\n")
    n_cases = (60, 240)
    design_ref = "DESIGN.md §5 C20"
    level_text = (
        "Coq theorems over ANY commutative ring (Leibniz equality): (Mu)x(Mv) = cof(M)(uxv) for "
        "every matrix; cof(M) = M for M^T M = I, det M = 1; dot products invariant, cross products "
        "rotate; C20_geometry_equivariant: EVERY formula built from node positions by point "
        "differences, point+vector, affine combinations, vector sums/scalings/cross products, dot "
        "products, scalar sums/products and arbitrary scalar functions (sqrt, sign, reciprocal) is "
        "invariant (scalars: volumes, areas), rotates (vectors: normals) or moves (points: "
        "centres) with the grid; and, for this property's OWN transcription of "
        "Grid._compute_geometry_2d (oriented branch, cells with any number of faces, grid embedded "
        "anywhere in 3-D: tangents, face centres, temporary centres, sub-simplex normals, plane "
        "normal contributions, face normals, signed volumes, centroids) and of the face normals of "
        "_compute_geometry_3d, the concrete equivariance statements.  Tie: on generated grids "
        "(1-D, 2-D, 3-D; Cartesian, tensor, triangle, tetrahedral; dyadic node perturbations) the "
        "nodes are moved by an EXACT rational rotation (integer quaternion) and rational "
        "translation, the real compute_geometry runs before and after, and Coq checks in Q (a) the "
        "matrix is a proper rotation exactly, (b) the moved nodes are the motion of the nodes, (c) "
        "the property on the real output: areas and volumes unchanged, face/cell centres moved by "
        "the motion, normals rotated (band 1e-9*(1+|x|)), and (d) that the transcribed formula set "
        "reproduces the real output before and after the motion: 2-D all fields (plane-normal "
        "length via a checked witness), 1-D all fields (volumes via squares, unit outward normals "
        "along the line), 3-D face normals.")
    level_note = (
        "NOT proved / oracle only: the tolerance-based plane fitting map_geometry.compute_normal "
        "and the legacy convex fallback branch of _compute_geometry_2d (generated on purpose by "
        "reversing the node order of faces; covered by check (c) only); compute_tangent's argmax "
        "choice in 1-D; 3-D face centres/areas (square roots of sub-triangle normals) and 3-D cell "
        "volumes/centres are covered by check (c) and by C20_geometry_equivariant in general form "
        "(they are formulas of the stated kind) but not transcribed one by one; floating-point "
        "rounding.  The theorems are stated over rings with Leibniz equality (reals, Qc); the tie "
        "executes the same polymorphic definitions at Q (instance-independence of the polymorphic "
        "definitions is trusted).  The C19 model (non-embedded 1-D/2-D only) is not used.")
    technique = ("Coq proof (polynomial identities by ring; mutual induction over an expression "
                 "language of geometry formulas; induction over edge lists) + vm_compute execution "
                 "correspondence in Q with exact rational rotations + exact-fractions oracle")
    rule = ("random grids: CartGrid / TensorGrid in 1-3-D, StructuredTriangleGrid, "
            "StructuredTetrahedralGrid; 20%: 2-D grids with NON-CONVEX cells built via pp.Grid (arrow, "
            "arrow with external centroid, two concave + one convex, L + square, concave pentagon + "
            "triangle, notched heptagon + triangle; both loop orientations, random faces stored "
            "reversed, anisotropic dyadic scaling), checked against the exact shoelace area and "
            "centroid before and after the motion; every grid is also moved IN PLACE after its geometry "
            "was computed and recomputed (history) and compared with a fresh grid; 25% of the 1-D/2-D "
            "grids are first embedded on a generic line / plane by a prior exact rigid motion; a DIRECTED "
            "stream of 10 cases in every run (incl. long L / U cells turned upside down in place about "
            "an in-plane axis, and 1-D grids of size 2^-10..2^-20 or unit size tilted by tiny exact "
            "rotations off their axis): 1-D grids on generic lines and a 2-D grid in a generic "
            "plane, geometry computed, then moved in place by a half turn about a coordinate axis (quarter "
            "turn about z for a line with |a| = |b|) with or without translation; dyadic node perturbations (interior / all nodes; 3-D: "
            "tetrahedral grids only); quarter/half turns about coordinate axes (17%); 2-D stream with reversed faces (fallback + plane fitting); "
            "exact rational rotation from an integer quaternion: entries in [-4,4] (incl. identity and "
            "axis-aligned quarter turns), SMALL angles 1e-6..1e-2 rad about arbitrary axes (N, a, b, c "
            "with N up to 4e6), nearly half turns (1, N a, N b, N c); translation with small rational "
            "components (incl. zero) or LARGE exact ones (1e3..1e6 in one or all components); "
            "comparisons relative 1e-9 plus a slack 2^-40 * max|moved coordinate| * (1 + max|original "
            "coordinate|)^2 for the precision of the float input; non-trivial = "
            "rotation is not the identity; distinct by (case, output)")
    trusted = ["float -> exact rational conversion; band 1e-9*(1+|x|) + 2^-40*max|moved coordinate|*"
               "(1+max|original coordinate|)^2 evaluated inside Coq",
               "instance-independence of the polymorphic formula definitions (proved for Leibniz "
               "rings, executed at Q)"]
    assumptions = ["proper rotations only (det = +1)"]

    def __init__(self):
        self.stats = {}

    # ------------------------------------------------------------------ generator
    def _directed(self, rng):
        """Present in EVERY run: grids whose geometry is computed on a generic line / in a generic
        plane and which are then moved IN PLACE by a half turn about a coordinate axis (or a
        quarter turn about z for a line with |a| = |b|), with or without a translation — motions
        that keep all per-axis extents — and recomputed."""
        half = [[0, 1, 0, 0], [0, 0, 1, 0], [0, 0, 0, 1]]
        gen = lambda: rng.choice([[1, 2, 3, 4], [2, -1, 3, 1], [3, 1, -2, 2], [1, -3, 2, 2], [2, 3, 1, -1]])
        sh = lambda: ([[0, 1]] * 3 if rng.random() < 0.5 else
                      [[rng.randint(-12, 12), rng.choice([1, 2, 4])] for _ in range(3)])
        base = {"perturb": "none", "scale": 1.0 / 64, "pert": [0], "swap_faces": []}
        xs = [0.0]
        for _ in range(rng.randint(2, 5)):
            xs.append(xs[-1] + rng.choice([0.5, 1.0, 1.5, 2.0]))
        yield dict(base, kind="cart", dims=[rng.randint(2, 6)], pre_quat=gen(),
                   pre_shift=sh(), quat=rng.choice(half), shift=sh())
        yield dict(base, kind="tensor", coords=[xs], pre_quat=gen(), pre_shift=sh(),
                   quat=rng.choice(half), shift=sh())
        # line direction (4, -4, -7)/9: a quarter turn about z keeps the extents
        yield dict(base, kind="cart", dims=[rng.randint(2, 6)], pre_quat=[-3, -2, -1, 2],
                   pre_shift=sh(), quat=rng.choice([[1, 0, 0, 1], [1, 0, 0, -1]]), shift=sh())
        yield dict(base, kind=rng.choice(["cart", "tri"]), dims=[rng.randint(1, 3), rng.randint(1, 3)],
                   pre_quat=gen(), pre_shift=sh(), quat=rng.choice(half), shift=sh())

    def _directed2(self, rng):
        """(a) NON-CONVEX cells (long L / U) whose geometry is computed and which are then turned
        upside down IN PLACE: half turn about an axis lying in the grid's plane (x or y for the
        xy-plane; the image of the x-axis for a generic plane), with or without translation.
        (b) small 1-D grids (dyadic scale 2^-10 .. 2^-20) and unit ones tilted by a tiny exact
        rotation off their coordinate axis: the normals must be the ROTATED normals."""
        def qmul(p, q):
            a1, b1, c1, d1 = p
            a2, b2, c2, d2 = q
            return [a1 * a2 - b1 * b2 - c1 * c2 - d1 * d2, a1 * b2 + b1 * a2 + c1 * d2 - d1 * c2,
                    a1 * c2 - b1 * d2 + c1 * a2 + d1 * b2, a1 * d2 + b1 * c2 - c1 * b2 + d1 * a2]
        sh = lambda: ([[0, 1]] * 3 if rng.random() < 0.5 else
                      [[rng.randint(-12, 12), rng.choice([1, 2, 4])] for _ in range(3)])
        base = {"perturb": "none", "scale": 1.0 / 64, "pert": [0], "swap_faces": [], "dims": [1, 1]}
        for tpl in ("longL", "longU"):
            yield dict(base, kind="poly", template=tpl, scale2=[1.0, 1.0],
                       clockwise=rng.random() < 0.5, flip_faces=rng.randrange(256),
                       quat=rng.choice([[0, 1, 0, 0], [0, 0, 1, 0]]), shift=sh())
        q0 = rng.choice([[1, 2, 3, 4], [2, -1, 3, 1], [3, 1, -2, 2]])
        inplane = qmul(qmul(q0, rng.choice([[0, 1, 0, 0], [0, 0, 1, 0]])),
                       [q0[0], -q0[1], -q0[2], -q0[3]])
        yield dict(base, kind="poly", template=rng.choice(["longL", "longU"]), scale2=[1.0, 1.0],
                   clockwise=rng.random() < 0.5, flip_faces=rng.randrange(256),
                   pre_quat=q0, pre_shift=sh(), quat=inplane, shift=sh())
        b1 = {"perturb": "none", "scale": 1.0 / 64, "pert": [0], "swap_faces": []}
        tiny = lambda N: [N] + rng.choice([[0, 1, 0], [0, 0, 1], [0, 1, 1], [0, 2, -1], [1, 1, 2]])
        yield dict(b1, kind="cart", dims=[rng.randint(1, 4)], node_scale=2.0 ** -rng.randint(10, 12),
                   quat=tiny(rng.choice([2000, 10 ** 4])), shift=[[0, 1]] * 3)
        yield dict(b1, kind="cart", dims=[rng.randint(1, 4)], node_scale=2.0 ** -rng.randint(10, 20),
                   quat=tiny(rng.choice([10 ** 3, 10 ** 5])), shift=sh())
        yield dict(b1, kind="cart", dims=[1], quat=tiny(rng.choice([10 ** 6, 4 * 10 ** 6])),
                   shift=[[0, 1]] * 3)

    @staticmethod
    def _conditioned(case):
        """A grid of size s translated by t has node coordinates with relative precision
        2^-52 * t / s; small grids (node_scale) therefore only get translations of their own
        size, so that directions stay resolved far below the comparison band."""
        sc = case.get("node_scale")
        if sc:
            j = int(round(-np.log2(sc)))
            for key in ("shift", "pre_shift"):
                if key in case:
                    case[key] = [[(a % 25) - 12 if abs(a) > 12 * b else a, b * 2 ** j]
                                 for a, b in case[key]]
        return case

    def generate(self, rng, n, tier):
        k = 0
        for case in list(self._directed(rng)) + list(self._directed2(rng)):
            k += 1
            yield self._conditioned(case)
        for case in self._generate(rng, max(0, n - k), tier):
            yield self._conditioned(case)

    def _generate(self, rng, n, tier):
        big = tier != "quick"
        m = 4 if big else 3
        sp = [0.5, 1.0, 1.0, 1.5, 2.0]
        for i in range(n):
            r = rng.random()
            if rng.random() < 0.2:
                # non-convex cells, both loop orientations, some faces stored reversed
                case = {"kind": "poly", "template": rng.choice(sorted(POLY_TEMPLATES)),
                        "scale2": [rng.choice([0.5, 1.0, 1.0, 1.5, 2.0]), rng.choice([0.5, 1.0, 1.0, 3.0])],
                        "clockwise": rng.random() < 0.5,
                        "flip_faces": rng.randrange(1024) if rng.random() < 0.5 else 0,
                        "dims": [1, 1]}
            elif r < 0.10:
                case = {"kind": "cart", "dims": [rng.randint(1, 3 * m)]}
            elif r < 0.20:
                xs = [float(rng.randint(-4, 4))]
                for _ in range(rng.randint(1, 2 * m)):
                    xs.append(xs[-1] + rng.choice(sp))
                case = {"kind": "tensor", "coords": [xs]}
            elif r < 0.36:
                case = {"kind": "cart", "dims": [rng.randint(1, m + 1), rng.randint(1, m)]}
            elif r < 0.48:
                cs = []
                for _ in range(2):
                    xs = [float(rng.randint(-4, 4))]
                    for _ in range(rng.randint(1, m)):
                        xs.append(xs[-1] + rng.choice(sp))
                    cs.append(xs)
                case = {"kind": "tensor", "coords": cs}
            elif r < 0.66:
                case = {"kind": "tri", "dims": [rng.randint(1, m), rng.randint(1, m)]}
            elif r < 0.78:
                case = {"kind": "cart", "dims": [rng.randint(1, 3), rng.randint(1, 2), rng.randint(1, 2)]}
            elif r < 0.86:
                cs = []
                for _ in range(3):
                    xs = [0.0]
                    for _ in range(rng.randint(1, 2)):
                        xs.append(xs[-1] + rng.choice(sp))
                    cs.append(xs)
                case = {"kind": "tensor", "coords": cs}
            else:
                case = {"kind": "tet", "dims": [rng.randint(1, 2), rng.randint(1, 2), 1]}
            nd = len(case.get("dims", case.get("coords", [])))
            case["perturb"] = rng.choice(["none", "interior", "all", "all"])
            if case["kind"] == "poly":
                case["perturb"] = "none"
            if nd == 3 and case["kind"] != "tet":
                case["perturb"] = "none"
            case["scale"] = 1.0 / 64
            case["pert"] = [rng.randint(-7, 7) for _ in range(24)]
            case["swap_faces"] = ([rng.randint(0, 10 ** 6) for _ in range(rng.randint(1, 2))]
                                  if (nd == 2 and case["kind"] != "poly" and rng.random() < 0.25)
                                  else [])
            if nd == 1 and rng.random() < 0.3:
                case["node_scale"] = 2.0 ** -rng.randint(6, 20)
            if nd < 3 and rng.random() < 0.25:
                # embed the grid on a generic line / plane BEFORE the first compute_geometry
                pq = [0, 0, 0, 0]
                while not any(pq[1:]):
                    pq = [rng.randint(-3, 3) for _ in range(4)]
                case["pre_quat"] = pq
                case["pre_shift"] = [[rng.randint(-8, 8), rng.choice([1, 2, 4])] for _ in range(3)]
            rq = rng.random()
            if rq < 0.05:
                q = [1, 0, 0, 0]
            elif rq < 0.22:
                # quarter and half turns about the coordinate axes and diagonals (upside-down ...)
                q = rng.choice([[1, 1, 0, 0], [1, 0, 1, 0], [1, 0, 0, 1], [0, 1, 0, 0], [0, 0, 1, 0],
                                [0, 0, 0, 1], [0, 0, 1, 1], [1, 1, 1, 1], [1, -1, 0, 0], [1, 0, -1, 0],
                                [1, 0, 0, -1], [0, 1, 1, 0], [0, 1, 0, 1]])
            elif rq < 0.40:
                # SMALL angles (about 2|v|/N rad, 1e-6 ... 1e-2) about an arbitrary axis
                v = [0, 0, 0]
                while not any(v):
                    v = [rng.randint(-3, 3) for _ in range(3)]
                q = [rng.choice([200, 500, 2000, 10 ** 4, 10 ** 5, 10 ** 6, 4 * 10 ** 6])] + v
            elif rq < 0.52:
                # nearly a half turn: angle pi - 2e/(N|v|) about an arbitrary axis
                v = [0, 0, 0]
                while not any(v):
                    v = [rng.randint(-3, 3) for _ in range(3)]
                N = rng.choice([100, 10 ** 3, 10 ** 5, 10 ** 6])
                q = [rng.choice([1, -1, 2]), N * v[0], N * v[1], N * v[2]]
            else:
                q = [0, 0, 0, 0]
                while not any(q):
                    q = [rng.randint(-4, 4) for _ in range(4)]
            case["quat"] = q
            den = rng.choice([1, 2, 3, 4, 5, 8])
            rt = rng.random()
            if rt < 0.12:
                case["shift"] = [[0, 1]] * 3
            elif rt < 0.45:
                # LARGE translations, exact: 1e3 ... 1e6 in one or all components
                big = rng.choice([10 ** 3, 10 ** 4, 10 ** 5, 10 ** 6])
                sh = [[rng.randint(-12, 12), den] for _ in range(3)]
                for k in (range(3) if rng.random() < 0.5 else [rng.randrange(3)]):
                    sh[k] = [rng.choice([-1, 1]) * big * den + sh[k][0], den]
                case["shift"] = sh
            else:
                case["shift"] = [[rng.randint(-12, 12), den] for _ in range(3)]
            yield case

    # ------------------------------------------------------------------ implementation
    def run_impl(self, case):
        g = build(case)
        R = rotation(case["quat"])
        t = [F(a, b) for a, b in case["shift"]]
        N = g.nodes.T.tolist()
        N2 = [[float(x) for x in apply(R, t, [F(c) for c in p])] for p in N]
        g2 = build(case)                       # a FRESH grid at the moved position
        g2.nodes = np.array(N2).T.copy()
        G = geometry(g)
        G2 = geometry(g2)
        # history: the grid whose geometry was computed is moved IN PLACE and recomputed
        g.nodes[:, :] = np.array(N2).T
        G2h = geometry(g)
        cf = sps.coo_matrix(g.cell_faces)
        out = {
            "dim": int(g.dim), "nc": int(g.num_cells), "nf": int(g.num_faces),
            "N": N, "N2": N2, "G": G, "G2": G2, "G2_inplace": G2h,
            "fn_indices": [int(x) for x in g.face_nodes.indices],
            "fn_indptr": [int(x) for x in g.face_nodes.indptr],
            "cf": [[int(r), int(c), int(v)] for r, c, v in zip(cf.row, cf.col, cf.data)],
            "cf_indices": [int(x) for x in g.cell_faces.indices],
        }
        key = ("poly_" + ("cw" if case["clockwise"] else "ccw") if case["kind"] == "poly" else
               f"dim{g.dim}") + ("_fallback" if G["fallback"] or G2["fallback"] else "") + \
              ("" if case["perturb"] == "none" else "_pert")
        self.stats[key] = self.stats.get(key, 0) + 1
        return out

    # ------------------------------------------------------------------ oracle
    def oracle(self, case, res):
        R = rotation(case["quat"])
        t = [F(a, b) for a, b in case["shift"]]
        G, G2 = res["G"], res["G2"]
        # absolute slack for the precision of the input coordinates (same as Model.C20.slack)
        mx = lambda pts: max([abs(F(c)) for p in pts for c in p] + [F(0)])
        sl = F(1, 2 ** 40) * mx(res["N2"]) * (1 + mx(res["N"])) ** 2
        close = lambda a, b: abs(F(a) - F(b)) <= TOL * (1 + abs(F(b))) + sl
        for name, what in (("area", "face area"), ("vol", "cell volume")):
            for i, (a, b) in enumerate(zip(G[name], G2[name])):
                if not close(b, a):
                    return f"{what} {i} changed from {a!r} to {b!r} under the motion"
        for name, what in (("fc", "face centre"), ("cc", "cell centre")):
            for i, (p, p2) in enumerate(zip(G[name], G2[name])):
                e = apply(R, t, [F(c) for c in p])
                if not all(close(x, y) for x, y in zip(p2, e)):
                    return (f"{what} {i}: after the motion {p2}, but the moved centre is "
                            f"{[float(x) for x in e]}")
        zero = [F(0)] * 3
        for i, (p, p2) in enumerate(zip(G["fn"], G2["fn"])):
            e = apply(R, zero, [F(c) for c in p])
            if not all(close(x, y) for x, y in zip(p2, e)):
                return (f"face normal {i}: after the motion {p2}, but the rotated normal is "
                        f"{[float(x) for x in e]}")
        # history: the same grid object moved in place and recomputed = a fresh grid there
        Gh = res.get("G2_inplace")
        if Gh is not None:
            for name in ("area", "vol"):
                for i, (a, b) in enumerate(zip(G2[name], Gh[name])):
                    if not close(b, a):
                        return (f"history: {name} {i} of the grid moved in place and recomputed is "
                                f"{b!r}, a fresh grid at the same position gives {a!r}")
            for name in ("fc", "cc", "fn"):
                for i, (p, q) in enumerate(zip(G2[name], Gh[name])):
                    if not all(close(y, x) for x, y in zip(p, q)):
                        return (f"history: {name} {i} of the grid moved in place and recomputed is "
                                f"{q}, a fresh grid at the same position gives {p}")
        # non-convex cells: exact area and centroid of every cell by the shoelace formula
        if case["kind"] == "poly":
            nodes, cells = poly_nodes(case)
            for c, loop in enumerate(cells):
                pts = [nodes[i] for i in loop]
                a2 = sum(p[0] * q[1] - q[0] * p[1] for p, q in zip(pts, pts[1:] + pts[:1]))
                cx = sum((p[0] + q[0]) * (p[0] * q[1] - q[0] * p[1])
                         for p, q in zip(pts, pts[1:] + pts[:1])) / (3 * a2)
                cy = sum((p[1] + q[1]) * (p[0] * q[1] - q[0] * p[1])
                         for p, q in zip(pts, pts[1:] + pts[:1])) / (3 * a2)
                area = abs(a2) / 2
                cen = pre_apply(case, [cx, cy, F(0)])
                for nm, GG, ce in (("", G, cen), (" after the motion", G2, apply(R, t, cen))):
                    if not close(GG["vol"][c], area):
                        return (f"cell {c}{nm}: volume {GG['vol'][c]!r}, the polygon has area "
                                f"{float(area)!r} (shoelace)")
                    if not all(close(x, y) for x, y in zip(GG["cc"][c], ce)):
                        return (f"cell {c}{nm}: centre {GG['cc'][c]}, the polygon's centroid is "
                                f"{[float(x) for x in ce]}")
        return None

    # ------------------------------------------------------------------ Coq tie
    def _shape(self, res):
        dim = res["dim"]
        G, G2 = res["G"], res["G2"]
        ip, ix = res["fn_indptr"], res["fn_indices"]
        zi = lambda x: f"{int(x)}" if x >= 0 else f"({int(x)})"
        if dim == 1:
            cfi = res["cf_indices"]
            cells = [(cfi[2 * c], cfi[2 * c + 1]) for c in range(res["nc"])]
            first = {}
            for f, c, v in res["cf"]:
                first.setdefault(f, (c, v))
            fn = "(" + clist(ix, lambda i: f"zn {i}") + ")%Z"
            cl = "(" + clist(cells, lambda c: f"zpair {c[0]} {c[1]}") + ")%Z"
            fi = "(" + clist(range(res["nf"]),
                             lambda f: f"zfirst {first[f][0]} {zi(first[f][1])}") + ")%Z"

            def h(N):
                return (f"{{| u_nodes := {clist(N, qv)}; u_fn := {fn}; u_cells := {cl}; "
                        f"u_first := {fi} |}}")
            return f"(Shape1 {h(res['N'])} {h(res['N2'])})"
        if dim == 2:
            if G["fallback"] or G2["fallback"]:
                return "ShapeNone"
            assert all(ip[f + 1] - ip[f] == 2 for f in range(res["nf"]))
            faces = "(" + clist(range(res["nf"]),
                                lambda f: f"zpair {ix[ip[f]]} {ix[ip[f] + 1]}") + ")%Z"
            cf = "(" + clist(res["cf"], lambda e: f"zcf {e[0]} {e[1]} {zi(e[2])}") + ")%Z"

            def g(N):
                return (f"{{| t_nodes := {clist(N, qv)}; t_faces := {faces}; t_cf := {cf}; "
                        f"t_nc := zn {res['nc']}%Z |}}")
            # witness for the length of the unnormalised plane normal: the total area
            s, s2 = sum(G["vol"]), sum(G2["vol"])
            return f"(Shape2 {g(res['N'])} {g(res['N2'])} {qz(s)} {qz(s2)})"
        faces = "(" + clist(range(res["nf"]),
                            lambda f: clist(ix[ip[f]:ip[f + 1]], lambda i: f"zn {i}")) + ")%Z"
        return f"(Shape3 {faces})"

    def coq_case(self, case, res):
        R = rotation(case["quat"])
        t = [F(a, b) for a, b in case["shift"]]
        M = "(" + ",".join(qv(row) for row in R) + ")"
        return (f"agree {M} {qv(t)} {clist(res['N'], qv)} {clist(res['N2'], qv)} "
                f"{geom_term(res['G'])} {geom_term(res['G2'])} {self._shape(res)}")

    def nontrivial(self, case, res):
        q = case["quat"]
        return any(q[1:])

    def finding_key(self, case, res, why):
        return f"equivariance-dim{res['dim']}-" + why.split(" ")[0]

    def shrink(self, case, still_fails):
        cur = case
        for trial in ({"perturb": "none"}, {"swap_faces": []}, {"shift": [[0, 1]] * 3}):
            c = dict(cur, **trial)
            if c != cur and still_fails(c):
                cur = c
        if "dims" in cur:
            dims = list(cur["dims"])
            for d in range(len(dims)):
                while dims[d] > 1:
                    c = dict(cur, dims=dims[:d] + [dims[d] - 1] + dims[d + 1:])
                    if still_fails(c):
                        dims = c["dims"]
                        cur = c
                    else:
                        break
        return cur

    def extra_evidence(self):
        return {"input_distribution": dict(sorted(self.stats.items()))}


PROP = C20()
