"""C02 — operator-tree evaluation (AdParser) matches direct forward-mode evaluation."""
from fractions import Fraction

import numpy as np
import scipy.sparse as sps

from harness.core import Prop, cnat, clist, cbool, cz, coption

import porepy as pp
from porepy.numerics.ad.operators import Operations

OPS = {"add": "Add", "sub": "Sub", "mul": "Mul", "div": "Div", "pow": "Pow", "matmul": "Matmul",
       "rmul": "Rmul", "rdiv": "Rdiv", "rpow": "Rpow", "rmatmul": "Rmatmul"}
PYOP = {"add": lambda a, b: a + b, "sub": lambda a, b: a - b, "mul": lambda a, b: a * b,
        "div": lambda a, b: a / b, "pow": lambda a, b: a ** b, "matmul": lambda a, b: a @ b}
KNOWN_NDARRAY = "left-operand-is-numpy-array"

# --------------------------------------------------------------------------------------
# the equation system (built once; values are reset for every case)
# --------------------------------------------------------------------------------------
_ENVS = {}
NENV = 3
DOMSIZE = {"sd0": 4, "sd1": 2, "intf": 4, "bg0": 8, "bg1": 2}
#: positions of the values of the time-dependent array "src" in the case's src vectors: the SAME
#: name is stored on subdomains, the interface and the boundary grids
SRCPOS = {"sd0": list(range(0, 4)), "sd1": list(range(4, 6)), "intf": list(range(6, 10)),
          "bg0": list(range(10, 18)), "bg1": list(range(18, 20))}
NSRC = 20
NTS = 4          # stored time-step indices 0..3 and iterate indices 0..3


def env(v=0):
    """Equation systems on a fractured 2-d md-grid (matrix sd0: 4 cells, fracture sd1: 2 cells,
    interface: 4 cells), differing in the ORDER in which the variables are created."""
    if not _ENVS:
        for w in range(NENV):       # fixed creation order: grid ids are process-wide counters
            _make_env(w)
    return _ENVS[v]


def _make_env(v):
    if v not in _ENVS:
        mdg, _ = pp.mdg_library.square_with_orthogonal_fractures(
            "cartesian", {"cell_size": 0.5}, [1])
        es = pp.ad.EquationSystem(mdg)
        sds = mdg.subdomains()
        intfs = mdg.interfaces()
        if v == 0:      # md-grid order
            es.create_variables("x", subdomains=sds)
            es.create_variables("y", subdomains=sds)
            es.create_variables("lam", interfaces=intfs)
        elif v == 1:    # fracture before matrix, interface variable interleaved
            es.create_variables("x", subdomains=[sds[1]])
            es.create_variables("lam", interfaces=intfs)
            es.create_variables("y", subdomains=[sds[1], sds[0]])
            es.create_variables("x", subdomains=[sds[0]])
        else:           # interface first, names interleaved
            es.create_variables("lam", interfaces=intfs)
            es.create_variables("y", subdomains=[sds[0]])
            es.create_variables("x", subdomains=[sds[1], sds[0]])
            es.create_variables("y", subdomains=[sds[1]])
        bgs = {bg.parent.id: bg for bg in mdg.boundaries()}
        grids = {"sd0": sds[0], "sd1": sds[1], "intf": intfs[0],
                 "bg0": bgs[sds[0].id], "bg1": bgs[sds[1].id]}
        assert all(grids[k].num_cells == n for k, n in DOMSIZE.items())
        key_of = {id(g): k for k, g in grids.items()}
        atoms = {(var.name, key_of[id(var.domain)]): var for var in es.variables}
        assert len(atoms) == 5
        blocks = {k: [int(i) for i in es.dofs_of([var])] for k, var in atoms.items()}
        _ENVS[v] = dict(mdg=mdg, es=es, sds=sds, intfs=intfs, N=es.num_dofs(), grids=grids,
                        key_of=key_of, atoms=atoms, blocks=blocks)


#: vector-valued variable leaves by size: (name, list of domains); the list order is free
def var_menu(n):
    if n == 6:
        return [(nm, d) for nm in ("x", "y") for d in (["sd0", "sd1"], ["sd1", "sd0"])]
    if n == 4:
        return [("x", ["sd0"]), ("y", ["sd0"]), ("lam", ["intf"])]
    return [("x", ["sd1"]), ("y", ["sd1"])]


def q(x):
    return Fraction(x)


def cqc(x):
    fr = Fraction(x)
    return f"(Q2Qc ({fr.numerator} # {fr.denominator}))"


def cvec(v):
    return clist(v, cqc)


def cmat(m):
    return clist(m, cvec)


def cnl(l):
    return clist(l, cnat)


# --------------------------------------------------------------------------------------
# building the expression with the REAL classes and overloads
# --------------------------------------------------------------------------------------
class Builder:
    def __init__(self, case):
        E = env(case.get("env", 0))
        self.E = E
        #: arrays handed to porepy; they are overwritten before the evaluation (aliasing probe)
        self.handed = []
        #: Scalar objects shared between several places of the expression (by "sid")
        self.scalars = {}
        self.set_state(case["state"])
        #: log of previous_timestep / previous_iteration calls on composite operators
        self.shifts = []

    def data_of(self, key):
        E = self.E
        g = E["grids"][key]
        return (E["mdg"].subdomain_data(g) if key.startswith("sd") else
                E["mdg"].interface_data(g) if key == "intf" else E["mdg"].boundary_grid_data(g))

    def set_state(self, st):
        E = self.E
        es, mdg = E["es"], E["mdg"]
        for k in range(NTS):
            for key, kw in (("it%d" % k, {"iterate_index": k}), ("ts%d" % k, {"time_step_index": k})):
                arr = np.array(st[key], dtype=float)
                es.set_variable_values(arr, **kw)
                self.handed.append(arr)
        for key, pos in SRCPOS.items():
            d = self.data_of(key)
            pp.set_solution_values("src", np.array([st["src_it0"][p_] for p_ in pos], dtype=float), d,
                                   iterate_index=0)
            for k in range(NTS):
                pp.set_solution_values("src", np.array([st["src_ts%d" % k][p_] for p_ in pos],
                                                       dtype=float), d, time_step_index=k)

    def shifted(self, s, op, log):
        for key, ptime in (("t", True), ("i", False)):
            steps = s.get(key, 0)
            if not steps:
                continue
            inner = ser(op, self.E) if log else None
            try:
                op = (op.previous_timestep(steps=steps) if ptime
                      else op.previous_iteration(steps=steps))
            except ValueError:
                if log:
                    self.shifts.append([inner, ptime, steps, None])
                raise
            if log:
                self.shifts.append([inner, ptime, steps, ser(op, self.E)])
        return op

    def build(self, s):
        k = s["k"]
        E = self.E
        es = E["es"]
        if k == "var":
            doms = s["doms"]
            mode = s.get("mode", "md")
            if mode == "atomic":
                v = E["atoms"][(s["name"], doms[0])]
            elif mode == "list":       # md-variable from an explicitly ordered list
                v = pp.ad.MixedDimensionalVariable([E["atoms"][(s["name"], d)] for d in doms])
            else:
                v = es.md_variable(s["name"], [E["grids"][d] for d in doms])
            return self.shifted(s, v, False)
        if k == "tdda":
            a = pp.ad.TimeDependentDenseArray("src", [E["grids"][d] for d in s["doms"]])
            return self.shifted(s, a, False)
        if k == "scalar":
            if "sid" in s:      # one Scalar object per id (e.g. the time-step size), for set_value
                if s["sid"] not in self.scalars:
                    self.scalars[s["sid"]] = pp.ad.Scalar(self.number(s))
                return self.scalars[s["sid"]]
            return pp.ad.Scalar(self.number(s))
        if k == "dense":
            return pp.ad.DenseArray(self.array(s))
        if k == "sparse":
            return pp.ad.SparseArray(self.matrix(s))
        if k == "proj":
            return pp.ad.Projection(domain_indices=np.array(s["dom"], dtype=int),
                                    range_indices=np.array(s["rng"], dtype=int),
                                    domain_size=s["ds"], range_size=s["rs"])
        if k == "projlist":
            return pp.ad.ProjectionList([self.build(p) for p in s["ps"]])
        if k == "num":          # plain python number (raw operand)
            return self.number(s)
        if k == "arr":          # plain numpy array (raw operand)
            return self.array(s)
        if k == "spm":          # plain scipy matrix (raw operand)
            return self.matrix(s)
        if k == "bin":
            return PYOP[s["op"]](self.build(s["a"]), self.build(s["b"]))
        if k == "neg":
            return -self.build(s["a"])
        if k == "prev":         # previous_timestep / previous_iteration of a whole expression
            return self.shifted(s, self.build(s["a"]), True)
        if k == "rnode":        # a reverse-operation node as the overloads built before the repair
            a, b = self.build(s["a"]), self.build(s["b"])
            return pp.ad.Operator(children=[a, b], operation=Operations(s["op"]))
        raise ValueError(k)

    @staticmethod
    def number(s):
        v, ty = s["v"], s.get("ty", "py")
        if ty == "int" and float(v) == int(v):
            return int(v)
        if ty == "np":
            return np.float64(v)
        return v

    def array(self, s):
        dt = s.get("dtype", "float64")
        vals = s["v"]
        if dt.startswith("int") and not all(float(x) == int(x) for x in vals):
            dt = "float32"      # quarter values are exact in binary32 as well
        a = np.array(vals, dtype=dt)
        self.handed.append(a)
        return a

    def matrix(self, s):
        """scipy matrix in the requested storage format; csr/csc optionally with unsorted
        indices and explicitly stored zeros"""
        dense = np.array(s["m"], dtype=float)
        fmt = s.get("fmt", "csr_matrix")
        layout = s.get("layout")
        if layout and fmt[:3] in ("csr", "csc"):
            major = dense if fmt[:3] == "csr" else dense.T
            data, ind, ptr = [], [], [0]
            for r, row in enumerate(major):
                cols = [c for c in range(len(row)) if row[c] != 0
                        or (layout == "zeros" and (r + c) % 2 == 0)]
                if layout == "unsorted":
                    cols = cols[::-1]
                data += [row[c] for c in cols]
                ind += cols
                ptr.append(len(data))
            m = getattr(sps, fmt)((np.array(data, dtype=float), np.array(ind, dtype=int),
                                   np.array(ptr, dtype=int)), shape=dense.shape)
        else:
            m = getattr(sps, fmt)(dense)
        return m

    def clobber(self):
        """overwrite every array that was handed to porepy (those it made read-only refuse)"""
        for a in self.handed:
            try:
                a[...] = 977
            except ValueError:
                pass

    def sub_order(self, s):
        """(name, domain) of the sub-variables of the real (unshifted) variable of a var spec"""
        v = self.build({kk: vv for kk, vv in s.items() if kk not in ("t", "i")})
        subs = v.sub_vars if isinstance(v, pp.ad.MixedDimensionalVariable) else [v]
        return [(sv.name, self.E["key_of"][id(sv.domain)]) for sv in subs]


# --------------------------------------------------------------------------------------
# serialising the REAL operator tree
# --------------------------------------------------------------------------------------
def ser(op, E):
    A = pp.ad
    es = E["es"]
    if isinstance(op, A.Scalar):
        return ["scalar", q(op._value)]
    if isinstance(op, A.DenseArray):
        assert op._values.ndim == 1
        return ["dense", [q(x) for x in op._values]]
    if isinstance(op, A.SparseArray):
        m = op._mat.toarray()
        return ["sparse", int(m.shape[1]), [[q(x) for x in r] for r in m]]
    if isinstance(op, A.Projection):
        return ["proj", ser_slicer(op._slicer)]
    if isinstance(op, A.ProjectionList):
        return ["projlist", [ser_slicer(c._slicer) for c in op.children]]
    if isinstance(op, A.TimeDependentDenseArray):
        pos = [p for g in op.domains for p in SRCPOS[E["key_of"][id(g)]]]
        return ["tdda", pos, int(op._time_step_index)]
    if isinstance(op, A.Variable):
        subs = op.sub_vars if isinstance(op, A.MixedDimensionalVariable) else [op]
        # the dofs in the order of the sub-variables (what the parser walks for stored values)
        dofs = [int(i) for sv in subs for i in es.dofs_of([sv])]
        if not (op.is_previous_time or op.is_previous_iterate):
            # the current state is indexed with dofs_of([op])
            assert dofs == [int(i) for i in es.dofs_of([op])]
        return ["var", dofs, int(op._time_step_index), int(op._iterate_index)]
    if type(op) is A.Operator and len(op.children) == 2 and op.operation.value in OPS:
        return ["bin", op.operation.value, ser(op.children[0], E), ser(op.children[1], E)]
    raise ValueError(f"operator outside the modelled classes: {type(op).__name__} {op.operation}")


def ser_slicer(sl):
    return [[int(i) for i in sl.domain_indices], [int(i) for i in sl.range_indices],
            int(sl.range_size), int(sl.domain_size)]


def cslicer(s):
    return (f"{{| s_dom := {cnl(s[0])}; s_rng := {cnl(s[1])}; s_rsize := {cnat(s[2])}; "
            f"s_dsize := {cnat(s[3])} |}}")


def ctree(t):
    k = t[0]
    if k == "scalar":
        return f"(Leaf (LScalar {cqc(t[1])}))"
    if k == "dense":
        return f"(Leaf (LDense {cvec(t[1])}))"
    if k == "sparse":
        return f"(Leaf (LSparse {cnat(t[1])} {cmat(t[2])}))"
    if k == "proj":
        return f"(Leaf (LProj {cslicer(t[1])}))"
    if k == "projlist":
        return f"(Leaf (LProjList {clist(t[1], cslicer)}))"
    if k == "tdda":
        return f"(Leaf (LTdda {cnl(t[1])} {cz(t[2])}))"
    if k == "var":
        return f"(Leaf (LVar {cnl(t[1])} {cz(t[2])} {cz(t[3])}))"
    if k == "bin":
        return f"(Bin {OPS[t[1]]} {ctree(t[2])} {ctree(t[3])})"
    raise ValueError(k)


def jsonable(t):
    if isinstance(t, Fraction):
        return {"q": [t.numerator, t.denominator]}
    if isinstance(t, list):
        return [jsonable(x) for x in t]
    return t


def unjson(t):
    if isinstance(t, dict) and "q" in t:
        return Fraction(t["q"][0], t["q"][1])
    if isinstance(t, list):
        return [unjson(x) for x in t]
    return t


# --------------------------------------------------------------------------------------
# independent exact oracle: dual numbers over Fractions (mathematical semantics)
# --------------------------------------------------------------------------------------
class Unsupported(Exception):
    pass


class ExpectKeyError(Exception):
    pass


def s_eval(s, ctx, dt=0, di=0):
    """Exact evaluation of the SPEC (not of the tree the implementation built), with dual
    numbers over Fractions.  [dt], [di]: time / iterate steps accumulated from enclosing
    previous_timestep / previous_iteration calls: a shift of an expression shifts every
    time-dependent (iterative) leaf by that many more steps.
    -> ('num', q) | ('vec', vals, jac) | ('mat', rows, ncols) | ('sl', slicer) | ('sll', [..])"""
    N, st = ctx["N"], ctx["state"]
    k = s["k"]
    zero = lambda n: [[q(0)] * N for _ in range(n)]
    if k in ("scalar", "num"):
        if "sid" in s and s["sid"] in ctx.get("scal", {}):
            return ("num", q(ctx["scal"][s["sid"]]))     # the value given by Scalar.set_value
        return ("num", q(s["v"]))
    if k in ("dense", "arr"):
        return ("vec", [q(x) for x in s["v"]], zero(len(s["v"])))
    if k in ("sparse", "spm"):
        m = s["m"]
        return ("mat", [[q(x) for x in r] for r in m], len(m[0]))
    if k == "proj":
        return ("sl", [s["dom"], s["rng"], s["rs"], s["ds"]])
    if k == "projlist":
        return ("sll", [[p["dom"], p["rng"], p["rs"], p["ds"]] for p in s["ps"]])
    if k == "var":
        # dofs in the order of the sub-variables of the real md-variable (the order in which it
        # is evaluated at the current state), from the per-variable dof blocks
        dofs = [i for key in ctx["sub_order"](s) for i in ctx["blocks"][key]]
        t, i = s.get("t", 0) + dt, s.get("i", 0) + di
        assert not (t and i)
        if t or i:
            idx = (t or i) - 1
            if idx >= NTS:
                raise ExpectKeyError()
            src = st[("ts%d" if t else "it%d") % idx]
            return ("vec", [q(src[j]) for j in dofs], zero(len(dofs)))
        cur = ctx.get("cur") or st["it0"]     # the state being evaluated (explicit or iterate 0)
        return ("vec", [q(cur[j]) for j in dofs],
                [[q(1) if c == j else q(0) for c in range(N)] for j in dofs])
    if k == "tdda":
        pos = [p_ for d in s["doms"] for p_ in SRCPOS[d]]
        t = s.get("t", 0) + dt        # an iterate shift does not touch a time-dependent array
        if t - 1 >= NTS:
            raise ExpectKeyError()
        src = st["src_ts%d" % (t - 1)] if t else st["src_it0"]
        return ("vec", [q(src[j]) for j in pos], zero(len(pos)))
    if k == "prev":
        return s_eval(s["a"], ctx, dt + s.get("t", 0), di + s.get("i", 0))
    if k == "neg":
        return o_op("mul", ("num", q(-1)), s_eval(s["a"], ctx, dt, di), N)
    if k == "bin":
        return o_op(s["op"], s_eval(s["a"], ctx, dt, di), s_eval(s["b"], ctx, dt, di), N)
    raise Unsupported(k)


def o_slice(s, x, N):
    dom, rng, rs, ds = s
    if x[0] == "num":
        x = ("vec", [x[1]] * ds, [[q(0)] * N for _ in range(ds)])
    if x[0] == "vec":
        vals = [q(0)] * rs
        jac = [[q(0)] * N for _ in range(rs)]
        for d, r in zip(dom, rng):
            vals[r] = x[1][d]
            jac[r] = list(x[2][d])
        return ("vec", vals, jac)
    if x[0] == "mat":
        rows = [[q(0)] * x[2] for _ in range(rs)]
        for d, r in zip(dom, rng):
            rows[r] = list(x[1][d])
        return ("mat", rows, x[2])
    raise Unsupported("slicing " + x[0])


def o_op(op, a, b, N):
    ka, kb = a[0], b[0]
    if op == "matmul":
        if ka == "sl":
            return o_slice(a[1], b, N)
        if ka == "sll":
            parts = [o_slice(s, b, N) for s in a[1]]
            acc = parts[0]
            for p in parts[1:]:
                acc = o_op("add", acc, p, N)
            return acc
        if ka == "mat" and kb == "vec":
            if a[2] != len(b[1]):
                raise Unsupported("shape")
            vals = [sum(r[i] * b[1][i] for i in range(a[2])) for r in a[1]]
            jac = [[sum(r[i] * b[2][i][c] for i in range(a[2])) for c in range(N)] for r in a[1]]
            return ("vec", vals, jac)
        if ka == "mat" and kb == "mat":
            if a[2] != len(b[1]):
                raise Unsupported("shape")
            rows = [[sum(r[i] * b[1][i][c] for i in range(a[2])) for c in range(b[2])]
                    for r in a[1]]
            return ("mat", rows, b[2])
        raise Unsupported("matmul " + ka + kb)
    if ka == "mat" or kb == "mat":
        if ka == "mat" and kb == "mat" and op in ("add", "sub"):
            sg = 1 if op == "add" else -1
            return ("mat", [[x + sg * y for x, y in zip(r, s)] for r, s in zip(a[1], b[1])], a[2])
        if op == "mul" and "num" in (ka, kb):
            m, c = (a, b[1]) if ka == "mat" else (b, a[1])
            return ("mat", [[x * c for x in r] for r in m[1]], m[2])
        if op == "div" and ka == "mat" and kb == "num":
            return ("mat", [[x / b[1] for x in r] for r in a[1]], a[2])
        raise Unsupported(op + ka + kb)
    if ka not in ("num", "vec") or kb not in ("num", "vec"):
        raise Unsupported(op + ka + kb)
    if ka == "num" and kb == "num":
        x, y = a[1], b[1]
        if op == "add":
            return ("num", x + y)
        if op == "sub":
            return ("num", x - y)
        if op == "mul":
            return ("num", x * y)
        if op == "div":
            return ("num", x / y)
        if op == "pow" and y.denominator == 1:
            return ("num", x ** int(y))
        raise Unsupported(op)
    n = len(a[1]) if ka == "vec" else len(b[1])

    def lift(v):
        if v[0] == "num":
            return [v[1]] * n, [[q(0)] * N for _ in range(n)]
        return v[1], v[2]

    if op == "pow":
        if kb != "num" or b[1].denominator != 1:
            raise Unsupported("pow")
        e = int(b[1])
        av, aj = lift(a)
        return ("vec", [x ** e for x in av],
                [[e * x ** (e - 1) * d for d in row] for x, row in zip(av, aj)])
    (av, aj), (bv, bj) = lift(a), lift(b)
    if len(av) != len(bv):
        raise Unsupported("length")
    if op == "add":
        return ("vec", [x + y for x, y in zip(av, bv)],
                [[d + e for d, e in zip(r, s)] for r, s in zip(aj, bj)])
    if op == "sub":
        return ("vec", [x - y for x, y in zip(av, bv)],
                [[d - e for d, e in zip(r, s)] for r, s in zip(aj, bj)])
    if op == "mul":
        return ("vec", [x * y for x, y in zip(av, bv)],
                [[y * d + x * e for d, e in zip(r, s)] for x, y, r, s in zip(av, bv, aj, bj)])
    if op == "div":
        return ("vec", [x / y for x, y in zip(av, bv)],
                [[(d * y - x * e) / (y * y) for d, e in zip(r, s)]
                 for x, y, r, s in zip(av, bv, aj, bj)])
    raise Unsupported(op)


# --------------------------------------------------------------------------------------
# second oracle: the same expression directly on real AdArrays (where python's own
# evaluation is well defined, i.e. no numpy array directly to the left of an AdArray)
# --------------------------------------------------------------------------------------
def d_eval(t, ad_state, st=None):
    k = t[0]
    if k == "scalar":
        return float(t[1])
    if k == "dense":
        return np.array([float(x) for x in t[1]])
    if k == "tdda":
        src = st["src_ts%d" % t[2]] if t[2] >= 0 else st["src_it0"]
        return np.array([float(src[j]) for j in t[1]])
    if k == "var":
        if t[2] >= 0 or t[3] >= 0:
            src = st["ts%d" % t[2]] if t[2] >= 0 else st["it%d" % t[3]]
            return np.array([float(src[j]) for j in t[1]])
        return ad_state[np.array(t[1], dtype=int)]
    if k == "sparse":
        return sps.csr_matrix(np.array([[float(x) for x in r] for r in t[2]]).reshape(
            len(t[2]), t[1]))
    if k == "proj":
        s = t[1]
        return pp.matrix_operations.ArraySlicer(np.array(s[0], dtype=int), np.array(s[1], dtype=int),
                                                range_size=s[2], domain_size=s[3])
    if k == "projlist":
        return [d_eval(["proj", s], ad_state) for s in t[1]]
    op = t[1]
    a, b = d_eval(t[2], ad_state, st), d_eval(t[3], ad_state, st)
    if op.startswith("r"):
        op, a, b = op[1:], b, a
    if a is None or b is None:
        return None
    if isinstance(a, np.ndarray) and isinstance(b, pp.ad.AdArray):
        return None
    if isinstance(a, list):
        return sum(s @ b for s in a) if op == "matmul" else None
    return PYOP[op](a, b)


# --------------------------------------------------------------------------------------
# generator (type directed: every generated expression is shape-consistent)
# --------------------------------------------------------------------------------------
VALS = [Fraction(n, 4) for n in (-8, -6, -4, -3, -2, -1, 1, 2, 3, 4, 6, 8, 12)]


def rvals(rng, n, positive=False):
    out = [float(rng.choice(VALS)) for _ in range(n)]
    return [abs(x) for x in out] if positive else out


SPFMT = ["csr_matrix", "csr_matrix", "csc_matrix", "coo_matrix", "csr_array", "csc_array",
         "coo_array", "dia_matrix", "bsr_matrix"]


def gen_num(rng):
    return rng.choice([2, 0.5, -1, 3, 1.5, -2, 0.25])


def decorate(rng, s):
    """storage type of numbers and arrays handed to porepy (values unchanged)"""
    if s["k"] in ("num", "scalar"):
        s["ty"] = rng.choice(["py", "py", "int", "np"])
    elif s["k"] in ("dense", "arr"):
        s["dtype"] = rng.choice(["float64", "float64", "float32", "int64", "int32"])
        if s["dtype"].startswith("int"):
            s["v"] = [x * 4 for x in s["v"]]      # quarter values -> non-zero integers
    for f in ("a", "b"):
        if isinstance(s.get(f), dict):
            decorate(rng, s[f])
    return s


def gen_shift(rng, s, mode, budget, is_var):
    """give a time-dependent leaf a shift compatible with the enclosing shifts"""
    if budget < 1:
        return s
    r = rng.random()
    steps = rng.randint(1, min(2, budget))
    if mode == "any":
        if r < 0.3:
            s["t"] = steps
        elif r < 0.6 and is_var:
            s["i"] = steps
    elif mode == "time" or not is_var:
        if r < 0.55:
            s["t"] = steps
    elif r < 0.55:
        s["i"] = steps
    return s


def gen_var(rng, n, mode="any", budget=4):
    name, doms = rng.choice(var_menu(n))
    s = {"k": "var", "name": name, "doms": list(doms)}
    r = rng.random()
    if len(doms) == 1 and name != "lam" and r < 0.4:
        s["mode"] = "atomic"
    elif r < 0.75 and name != "lam":
        s["mode"] = "list"       # explicitly ordered (possibly permuted) sub-variable list
    return gen_shift(rng, s, mode, budget, True)


def gen_tdda(rng, n, mode="any", budget=4):
    doms = {6: rng.choice([["sd0", "sd1"], ["sd1", "sd0"]]), 4: rng.choice([["sd0"], ["intf"]]),
            2: rng.choice([["sd1"], ["bg1"]]), 8: ["bg0"], 10: rng.choice([["bg0", "bg1"], ["bg1", "bg0"]])}[n]
    return gen_shift(rng, {"k": "tdda", "doms": doms}, mode, budget, False)


def gen_leaf_vec(rng, n, allow_raw, mode="any", budget=4):
    r = rng.random()
    if r < 0.55:
        return gen_var(rng, n, mode, budget)
    if r < 0.68:
        return gen_tdda(rng, n, mode, budget)
    if r < 0.9 or not allow_raw:
        return {"k": "dense", "v": rvals(rng, n)}
    return {"k": "arr", "v": rvals(rng, n)}


def gen_scal(rng, depth, safe=True):
    """scalar-valued expression over shared Scalar objects (sid 0: 'dt', sid 1: 'theta') and
    plain numbers, e.g. theta / dt, 1 / dt, 2.0 * dt; [safe]: usable as a denominator"""
    if depth == 0 or rng.random() < 0.3:
        sid = rng.randrange(2)
        return {"k": "scalar", "v": [0.5, 0.75][sid], "sid": sid}
    op = rng.choice(["mul", "div"] if safe else ["mul", "div", "add", "sub"])
    a = gen_scal(rng, depth - 1, safe)
    r = rng.random()
    if r < 0.35:
        b = {"k": "num", "v": gen_num(rng)}
    else:
        b = gen_scal(rng, depth - 1, True if op == "div" else safe)
    if r >= 0.35 and rng.random() < 0.35:
        a = {"k": "num", "v": gen_num(rng)}      # number on the left: 1 / dt, 2.0 * dt
    return {"k": "bin", "op": op, "a": a, "b": b}


def gen_mat(rng, rows, cols, raw_ok):
    m = [[float(rng.choice(VALS)) if rng.random() < 0.5 else 0.0 for _ in range(cols)]
         for _ in range(rows)]
    s = {"k": "spm" if (raw_ok and rng.random() < 0.3) else "sparse", "m": m,
         "fmt": rng.choice(SPFMT)}
    if s["fmt"][:3] in ("csr", "csc") and rng.random() < 0.4:
        s["layout"] = rng.choice(["unsorted", "zeros"])
    return s


def gen_proj(rng, n_from, n_to):
    k = rng.randint(1, min(n_from, n_to))
    return {"k": "proj", "dom": sorted(rng.sample(range(n_from), k)),
            "rng": rng.sample(range(n_to), k), "ds": n_from, "rs": n_to}


def is_raw(s):
    return s["k"] in ("num", "arr", "spm")


def gen_vec(rng, n, depth, mode="any", budget=4):
    """expression evaluating to a vector of length n; [mode]/[budget]: kind and number of steps
    of shifts that leaves may still take (inside previous_timestep / previous_iteration of a
    composite expression only shifts of the same kind are legal)"""
    if depth >= 1 and budget >= 1 and rng.random() < 0.14:
        kind = rng.choice(["time", "iter"]) if mode == "any" else mode
        steps = rng.randint(1, min(2, budget))
        child = gen_vec(rng, n, depth - 1, kind, budget - steps)
        return {"k": "prev", ("t" if kind == "time" else "i"): steps, "a": child}
    if depth == 0 or rng.random() < 0.2:
        return gen_leaf_vec(rng, n, False, mode, budget)
    r = rng.random()
    sub = lambda: gen_vec(rng, n, depth - 1, mode, budget)
    if r < 0.36:
        op = rng.choice(["add", "sub", "mul"])
        a, b = sub(), sub()
        if rng.random() < 0.15:     # plain numpy array as the left or right operand
            if rng.random() < 0.6:
                a = {"k": "arr", "v": rvals(rng, n)}
            else:
                b = {"k": "arr", "v": rvals(rng, n)}
        return {"k": "bin", "op": op, "a": a, "b": b}
    if r < 0.52:                     # scalar (wrapped or plain number) on either side
        op = rng.choice(["add", "sub", "mul"])
        num = ({"k": "num", "v": gen_num(rng)} if rng.random() < 0.6
               else {"k": "scalar", "v": gen_num(rng)})
        return ({"k": "bin", "op": op, "a": num, "b": sub()} if rng.random() < 0.6
                else {"k": "bin", "op": op, "a": sub(), "b": num})
    if r < 0.66:                     # division; denominators are non-zero leaves or numbers
        den = rng.random()
        if den < 0.4:
            num = ({"k": "num", "v": gen_num(rng)} if rng.random() < 0.5
                   else {"k": "scalar", "v": gen_num(rng)})
            return {"k": "bin", "op": "div", "a": sub(), "b": num}
        leaf = gen_leaf_vec(rng, n, False, mode, budget)
        top = rng.random()
        if top < 0.35:
            a = {"k": "num", "v": gen_num(rng)}
        elif top < 0.5:
            a = {"k": "arr", "v": rvals(rng, n)}
        elif top < 0.6:
            a = {"k": "scalar", "v": gen_num(rng)}
        else:
            a = sub()
        return {"k": "bin", "op": "div", "a": a, "b": leaf}
    if r < 0.76:                     # integer powers
        e = rng.choice([2, 2, 3, 1])
        base = sub()
        if rng.random() < 0.3:   # exponents < 1 only on (non-zero) leaves: no division by zero
            e, base = rng.choice([-1, -2, 0]), gen_leaf_vec(rng, n, False, mode, budget)
        ex = {"k": "num", "v": e} if rng.random() < 0.6 else {"k": "scalar", "v": e}
        return {"k": "bin", "op": "pow", "a": base, "b": ex}
    if r < 0.88:                     # matrix @ vector
        m = rng.choice([2, 4, 6])
        mat = gen_mat(rng, n, m, True)
        if rng.random() < 0.2 and mat["k"] == "sparse":
            mat = {"k": "bin", "op": "mul", "a": {"k": "num", "v": gen_num(rng)}, "b": mat}
        elif rng.random() < 0.15 and mat["k"] == "sparse":
            mat = {"k": "bin", "op": rng.choice(["add", "sub"]), "a": mat,
                   "b": gen_mat(rng, n, m, False)}
        elif rng.random() < 0.15 and mat["k"] == "sparse":
            mid = rng.choice([2, 3])
            mat = {"k": "bin", "op": "matmul", "a": gen_mat(rng, n, mid, False),
                   "b": gen_mat(rng, mid, m, False)}
        return {"k": "bin", "op": "matmul", "a": mat, "b": gen_vec(rng, m, depth - 1, mode, budget)}
    if r < 0.96:                     # projection @ vector / scalar broadcast
        m = rng.choice([2, 4, 6])
        if rng.random() < 0.3:
            P = {"k": "projlist", "ps": [gen_proj(rng, m, n) for _ in range(rng.randint(1, 3))]}
        else:
            P = gen_proj(rng, m, n)
        x = gen_vec(rng, m, depth - 1, mode, budget) if rng.random() < 0.85 else {"k": "scalar", "v": gen_num(rng)}
        return {"k": "bin", "op": "matmul", "a": P, "b": x}
    return {"k": "neg", "a": sub()}


def fix_raw(s):
    """a python expression needs at least one Operator operand per operation"""
    if s["k"] == "bin":
        s["a"], s["b"] = fix_raw(s["a"]), fix_raw(s["b"])
        if is_raw(s["a"]) and is_raw(s["b"]):
            b = s["b"]
            s["b"] = ({"k": "scalar", "v": b["v"]} if b["k"] == "num" else
                      {"k": "dense", "v": b["v"]} if b["k"] == "arr" else {"k": "sparse", "m": b["m"]})
    elif s["k"] in ("neg", "prev"):
        s["a"] = fix_raw(s["a"])
        if is_raw(s["a"]):
            a = s["a"]
            s["a"] = ({"k": "scalar", "v": a["v"]} if a["k"] == "num" else {"k": "dense", "v": a["v"]})
    return s


def has_ndarray_left(s):
    if s["k"] == "bin":
        return s["a"]["k"] == "arr" or has_ndarray_left(s["a"]) or has_ndarray_left(s["b"])
    if s["k"] in ("neg", "prev"):
        return has_ndarray_left(s["a"])
    return False


def has_raw_left(s):
    if s["k"] == "bin":
        return is_raw(s["a"]) or has_raw_left(s["a"]) or has_raw_left(s["b"])
    if s["k"] in ("neg", "prev"):
        return has_raw_left(s["a"])
    return False


POOL = [sg * Fraction(16 + k, 32) for k in range(125) for sg in (1, -1)]


def gen_state(rng, N):
    """DISTINCT non-zero values for every dof and every stored index, so that a value read
    from the wrong dof or the wrong time step / iterate is visible"""
    keys = ([("it%d" % k, N) for k in range(NTS)] + [("ts%d" % k, N) for k in range(NTS)]
            + [("src_it0", NSRC)] + [("src_ts%d" % k, NSRC) for k in range(NTS)])
    vals = rng.sample(POOL, sum(n for _, n in keys))
    st, off = {}, 0
    for key, n in keys:
        st[key] = [float(x) for x in vals[off:off + n]]
        off += n
    return st


def has_prev(s):
    return s["k"] == "prev" or any(has_prev(c) for c in (s.get("a"), s.get("b"))
                                   if isinstance(c, dict))


def coinciding(op):
    """number of pairs of same-named time-dependent arrays on different kinds of domain with a
    common grid id, in one operator tree"""
    arrs = []

    def walk(o):
        if isinstance(o, pp.ad.TimeDependentDenseArray):
            arrs.append(o)
        for c in o.children:
            walk(c)

    walk(op)
    n = 0
    for i, a in enumerate(arrs):
        for b in arrs[i + 1:]:
            if a.name == b.name and a.domain_type != b.domain_type and \
                    {d.id for d in a.domains} & {d.id for d in b.domains}:
                n += 1
    return n


def tnodes(t):
    return 1 + tnodes(t[2]) + tnodes(t[3]) if t[0] == "bin" else 1


def tcensus(t, out):
    if t[0] == "bin":
        out["op:" + t[1]] = out.get("op:" + t[1], 0) + 1
        for c in (t[2], t[3]):
            tcensus(c, out)
        # operand kinds seen by the node (value-level dispatch is in the Coq model)
        key = "node:%s(%s,%s)" % (t[1], t[2][0], t[3][0])
        out[key] = out.get(key, 0) + 1
    else:
        out["leaf:" + t[0]] = out.get("leaf:" + t[0], 0) + 1


class C02(Prop):
    id = "C02"
    props_file = "Props/C02.v"
    preamble = ("From Coq Require Import List ZArith QArith Qcanon Bool.\nImport ListNotations.\n"
                "From PP Require Import Model.C02.\n")
    n_cases = (220, 5000)
    design_ref = "DESIGN.md §5 C02, §6, §6.1, Appendix B (AdParser._evaluate_single, AdArray)"
    level_text = (
        "Coq theorems over an executable transcription (canonical rationals) of AdParser.evaluate / "
        "_evaluate_single, of the AdArray methods it dispatches to, of ArraySlicer application and of "
        "the repaired arithmetic overloads of Operator: for EVERY tree without reverse-operation nodes "
        "and every environment, with and without derivative, the parser's result - value, Jacobian or "
        "error - equals the direct forward-mode semantics, i.e. the operand flips for numpy-array-left "
        "add/sub (with negation), the swap for mul and the redirections to __rtruediv__/__rpow__/"
        "__rmatmul__ are sound (C02_refines); such trees never hit 'Encountered unknown operation' "
        "(C02_total_partial); every expression x op y built by the repaired overloads from Operators, "
        "numbers, numpy arrays or scipy matrices on either side is such a tree "
        "(C02_overloads_build_parseable_trees); reverse-operation nodes are always rejected by the "
        "parser (C02_reverse_nodes_rejected), which refutes the refinement for the overloads before "
        "the repair (C02_reverse_nodes_refuted, witness 2*x); variables at a previous time step / "
        "iterate evaluate to the values stored at that index taken at their dofs in the order of "
        "their sub-variables, with zero derivative (C02_prev_no_derivative); previous_timestep / "
        "previous_iteration of whole trees (transcription of _get_previous_time_or_iterate) compose "
        "additively, also over leaves that are shifted already (C02_shift_composes), and a time shift "
        "by s makes every previous-time leaf read exactly s stored steps further back "
        "(C02_shift_time_semantics); the evaluation without derivative of any such tree yields "
        "exactly the result with derivative stripped of its Jacobian, although the parser then "
        "flips operands at other nodes (C02_value_agrees). PARTIAL: full totality (no ValueError on "
        "well-kinded, shape-consistent trees) is not a theorem; it is checked per generated case by "
        "the correspondence and by the oracle. The model is tied to the code on every run: expressions "
        "are built with the real classes through the real overloads, the real Operator tree is "
        "serialised, EquationSystem.evaluate is run with and without derivative, and Coq recomputes "
        "the model on the same tree/state and compares value and dense Jacobian (and checks "
        "parse = direct by computation on each case).")
    level_note = (
        "Direct semantics: python's own evaluation of a op b on forward-mode arrays wherever it is "
        "well defined (AdArray / number / scipy matrix on the left: the transcribed AdArray methods), "
        "the dual-number formula where a numpy array is directly left of an AdArray. Correctness of "
        "the AdArray rules themselves is C01's subject. Rational fragment only: + - * /, integer "
        "powers given as numbers, sparse @, Projection / ProjectionList @; wrapped functions "
        "(pp.ad.Function, evaluate nodes), array/AdArray exponents, 2-d dense arrays, numpy "
        "broadcasting of unequal lengths, the parser's per-evaluation cache, IEEE rounding and "
        "division by zero (inf/nan) are NOT modelled or proved. Python's choice between __op__ and "
        "__rop__ is observed (the real tree is serialised), the model of the overloads assumes it. "
        "Trusted: Coq kernel + vm_compute, harness, serialiser, tolerance 1e-9 relative. The "
        "theorems are about the model; the implementation is covered on the generated cases only.")
    technique = ("Coq proof (node-wise refinement of the parser's dispatch against direct dual-number "
                 "semantics over canonical rationals, induction over operator trees) + vm_compute "
                 "execution correspondence through EquationSystem.evaluate")
    rule = ("random shape-consistent operator expressions (depth <=3 quick / <=4 thorough) over md-"
            "variables and atomic variables on a fractured 2-d md-grid (2-d grid, fracture, interface; "
            "10 dofs), shifted to previous time steps / iterates, time-dependent arrays, Scalars, "
            "DenseArrays, SparseArrays, Projections and ProjectionLists, combined with + - * / integer "
            "** and @ THROUGH THE REAL OVERLOADS, with plain numbers, numpy arrays and scipy matrices "
            "as left or right operands; rational (quarter-integer) states, non-zero denominators; plus "
            "hand-built reverse-operation nodes (unknown-operation branch); three equation systems "
            "whose variables are created in different grid orders (md-grid order; fracture before "
            "matrix with the interface variable interleaved; interface first), md-variables from "
            "es.md_variable and from explicitly permuted sub-variable lists, atomic variables, at the "
            "current state and at time-step / iterate indices 0..3 with DISTINCT stored values per dof "
            "and per index; previous_timestep / previous_iteration applied to composite expressions "
            "that already contain shifted leaves (nested twice, mixed with time-dependent arrays), "
            "each such call checked against the model's shift_tree on the serialised operators; "
            "KeyError beyond the stored indices and refused time/iterate mixes; bare shifted leaves; "
            "several time-dependent arrays with the SAME name on subdomains, the interface and boundary "
            "grids whose grid ids coincide, in one tree (also shifted / under previous_timestep); "
            "40% of the cases evaluated with an explicit state= vector that differs from the stored "
            "iterate at every dof (shifted leaves, incl. previous_iteration steps 1 and 2, must still "
            "read the stores); HISTORIES: build - evaluate - change shared Scalar objects with set_value (theta/dt, "
            "1/dt, 2.0*dt patterns) and store new values for all variables and arrays - evaluate the "
            "already built operator again (tree re-serialised, oracle on the spec with the current "
            "scalar values); "
            "sparse operands in csr/csc/coo/dia/bsr storage, matrix and array flavours, csr/csc also "
            "with unsorted indices and explicitly stored zeros; dense operands as float64/float32/"
            "int64/int32, numbers as python float/int and numpy float64; exact power-of-two scalings "
            "2^-10..2^10 of all stored values (shallow streams); aliasing probes: every array handed "
            "to porepy is overwritten before the evaluation, every array an evaluation returned is "
            "overwritten before the evaluation is repeated; evaluated by "
            "EquationSystem.evaluate with and without derivative; non-trivial = at least one operation")
    trusted = ["the serialiser of the real Operator tree (operation, children, leaf data: dofs of a "
               "variable = dofs_of of its sub-variables in their order, private time/iterate indices)",
               "the oracle evaluates the generated SPEC (not the tree the implementation built) with "
               "exact dual numbers; per-variable dof blocks are taken from dofs_of of the atomic "
               "variables (C05's subject)",
               "comparison tolerance 1e-9*(1+|x|) between binary64 results and exact rationals on "
               "quarter-integer data of depth <= 4",
               "scipy/numpy arithmetic on plain operands modelled as exact linear algebra"]
    assumptions = ["operands are shape-consistent (numpy broadcasting of length-1 arrays and shape "
                   "errors are outside the model)", "no division by zero / non-finite values",
                   "exponents are integers given as numbers (array or AdArray exponents need "
                   "logarithms: outside the rational fragment)",
                   "numpy scalar types other than float64 (np.int64, np.float32) as plain operands are "
                   "rejected by Operator._parse_other ('Cannot parse ... as an AD operator'); not "
                   "generated"]

    _stats = {"kinds": {}, "census": {}, "direct_adarray_checked": 0, "results": {}, "envs": {},
              "shift_calls_on_composites": 0, "permuted_md_leaves": 0,
              "coinciding_id_array_pairs": 0}

    # ---------------------------------------------------------------------------------
    def generate(self, rng, n, tier):
        for case in self._generate(rng, n, tier):
            decorate(rng, case["expr"])
            if rng.random() < 0.4 and case["kind"] not in ("key-error", "shift-conflict"):
                # EquationSystem.evaluate(op, state=...) with an explicit state that differs
                # from the stored iterate at every dof; shifted leaves still read the stores
                it0 = case["state"]["it0"]
                xs = [float(x) for x in rng.sample(POOL, len(it0))]
                case["xstate"] = [x if x != y else x + 0.25 for x, y in zip(xs, it0)]
            if case["kind"] in ("md-order", "shift-of-composite") and rng.random() < 0.5:
                # exact power-of-two scaling of every stored value, tiny to huge
                k = rng.randint(-10, 10)
                case["state"] = {key: [x * 2.0 ** k for x in v] for key, v in case["state"].items()}
                case["scale_exp"] = k
            yield case

    def _generate(self, rng, n, tier):
        depth = 3 if tier == "quick" else 4
        N = env(0)["N"]
        for c in range(n):
            st = gen_state(rng, N)
            ev = rng.randrange(NENV)
            base = {"state": st, "env": ev}
            r = rng.random()
            if r < 0.02:
                # a reverse-operation node, as the overloads built them before the repair
                op = rng.choice(["rmul", "rdiv", "rpow", "rmatmul"])
                size = rng.choice([2, 4, 6])
                expr = {"k": "rnode", "op": op, "a": gen_leaf_vec(rng, size, False),
                        "b": {"k": "scalar", "v": gen_num(rng)}}
                if rng.random() < 0.5:
                    expr = {"k": "bin", "op": "add", "a": expr, "b": gen_vec(rng, size, 1)}
                yield dict(base, kind="legacy-reverse-node", expr=fix_raw(expr))
                continue
            if r < 0.06:
                # a matrix-valued or scalar-valued expression
                if rng.random() < 0.5:
                    expr = {"k": "bin", "op": "mul", "a": {"k": "num", "v": gen_num(rng)},
                            "b": gen_mat(rng, 2, 3, False)}
                    kind = "matrix-valued"
                else:
                    expr = {"k": "bin", "op": rng.choice(["add", "mul", "sub", "div"]),
                            "a": {"k": "num", "v": gen_num(rng)}, "b": {"k": "scalar", "v": gen_num(rng)}}
                    kind = "scalar-valued"
                yield dict(base, kind=kind, expr=expr)
                continue
            if r < 0.18:
                # md-variables whose sub-variable order differs from the global dof order,
                # at the current state and at previous time steps / iterates
                name = rng.choice(["x", "y"])
                doms = rng.choice([["sd1", "sd0"], ["sd0", "sd1"], ["sd1", "sd0"]])
                L = {"k": "var", "name": name, "doms": doms, "mode": rng.choice(["list", "list", "md"])}
                key = rng.choice(["t", "i"])
                a = dict(L, **{key: rng.randint(1, 3)})
                b = dict(L) if rng.random() < 0.5 else dict(L, **{key: rng.randint(1, 3)})
                expr = {"k": "bin", "op": rng.choice(["sub", "mul", "add", "div"]), "a": a, "b": b}
                if rng.random() < 0.3:
                    expr = {"k": "bin", "op": "matmul", "a": gen_proj(rng, 6, rng.choice([2, 4, 6])),
                            "b": expr}
                if rng.random() < 0.3 and key == "t":
                    expr = {"k": "prev", "t": 1, "a": expr}
                yield dict(base, kind="md-order", expr=expr, env=rng.choice([1, 2, ev]))
                continue
            if r < 0.34:
                # previous_timestep / previous_iteration of a composite expression that already
                # contains shifted leaves: (X - X.previous(k)).previous(s), possibly twice
                size = rng.choice([2, 4, 6])
                key = rng.choice(["t", "t", "i"])
                X = gen_var(rng, size, "none", 0) if rng.random() < 0.75 or key == "i" \
                    else gen_tdda(rng, size, "none", 0)
                k1 = rng.randint(1, 2)
                inner = {"k": "bin", "op": rng.choice(["sub", "sub", "mul", "add"]),
                         "a": dict(X), "b": dict(X, **{key: k1})}
                if rng.random() < 0.4:
                    other = gen_vec(rng, size, 1, "time" if key == "t" else "iter", 1)
                    inner = {"k": "bin", "op": rng.choice(["add", "mul", "sub"]), "a": inner, "b": other}
                expr = {"k": "prev", key: 1, "a": inner}
                if rng.random() < 0.35:
                    expr = {"k": "prev", key: 1, "a": {"k": "bin", "op": "mul",
                                                       "a": {"k": "num", "v": gen_num(rng)}, "b": expr}}
                if rng.random() < 0.3:
                    expr = {"k": "bin", "op": "sub", "a": gen_var(rng, size, "none", 0), "b": expr}
                yield dict(base, kind="shift-of-composite", expr=fix_raw(expr))
                continue
            if r < 0.36:
                # nothing stored that far back: KeyError
                size = rng.choice([2, 4, 6])
                X = gen_var(rng, size, "none", 0)
                key = rng.choice(["t", "i"])
                expr = {"k": "bin", "op": "add", "a": dict(X), "b": {"k": "prev", key: 3,
                        "a": {"k": "bin", "op": "mul", "a": dict(X, **{key: 2}), "b": {"k": "scalar", "v": 2}}}}
                yield dict(base, kind="key-error", expr=expr)
                continue
            if r < 0.38:
                # a time shift of an expression holding a variable at a previous iterate (or the
                # other way round) is refused by porepy
                size = rng.choice([2, 4, 6])
                X = gen_var(rng, size, "none", 0)
                k1, k2 = rng.choice([("t", "i"), ("i", "t")])
                expr = {"k": "prev", k1: 1, "a": {"k": "bin", "op": "add", "a": dict(X),
                                                   "b": dict(X, **{k2: 1})}}
                yield dict(base, kind="shift-conflict", expr=expr)
                continue
            if r < 0.50:
                # several time-dependent arrays with the SAME name on different kinds of domain
                # whose grid ids coincide (subdomain k / boundary grid k / interface k)
                if rng.random() < 0.6:
                    size, doms = 2, [["sd1"], ["bg1"]]
                else:
                    size, doms, ev = 4, [["sd0"], ["intf"]], 0
                rng.shuffle(doms)
                A = {"k": "tdda", "doms": doms[0]}
                B = {"k": "tdda", "doms": doms[1]}
                for X in (A, B):
                    if rng.random() < 0.4:
                        X["t"] = rng.randint(1, 2)
                expr = {"k": "bin", "op": rng.choice(["sub", "add", "mul", "div"]), "a": A, "b": B}
                rr = rng.random()
                if rr < 0.3:
                    expr = {"k": "bin", "op": "mul", "a": gen_var(rng, size), "b": expr}
                elif rr < 0.5:      # the boundary array of the matrix grid, through a projection
                    expr = {"k": "bin", "op": "add", "a": expr,
                            "b": {"k": "bin", "op": "matmul", "a": gen_proj(rng, 8, size),
                                  "b": {"k": "tdda", "doms": ["bg0"]}}}
                elif rr < 0.65:
                    expr = {"k": "prev", "t": 1, "a": expr}
                yield dict(base, kind="same-name-arrays", expr=expr, env=ev)
                continue
            if r < 0.62:
                # HISTORY: build the expression, evaluate, change Scalar values in place
                # (set_value) and store new values for variables / arrays, evaluate again
                size = rng.choice([2, 4, 6])
                V = gen_vec(rng, size, rng.randint(0, 2))
                S = gen_scal(rng, rng.randint(1, 2), True)
                pat = rng.random()
                if pat < 0.35:      # (theta / dt) * (x - x_prev)
                    X = gen_var(rng, size, "none", 0)
                    expr = {"k": "bin", "op": "mul", "a": S,
                            "b": {"k": "bin", "op": "sub", "a": dict(X), "b": dict(X, t=1)}}
                elif pat < 0.55:    # x * x / (2.0 * dt)
                    X = gen_var(rng, size, "none", 0)
                    expr = {"k": "bin", "op": "div",
                            "a": {"k": "bin", "op": "mul", "a": dict(X), "b": dict(X)}, "b": S}
                elif pat < 0.8:
                    expr = {"k": "bin", "op": rng.choice(["mul", "add", "sub"]), "a": S, "b": V}
                else:
                    expr = {"k": "bin", "op": rng.choice(["mul", "div", "add", "sub"]), "a": V,
                            "b": gen_scal(rng, rng.randint(1, 2), True)}
                hist = {"scalars": {"0": rng.choice([0.25, 1.5, 2.0, 0.125]),
                                    "1": rng.choice([1.0, 0.25, -0.5])},
                        "state": gen_state(rng, N)}
                yield dict(base, kind="history", expr=fix_raw(expr), history=hist)
                continue
            if r < 0.66:
                # a bare (shifted) leaf: the result is what the leaf's parse returns
                size = rng.choice([2, 4, 6])
                leaf = gen_var(rng, size) if rng.random() < 0.7 else gen_tdda(rng, size)
                yield dict(base, kind="bare-leaf", expr=leaf)
                continue
            size = rng.choice([2, 4, 6, 6])
            expr = fix_raw(gen_vec(rng, size, rng.randint(1, depth)))
            if is_raw(expr) or expr["k"] not in ("bin", "neg", "prev"):
                expr = {"k": "bin", "op": "mul", "a": {"k": "num", "v": 2}, "b": gen_leaf_vec(rng, size, False)}
            kind = ("ndarray-left" if has_ndarray_left(expr) else
                    "raw-left" if has_raw_left(expr) else
                    "shifted-subtree" if has_prev(expr) else "wrapped")
            yield dict(base, kind=kind, expr=expr)

    # ---------------------------------------------------------------------------------
    @staticmethod
    def observe(es, op, derivative, xstate=None):
        try:
            if xstate is None:
                r = es.evaluate(op, derivative=derivative)
            else:       # explicit state vector, different from the stored iterate
                r = es.evaluate(op, derivative=derivative, state=np.array(xstate, dtype=float))
        except ValueError as e:
            return ["err", "Encountered unknown operation" in str(e)]
        except NotImplementedError:
            return ["notimpl"]
        except KeyError:
            return ["keyerr"]
        except ZeroDivisionError:
            return ["nonfinite"]
        vals = (np.concatenate([r.val, r.jac.toarray().ravel()]) if isinstance(r, pp.ad.AdArray)
                else r.toarray().ravel() if isinstance(r, (sps.spmatrix, sps.sparray))
                else np.atleast_1d(np.asarray(r, dtype=float)))
        if not np.all(np.isfinite(vals)):
            return ["nonfinite"]
        if isinstance(r, pp.ad.AdArray):
            return ["ad", [float(x) for x in r.val], [[float(x) for x in row] for row in r.jac.toarray()]]
        if isinstance(r, (int, float)):
            return ["num", float(r)]
        if isinstance(r, np.ndarray) and r.ndim == 1:
            return ["vec", [float(x) for x in r]]
        if isinstance(r, (sps.spmatrix, sps.sparray)):
            return ["mat", [[float(x) for x in row] for row in r.toarray()]]
        raise TypeError(f"unexpected result type {type(r).__name__}")

    def run_impl(self, case):
        E = env(case.get("env", 0))
        b = Builder(case)
        st = self._stats
        st["kinds"][case["kind"]] = st["kinds"].get(case["kind"], 0) + 1
        try:
            op = b.build(case["expr"])
        except ValueError as e:
            if "Cannot create an operator representing a previous" not in str(e):
                raise
            return {"built": False, "refused": True, "shifts": jsonable(b.shifts)}
        if not isinstance(op, pp.ad.Operator):
            # the python expression did not even produce an Operator (numpy broadcast over it)
            return {"built": False, "refused": False, "type": type(op).__name__}
        b.clobber()     # aliasing probe: porepy must not see later writes to arrays handed in
        tree = ser(op, E)
        with_d = self.observe(E["es"], op, True, case.get("xstate"))
        without_d = self.observe(E["es"], op, False, case.get("xstate"))
        # aliasing probe on results: overwrite what an evaluation returned, evaluate again
        aliasing = False
        for deriv, first in ((True, with_d), (False, without_d)):
            try:
                r = (E["es"].evaluate(op, derivative=deriv) if case.get("xstate") is None else
                     E["es"].evaluate(op, derivative=deriv, state=np.array(case["xstate"], dtype=float)))
                if isinstance(r, pp.ad.AdArray):
                    r.val[...] = 977
                    r.jac.data[...] = 977
                elif isinstance(r, np.ndarray):
                    r[...] = 977
                elif isinstance(r, (sps.spmatrix, sps.sparray)):
                    r.data[...] = 977
            except (ValueError, KeyError, NotImplementedError, ZeroDivisionError):
                pass
            if self.observe(E["es"], op, deriv, case.get("xstate")) != first:
                aliasing = True
        # direct evaluation on real AdArrays
        state = np.array(case.get("xstate") or case["state"]["it0"], dtype=float)
        direct = None
        try:
            d = d_eval(tree, pp.ad.initAdArrays([state])[0], case["state"])
            if isinstance(d, pp.ad.AdArray) and np.all(np.isfinite(d.val)) \
                    and np.all(np.isfinite(d.jac.toarray())):
                direct = ["ad", [float(x) for x in d.val], [[float(x) for x in r] for r in d.jac.toarray()]]
        except (ValueError, ZeroDivisionError, KeyError):
            direct = ["err"]
        tcensus(tree, st["census"])
        st["results"][with_d[0]] = st["results"].get(with_d[0], 0) + 1
        st["envs"][case.get("env", 0)] = st["envs"].get(case.get("env", 0), 0) + 1
        st["shift_calls_on_composites"] += len(b.shifts)
        res = {"built": True, "tree": jsonable(tree), "with_d": with_d, "without_d": without_d,
               "direct": direct, "shifts": jsonable(b.shifts), "aliasing": aliasing}
        st["coinciding_id_array_pairs"] += coinciding(op)
        hist = case.get("history")
        if hist:
            # leaf data are changed IN PLACE; the already built operator is evaluated again and
            # its tree is re-read, so that the model sees what the implementation holds now
            for sid, v in hist["scalars"].items():
                if int(sid) in b.scalars:
                    b.scalars[int(sid)].set_value(v)
            b.set_state(hist["state"])
            b.clobber()
            res["tree2"] = jsonable(ser(op, E))
            res["with_d2"] = self.observe(E["es"], op, True, case.get("xstate"))
            res["without_d2"] = self.observe(E["es"], op, False, case.get("xstate"))
        return res

    @staticmethod
    def _tree_of(case, res):
        return unjson(res["tree"])

    # ---------------------------------------------------------------------------------
    def oracle(self, case, res):
        if case["kind"] in ("legacy-reverse-node", "shift-conflict"):
            return None     # tie only: hand-built nodes / shifts that porepy refuses by design
        if not res["built"]:
            if res.get("refused"):
                return ("previous_timestep / previous_iteration was refused for an expression "
                        "whose shifts are all of one kind")
            return ("the expression with a numpy array as left operand did not build an Operator "
                    f"(got {res['type']})")
        if res.get("aliasing"):
            return ("a later evaluation of the same operator differs after the arrays returned by "
                    "an earlier evaluation were overwritten (aliasing)")
        why = self.oracle_phase(case, res, case["state"], {}, res["with_d"], res["without_d"],
                                res["direct"])
        if why:
            return why
        hist = case.get("history")
        if hist:
            why = self.oracle_phase(case, res, hist["state"],
                                    {int(k): v for k, v in hist["scalars"].items()},
                                    res["with_d2"], res["without_d2"], None)
            if why:
                return "after Scalar.set_value / new stored values: " + why
        return None

    def oracle_phase(self, case, res, state, scal, wd, wo, direct):
        E = env(case.get("env", 0))
        N = E["N"]
        b = Builder(dict(case, state=state))
        ctx = {"N": N, "state": state, "blocks": E["blocks"], "sub_order": b.sub_order, "scal": scal,
               "cur": case.get("xstate")}
        try:
            exp = s_eval(case["expr"], ctx)
        except ExpectKeyError:
            if wd[0] == "keyerr" and wo[0] == "keyerr":
                return None
            return "a leaf beyond the stored time steps / iterates did not raise KeyError"
        except Unsupported:
            return None     # outside the oracle's fragment (not generated)
        except ZeroDivisionError:
            return None
        if wd[0] == "keyerr" or wo[0] == "keyerr":
            return "KeyError although every shifted leaf has stored values"
        if wd[0] == "nonfinite" or wo[0] == "nonfinite":
            return None     # a division by zero somewhere: outside the property (and the oracle)
        tol = lambda a, b: abs(a - float(b)) <= 1e-9 * (1 + abs(float(b)))
        if wd[0] == "err" or wo[0] == "err":
            return ("evaluation raised ValueError"
                    + (" (Encountered unknown operation)" if (wd[0] == "err" and wd[1]) else "")
                    + " on an expression with a well-defined direct forward-mode value")
        if exp[0] == "mat":
            if wo[0] != "mat" or not all(tol(a, b) for r, s in zip(wo[1], exp[1]) for a, b in zip(r, s)):
                return "matrix value differs from the direct evaluation"
            return None if wd[0] == "notimpl" else "matrix-valued expression with derivative did not raise NotImplementedError"
        if exp[0] == "num":
            vals, jac = [exp[1]], [[q(0)] * N]
            wov = [wo[1]] if wo[0] == "num" else None
        elif exp[0] == "vec":
            vals, jac = exp[1], exp[2]
            wov = wo[1] if wo[0] == "vec" else None
        else:
            return None
        if wd[0] != "ad":
            return f"evaluation with derivative returned {wd[0]}, expected an AdArray"
        if len(wd[1]) != len(vals) or not all(tol(a, b) for a, b in zip(wd[1], vals)):
            return "value (with derivative) differs from the direct forward-mode evaluation"
        if len(wd[2]) != len(jac) or not all(tol(a, b) for r, s in zip(wd[2], jac) for a, b in zip(r, s)):
            return "Jacobian differs from the direct forward-mode evaluation"
        if wov is None or len(wov) != len(vals) or not all(tol(a, b) for a, b in zip(wov, vals)):
            return "value without derivative differs from the value with derivative / direct value"
        d = direct
        if d is not None:
            self._stats["direct_adarray_checked"] += 1
            if d[0] == "err":
                return None
            if not (all(tol(a, b) for a, b in zip(d[1], vals))
                    and all(tol(a, b) for r, s in zip(d[2], jac) for a, b in zip(r, s))):
                return None  # the real AdArray disagrees with exact arithmetic: C01's subject
            if not (all(abs(a - b) <= 1e-9 * (1 + abs(b)) for a, b in zip(wd[1], d[1]))):
                return "value differs from direct evaluation on AdArrays"
        return None

    def finding_key(self, case, res, why):
        if not res["built"] and has_ndarray_left(case["expr"]):
            return KNOWN_NDARRAY
        if "unknown operation" in why:
            return "reverse-operation-node-unknown-to-parser"
        return "evaluation-differs-from-direct"

    # ---------------------------------------------------------------------------------
    @staticmethod
    def cobs(o):
        if o[0] == "err":
            return f"(ObsErr {cbool(o[1])})"
        if o[0] == "notimpl":
            return "ObsNotImpl"
        if o[0] == "nonfinite":
            return "ObsNonFinite"
        if o[0] == "keyerr":
            return "ObsKeyErr"
        if o[0] == "num":
            return f"(ObsNum {cqc(o[1])})"
        if o[0] == "vec":
            return f"(ObsVec {cvec(o[1])})"
        if o[0] == "mat":
            return f"(ObsMat {cmat(o[1])})"
        return f"(ObsAd {cvec(o[1])} {cmat(o[2])})"

    @staticmethod
    def cstores(st):
        return ("{| st_ts := %s; st_its := %s; st_src_it0 := %s; st_src_ts := %s |}" % (
            clist([st["ts%d" % k] for k in range(NTS)], cvec),
            clist([st["it%d" % k] for k in range(NTS)], cvec),
            cvec(st["src_it0"]), clist([st["src_ts%d" % k] for k in range(NTS)], cvec)))

    @staticmethod
    def cshifts(res):
        out = []
        for inner, ptime, steps, outer in unjson(res.get("shifts", [])):
            o = "None" if outer is None else f"(Some {ctree(outer)})"
            out.append(f"agree_shift {ctree(inner)} {cbool(ptime)} {cz(steps)} {o}")
        return out

    def coq_case(self, case, res):
        terms = self.cshifts(res)
        if res["built"]:
            tree = self._tree_of(case, res)
            st = cvec(case.get("xstate") or case["state"]["it0"])
            terms.append(f"agree {ctree(tree)} {st} {self.cstores(case['state'])} "
                         f"{self.cobs(res['with_d'])} {self.cobs(res['without_d'])}")
            if "tree2" in res:      # after the in-place changes of the history
                st2 = case["history"]["state"]
                terms.append(f"agree {ctree(unjson(res['tree2']))} "
                             f"{cvec(case.get('xstate') or st2['it0'])} "
                             f"{self.cstores(st2)} {self.cobs(res['with_d2'])} "
                             f"{self.cobs(res['without_d2'])}")
        if not terms:
            return None
        return "(" + " && ".join(terms) + ")%bool"

    def coq_diag(self, case, res):
        if not res["built"]:
            return None
        tree = self._tree_of(case, res)
        st = cvec(case.get("xstate") or case["state"]["it0"])
        e = f"(mkenv {st} {self.cstores(case['state'])} true)"
        return f"(evaluate {ctree(tree)} {e}, direct {ctree(tree)} {e})"

    def nontrivial(self, case, res):
        return res["built"] and res["tree"][0] == "bin"

    def shrink(self, case, still_fails):
        cur = case
        changed = True
        while changed:
            changed = False
            e = cur["expr"]
            for f in ("a", "b"):
                c = e.get(f)
                if isinstance(c, dict) and c["k"] in ("bin", "neg", "rnode", "prev"):
                    cand = dict(cur, expr=c)
                    if still_fails(cand):
                        cur, changed = cand, True
                        break
        return cur

    def extra_evidence(self):
        return {"input_distribution": self._stats,
                "refuted": ["C02_reverse_nodes_refuted (trees with rmul/rdiv/rpow/rmatmul nodes, "
                            "which the overloads no longer build)"]}


PROP = C02()
