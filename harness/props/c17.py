"""C17 — Upwind.discretize: upstream cell selection, boundary matrices, conservative and
bounded explicit transport step."""
import math
from fractions import Fraction

import numpy as np
import scipy.sparse as sps

from harness.core import Prop, cbool, clist

import porepy as pp

KW = "transport"


def cz(n):
    """Z literal for case files that open Z_scope (scope delimiters on every number make
    coqc several times slower on these large terms)."""
    n = int(n)
    return str(n) if n >= 0 else f"({n})"

# bc codes per face
NONE, DIR, NEU, ROB, BOTH = 0, 1, 2, 3, 4


def flux_parts(case):
    """Per face (mantissa, exponent): the flux is mantissa * 2**exponent, exact in binary64
    and as a rational.  'scale' is a common exponent, 'fexp' optional per-face exponents."""
    e = case.get("scale", 0)
    fe = case.get("fexp") or [0] * len(case["flux"])
    return [(int(m), int(e + x)) for m, x in zip(case["flux"], fe)]


def flux_values(case):
    return [Fraction(m) * Fraction(2) ** k for m, k in flux_parts(case)]


def make_grid(spec):
    kind = spec["kind"]
    if kind == "point":
        g = pp.PointGrid(np.zeros(3))
    elif kind == "cart":
        g = pp.CartGrid(np.array(spec["n"]))
    elif kind == "tensor":
        g = pp.TensorGrid(*[np.array(x, dtype=float) for x in spec["x"]])
    elif kind == "tri":
        g = pp.StructuredTriangleGrid(np.array(spec["n"]))
    elif kind == "tet":
        g = pp.StructuredTetrahedralGrid(np.array(spec["n"]))
    else:
        raise ValueError(kind)
    g.compute_geometry()
    return g


def incidence(g):
    fi, ci, sgn = sps.find(g.cell_faces)
    return [[int(f), int(c), int(s)] for f, c, s in zip(fi, ci, sgn)]


def canon(m):
    m = sps.coo_matrix(m)
    m.sum_duplicates()
    ent = []
    for r, c, v in zip(m.row, m.col, m.data):
        assert float(v) == int(v), "non-integer upwind entry"
        if v != 0:
            ent.append([int(r), int(c), int(v)])
    ent.sort()
    return {"e": ent, "shape": [int(m.shape[0]), int(m.shape[1])]}


def dense(m):
    a = np.zeros(m["shape"], dtype=object)
    for r, c, v in m["e"]:
        a[r, c] += v
    return a


def grid_spec(rng, tier, want_cycles=False):
    big = tier != "quick"
    r = rng.random()
    if r < 0.04 and not want_cycles:
        return {"kind": "point"}
    if r < 0.2 and not want_cycles:
        return {"kind": "cart", "n": [rng.randint(1, 12 if big else 8)]}
    if r < 0.45:
        return {"kind": "cart", "n": [rng.randint(1 + want_cycles, 6 if big else 4),
                                      rng.randint(1 + want_cycles, 6 if big else 4)]}
    if r < 0.6:
        steps = [0.25, 0.5, 1.0, 2.0]
        d = rng.choice([1, 2, 2, 3]) if not want_cycles else rng.choice([2, 2, 3])
        xs = []
        for _ in range(d):
            n = rng.randint(1 + want_cycles, 4 if d < 3 else 3)
            x = [0.0]
            for _ in range(n):
                x.append(x[-1] + rng.choice(steps))
            xs.append(x)
        return {"kind": "tensor", "x": xs}
    if r < 0.8:
        return {"kind": "tri", "n": [rng.randint(1, 4), rng.randint(1, 4)]}
    if r < 0.92:
        return {"kind": "cart", "n": [rng.randint(1 + want_cycles, 3), rng.randint(1 + want_cycles, 3),
                                      rng.randint(1, 4 if big else 3)]}
    return {"kind": "tet", "n": [rng.randint(1, 2), rng.randint(1, 2), rng.randint(1, 2)]}


def cycle_flux(rng, g, n_loops):
    """Integer face fluxes that are exactly divergence free with zero boundary flux: a sum
    of flows around cycles of the cell-adjacency graph (fundamental cycles of a random
    spanning tree)."""
    cfm = g.cell_faces.tocsr()
    nf, nc = cfm.shape
    adj = {c: [] for c in range(nc)}
    for f in range(nf):
        cs = cfm[f].indices
        if len(cs) == 2:
            a, b = int(cs[0]), int(cs[1])
            adj[a].append((b, f))
            adj[b].append((a, f))
    q = [0] * nf
    if nc < 2:
        return q
    root = rng.randrange(nc)
    parent = {root: (None, None)}
    order = [root]
    tree_faces = set()
    i = 0
    while i < len(order):
        u = order[i]
        i += 1
        nb = list(adj[u])
        rng.shuffle(nb)
        for v, f in nb:
            if v not in parent:
                parent[v] = (u, f)
                tree_faces.add(f)
                order.append(v)
    chords = [(a, b, f) for a in adj for (b, f) in adj[a] if a < b and f not in tree_faces]
    if not chords:
        return q

    def path_to_root(u):
        p = []
        while parent[u][0] is not None:
            p.append((u, parent[u][0], parent[u][1]))
            u = parent[u][0]
        return p

    for _ in range(n_loops):
        a, b, f = rng.choice(chords)
        w = rng.choice([-3, -2, -1, 1, 2, 3, 5])
        # cycle a -> b (chord), then b -> root, then root -> a; common part cancels
        steps = [(a, b, f)] + path_to_root(b) + [(y, x, ff) for (x, y, ff) in reversed(path_to_root(a))]
        for (u, v, ff) in steps:
            q[ff] += w * int(cfm[ff, u])   # leaves u along the normal iff sign(u) = +1
    return q


class C17(Prop):
    id = "C17"
    props_file = "Props/C17.v"
    preamble = ("From Coq Require Import List ZArith Bool.\nImport ListNotations.\n"
                "From PP Require Import Model.C17.\nLocal Open Scope Z_scope.\n")
    n_cases = (100, 2000)
    design_ref = "DESIGN.md §5 C17"
    level_text = (
        "Coq theorems over an executable face-by-face transcription of Upwind.discretize "
        "(cell_faces_as_dense with last-write-wins, sign(q)>=0 as positive, deletion of Neumann "
        "and Dirichlet-inflow rows, the two boundary diagonals, Kronecker expansion, scipy's "
        "ValueError on a remaining -1 column), for every incidence list, every flux field over "
        "any ordered type (Z executed, R in the step theorems), every flag assignment and "
        "component count: each face with non-zero flux selects exactly the cell the flux leaves, "
        "nothing on Neumann / Dirichlet-inflow faces, boundary matrices are supported exactly "
        "there (C17_upstream, C17_boundary_data, C17_total, C17_error); the k-component matrices "
        "act componentwise (C17_components); the explicit step built from the model's matrices "
        "conserves sum(vol*c) under no-flow boundaries for ANY flux and time step "
        "(C17_conservative) and is a convex combination, hence within [min,max], for a "
        "divergence-free flux under the CFL limit (C17_max_principle), over the reals; the same "
        "for every component of k interleaved components with the k-component matrices "
        "(C17_conservative_k, C17_max_principle_k). The model "
        "is tied to the code on every run: Coq recomputes all three matrices (entries and shapes) "
        "from the real incidence of generated grids and compares with the implementation.")
    level_note = (
        "Trusted: Coq kernel + vm_compute; harness (generator, literal emission, canonical "
        "coordinate lists with explicit zeros dropped); fluxes are dyadic m*2^k (exact in binary64), "
        "the model sees the pair (m, k); NaN "
        "fluxes not modelled; the flux type enters the model only through sign(q)>=0, so the "
        "executed Z instance and the R instance of the theorems are the same polymorphic "
        "definition. The step itself (c - dt/vol*Div(q*U c + Bd(q b) + Bn b), as "
        "composed in models/constitutive_laws.py) is part of the specification, not of the "
        "tied code (the models' AD composition is not executed); the oracle evaluates it exactly on "
        "the real matrices. The legacy assemble_matrix_rhs is tied as a transcription (matrix = "
        "Div*diag(q)*upwind, rhs = Div*(bound_neu + bound_dir*diag(q))*bc_values, ValueError for "
        "k != 1; in Coq for integer data, by the exact oracle otherwise) without any claim about "
        "its sign convention (pinned by the repository's tests); UpwindCoupling is outside this "
        "property's statement. "
        "Robin / unflagged boundary faces are covered as the error branch only.")
    technique = ("Coq proof (characterisation of the transcribed discretisation, face-list "
                 "induction for conservation, convexity for the maximum principle over R) + "
                 "vm_compute execution correspondence on real grid incidences")
    rule = ("grids: PointGrid, CartGrid 1-3-D, TensorGrid with dyadic spacings 1-3-D, "
            "StructuredTriangleGrid, StructuredTetrahedralGrid (<= ~60 cells quick); fluxes: random "
            "integers with ~25% zeros, or exactly divergence-free integer cycle flows with zero "
            "boundary flux; in half of the cases the whole field is multiplied by an exact power of "
            "two from 2^-80..2^40 (cycle flows stay divergence free), and a quarter of the random "
            "fields mix magnitudes per face (2^-75..2^20 next to O(1)); bc: random Dirichlet/Neumann per boundary face, all-Neumann, "
            "all-Dirichlet, and a corner stream (Robin faces, unflagged boundary faces, faces "
            "flagged both ways, flags on interior faces) reaching the ValueError branch; 12% of the "
            "cases omit the bc parameter (the code's default: Dirichlet on the domain boundary), some "
            "pass an integer-dtype flux array; 45% of the cases are histories on ONE data dictionary and "
            "ONE Upwind object (1-2 earlier discretisations whose bc object, flux or component count "
            "differs, parameters replaced in place; the matrices after the last discretisation are "
            "compared with the model on the current parameters); assemble_matrix_rhs is called 2-3 "
            "times on the stored matrices with an aliasing probe (stored matrices unchanged, "
            "identical systems, equal to a fresh object's system); the first three cases of every run "
            "and 12% of the rest first use the SAME Upwind object (discretize + assemble) on other "
            "grids, always including the transposed Cartesian / triangle grid with equal (dim, cells, "
            "faces) but different connectivity; 1-3 "
            "components; cycle-flow cases carry an explicit step (random cell values, dt = random "
            "fraction of the CFL limit). non-trivial = at least one non-zero flux on a grid with "
            ">= 2 cells")
    trusted = ["fluxes m*2^k with small integer m (exact in binary64, built with math.ldexp) are passed "
               "to the model as the pair (m, k); np.sign(q) >= 0 on finite floats = (0 <= sgn m)",
               "the incidence triples sps.find(g.cell_faces) of the real grid are passed to the "
               "model as data"]
    assumptions = ["finite (non-NaN) fluxes", "bc flags are boolean arrays of length num_faces"]

    # ------------------------------------------------------------------ generation
    def generate(self, rng, n, tier):
        for i in range(n):
            mode = "cycles" if rng.random() < 0.4 else "random"
            spec = grid_spec(rng, tier, want_cycles=(mode == "cycles"))
            # ONE Upwind object used on other grids first (discretize + assemble on each with its
            # own data): directed pairs with equal (dim, cells, faces) but different connectivity
            # (transposed shapes) in the first cases of every run, random sequences later
            pre = None
            if i < 3 or rng.random() < 0.12:
                a, b = rng.choice([(2, 3), (1, 3), (2, 4), (3, 4), (1, 2)])
                kind = "tri" if (i == 1 or (i >= 3 and rng.random() < 0.4)) else "cart"
                mode = "random"
                spec = {"kind": kind, "n": [a, b]}
                pre = [{"kind": kind, "n": [b, a]}]
                if rng.random() < 0.4:
                    pre.insert(0, grid_spec(rng, tier))
            g = make_grid(spec)
            nf, nc = g.num_faces, g.num_cells
            bnd = set(int(f) for f in g.get_all_boundary_faces()) if nf else set()
            if mode == "cycles":
                q = cycle_flux(rng, g, rng.randint(1, 4))
            else:
                q = [0 if rng.random() < 0.25 else rng.randint(-9, 9) for _ in range(nf)]
            r = rng.random()
            bc = [NONE] * nf
            for f in bnd:
                if r < 0.55:
                    bc[f] = rng.choice([DIR, NEU])
                elif r < 0.7:
                    bc[f] = NEU
                elif r < 0.85:
                    bc[f] = DIR
                else:  # corner stream
                    bc[f] = rng.choice([DIR, NEU, DIR, NEU, ROB, NONE, BOTH])
            if r >= 0.93:
                for f in range(nf):
                    if f not in bnd and rng.random() < 0.2:
                        bc[f] = rng.choice([DIR, NEU])
            k = rng.choice([1, 1, 1, 2, 3])
            case = {"grid": spec, "flux": q, "bc": bc, "ncomp": k, "mode": mode}
            if rng.random() < 0.12:
                # no "bc" parameter: the code's default (Dirichlet on the domain boundary faces)
                case["nobc"] = True
                case["bc"] = bc = [DIR if f in bnd else NONE for f in range(nf)]
            # magnitudes: a common exact power of two (keeps cycle flows divergence free),
            # or, for random fields, a mix of tiny and O(1) faces within one field
            rs = rng.random()
            if rs < 0.35:
                case["scale"] = rng.randint(-80, 40)
            elif rs < 0.5:
                case["scale"] = rng.choice([-80, -75, -70, -64, -60, -53, -52])
            elif rs < 0.75 and mode == "random":
                case["scale"] = rng.choice([0, 0, -10, 5])
                case["fexp"] = [rng.choice([0, 0, 0, -70, -60, -75, -53, 20]) for _ in range(nf)]
            elif rs > 0.9:
                case["intflux"] = True        # integer dtype flux array
            if pre:
                case["pre_grids"] = pre
                case["ncomp"] = k = 1
                for key_ in ("scale", "fexp", "intflux"):
                    case.pop(key_, None)
            case["bcv"] = [rng.randint(-6, 6) for _ in range(nf)]
            case["nasm"] = rng.choice([2, 2, 3])
            if rng.random() < 0.45 and nf > 0:
                # history on ONE data dictionary and ONE Upwind object: earlier states differ from
                # the final one in the bc object only, the flux only, or the component count
                prev = []
                for _ in range(rng.choice([1, 1, 2])):
                    st = {"flux": list(case["flux"]), "scale": case.get("scale", 0),
                          "fexp": case.get("fexp"), "bc": list(case["bc"]), "ncomp": case["ncomp"],
                          "nobc": False, "intflux": False}
                    what = rng.choice(["bc", "bc", "flux", "ncomp"])
                    if what == "bc":
                        st["bc"] = [rng.choice([DIR, NEU]) if f in bnd else NONE for f in range(nf)]
                    elif what == "flux":
                        st["flux"] = [(-x if rng.random() < 0.5 else x) for x in case["flux"]]
                    else:
                        st["ncomp"] = rng.choice([c_ for c_ in (1, 2, 3) if c_ != case["ncomp"]])
                    prev.append(st)
                case["prev"] = prev
            if mode == "cycles" and r < 0.85:
                vol = [Fraction(float(v)) for v in g.cell_volumes]
                cfl = None
                qv = flux_values(case)
                for c in range(nc):
                    out = 0
                    for f, cc, s in incidence(g):
                        if cc == c and s * qv[f] > 0:
                            out += s * qv[f]
                    if out > 0:
                        lim = vol[c] / out
                        cfl = lim if cfl is None else min(cfl, lim)
                if cfl is None:
                    cfl = Fraction(1)
                dt = cfl * Fraction(rng.choice([1, 1, 1, 2, 3, 7]), rng.choice([1, 2, 3, 8]))
                if dt > cfl:
                    dt = cfl
                case["step"] = {"c": [rng.randint(-20, 20) for _ in range(nc * k)],
                                "dt": [dt.numerator, dt.denominator]}
            yield case

    # ------------------------------------------------------------------ implementation
    @staticmethod
    def _params(g, st):
        bc = pp.BoundaryCondition(g)
        code = np.array(st["bc"], dtype=int)
        bc.is_dir = np.isin(code, [DIR, BOTH])
        bc.is_neu = np.isin(code, [NEU, BOTH])
        bc.is_rob = code == ROB
        if st.get("intflux"):
            flux_arr = np.array([m * 2 ** k for m, k in flux_parts(st)], dtype=int)
        else:
            flux_arr = np.array([math.ldexp(float(m), k) for m, k in flux_parts(st)], dtype=float)
        par = {"bc": bc, "darcy_flux": flux_arr, "num_components": st["ncomp"]}
        if st.get("nobc"):
            del par["bc"]
        return par

    def run_impl(self, case):
        g = make_grid(case["grid"])
        nf, nc = g.num_faces, g.num_cells
        states = list(case.get("prev") or []) + [case]
        data = pp.initialize_data(g, {}, KW, self._params(g, states[0]))
        pd = data[pp.PARAMETERS][KW]
        discr = pp.Upwind(KW)          # ONE object and ONE data dictionary for the whole history
        for gi, pspec in enumerate(case.get("pre_grids") or []):
            # the same object on other grids, each with its own data
            pg = make_grid(pspec)
            if pg.dim == 0:
                continue
            pbc = pp.BoundaryCondition(pg, pg.get_all_boundary_faces(), "dir")
            pq = np.array([((7 * f + 3 * gi) % 5) - 2 for f in range(pg.num_faces)], dtype=float)
            pdata = pp.initialize_data(pg, {}, KW, {"bc": pbc, "darcy_flux": pq,
                                                   "bc_values": np.ones(pg.num_faces)})
            discr.discretize(pg, pdata)
            discr.assemble_matrix_rhs(pg, pdata)
        res = {"dim": int(g.dim), "nf": int(nf), "nc": int(nc), "cf": incidence(g),
               "vol": [[Fraction(float(v)).numerator, Fraction(float(v)).denominator]
                       for v in g.cell_volumes],
               "err": None}
        for i, st in enumerate(states):
            par = self._params(g, st)
            for key in ("bc", "darcy_flux", "num_components"):       # in-place update
                if key in par:
                    pd[key] = par[key]
                else:
                    pd.pop(key, None)
            try:
                discr.discretize(g, data)
            except ValueError:
                if i == len(states) - 1:
                    res["err"] = "ValueErr"
                    return res
        md = data[pp.DISCRETIZATION_MATRICES][KW]
        keys = (discr.upwind_matrix_key, discr.bound_transport_dir_matrix_key,
                discr.bound_transport_neu_matrix_key)
        res["U"], res["D"], res["N"] = (canon(md[k_]) for k_ in keys)
        # public assemble_matrix_rhs, called repeatedly on the stored matrices (aliasing probe)
        if g.dim > 0 and case.get("bcv") is not None:
            pd["bc_values"] = np.array(case["bcv"], dtype=float)
            calls = []
            for _ in range(case.get("nasm", 2)):
                try:
                    A, rhs = discr.assemble_matrix_rhs(g, data)
                    A = sps.coo_matrix(A)
                    A.sum_duplicates()
                    ent = sorted([int(r_), int(c_), float(v)] for r_, c_, v in zip(A.row, A.col, A.data) if v != 0)
                    calls.append({"m": ent, "rhs": [float(x) for x in np.asarray(rhs).ravel()]})
                except ValueError:
                    calls.append({"err": True})
            res["asm"] = calls
            try:
                Af, rf = pp.Upwind(KW).assemble_matrix_rhs(g, data)     # fresh object, same data
                Af = sps.coo_matrix(Af)
                Af.sum_duplicates()
                entf = sorted([int(r_), int(c_), float(v)] for r_, c_, v in zip(Af.row, Af.col, Af.data) if v != 0)
                res["asm_fresh"] = {"m": entf, "rhs": [float(x) for x in np.asarray(rf).ravel()]}
            except ValueError:
                res["asm_fresh"] = {"err": True}
            after = [canon(md[k_]) for k_ in keys]
            res["stored_unchanged"] = after == [res["U"], res["D"], res["N"]]
        return res

    # ------------------------------------------------------------------ oracle
    def _assemble_oracle(self, case, res):
        calls = res.get("asm")
        if not calls:
            return None
        nf, nc, k = res["nf"], res["nc"], case["ncomp"]
        if not res.get("stored_unchanged", True):
            return "assemble_matrix_rhs changed the stored discretisation matrices"
        if "asm_fresh" in res and res["asm_fresh"] != calls[0]:
            return ("assemble_matrix_rhs of an Upwind object used on other grids before differs from "
                    "a fresh object on the same data")
        if any(c != calls[0] for c in calls[1:]):
            return "repeated assemble_matrix_rhs calls on the same stored matrices give different systems"
        if k != 1:
            return None if calls[0].get("err") else "assemble_matrix_rhs accepted several components"
        if calls[0].get("err"):
            return "assemble_matrix_rhs raised ValueError for one component"
        # matrix = Div diag(q) U ; rhs = Div (N + D diag(q)) bc_values, from the STORED matrices
        q = flux_values(case)
        bcv = [Fraction(x) for x in case["bcv"]]
        Uf = {}
        for r_, c_, v in res["U"]["e"]:
            Uf.setdefault(r_, []).append((c_, v))
        Df = {r_: v for r_, c_, v in res["D"]["e"] if r_ == c_}
        Nf = {r_: v for r_, c_, v in res["N"]["e"] if r_ == c_}
        M = {}
        mag = {}
        rhs = [Fraction(0)] * nc
        rmag = [Fraction(0)] * nc
        for f, c, s_ in res["cf"]:
            for j, v in Uf.get(f, []):
                M[(c, j)] = M.get((c, j), 0) + s_ * q[f] * v
                mag[(c, j)] = mag.get((c, j), 0) + abs(q[f] * v)
            t = Nf.get(f, 0) * bcv[f] + Df.get(f, 0) * q[f] * bcv[f]
            rhs[c] += s_ * t
            rmag[c] += abs(Nf.get(f, 0) * bcv[f]) + abs(Df.get(f, 0) * q[f] * bcv[f])
        got = {(r_, c_): Fraction(v) for r_, c_, v in calls[0]["m"]}
        for key_ in set(M) | set(got):
            if abs(M.get(key_, 0) - got.get(key_, 0)) > Fraction(1, 10 ** 12) * mag.get(key_, 0):
                return (f"assembled matrix entry {key_} = {float(got.get(key_, 0))!r} differs from "
                        f"Div*diag(q)*upwind = {float(M.get(key_, 0))!r}")
        for i in range(nc):
            if abs(rhs[i] - Fraction(calls[0]["rhs"][i])) > Fraction(1, 10 ** 12) * rmag[i]:
                return (f"assembled rhs[{i}] = {calls[0]['rhs'][i]!r} differs from "
                        f"Div*(bound_neu + bound_dir*diag(q))*bc_values = {float(rhs[i])!r}")
        return None

    def oracle(self, case, res):
        why = self._assemble_oracle(case, res)
        if why:
            return why
        nf, nc, k = res["nf"], res["nc"], case["ncomp"]
        q, code = flux_values(case), case["bc"]
        per_face = {f: [] for f in range(nf)}
        for f, c, s in res["cf"]:
            per_face[f].append((c, s))
        proper = all((code[f] in (DIR, NEU)) if len(per_face[f]) == 1 else code[f] == NONE
                     for f in range(nf))
        if not proper:
            return None          # the property speaks about Dirichlet/Neumann boundary data only
        if res["err"]:
            return "discretize raised ValueError for a Dirichlet/Neumann boundary assignment"
        if res["dim"] == 0:
            return None
        U, D, N = dense(res["U"]), dense(res["D"]), dense(res["N"])
        if U.shape != (nf * k, nc * k) or D.shape != (nf * k, nf * k) or N.shape != D.shape:
            return f"matrix shapes {U.shape} {D.shape} {N.shape}"
        for f in range(nf):
            ups = [c for (c, s) in per_face[f] if s * q[f] > 0]
            for j in range(k):
                r = f * k + j
                nz = [(c, U[r, c]) for c in range(nc * k) if U[r, c] != 0]
                if q[f] != 0:
                    if code[f] == NEU or (code[f] == DIR and not ups):
                        if nz:
                            return (f"face {f} (flux {float(q[f])!r}, bc code {code[f]}) is a Neumann / "
                                    f"Dirichlet-inflow face but selects {nz}")
                    else:
                        want = [(ups[0] * k + j, 1)]
                        if nz != want:
                            return (f"face {f} flux {float(q[f])!r}: upwind row {r} has {nz}, the flux "
                                    f"leaves cell {ups[0]} (expected {want})")
                dnz = [c for c in range(nf * k) if D[r, c] != 0]
                nnz = [c for c in range(nf * k) if N[r, c] != 0]
                if dnz and (dnz != [r] or code[f] != DIR or (q[f] != 0 and ups)):
                    return f"Dirichlet boundary matrix row {r} (face {f}, code {code[f]}, flux {float(q[f])!r}): {dnz}"
                if nnz and (nnz != [r] or code[f] != NEU):
                    return f"Neumann boundary matrix row {r} (face {f}, code {code[f]}): {nnz}"
        st = case.get("step")
        if st:
            return self._step_oracle(case, res, U, per_face)
        return None

    def _step_oracle(self, case, res, U, per_face):
        nf, nc, k = res["nf"], res["nc"], case["ncomp"]
        q = flux_values(case)
        dt = Fraction(*case["step"]["dt"])
        c0 = [Fraction(x) for x in case["step"]["c"]]
        vol = [Fraction(a, b) for a, b in res["vol"]]
        noflow = all(q[f] == 0 for f in range(nf) if len(per_face[f]) == 1)
        if not noflow or dt < 0:
            return None
        # face fluxes with zero boundary data:  q * (U c)
        F = [Fraction(0)] * (nf * k)
        for r in range(nf * k):
            acc = Fraction(0)
            for c in range(nc * k):
                if U[r, c] != 0:
                    acc += int(U[r, c]) * c0[c]
            F[r] = q[r // k] * acc
        div = [Fraction(0)] * (nc * k)
        divq = [0] * nc
        outflow = [0] * nc
        for f, c, s in res["cf"]:
            divq[c] += s * q[f]
            outflow[c] += max(s * q[f], 0)
            for j in range(k):
                div[c * k + j] += s * F[f * k + j]
        c1 = [c0[i] - dt / vol[i // k] * div[i] for i in range(nc * k)]
        for j in range(k):
            t0 = sum(vol[c] * c0[c * k + j] for c in range(nc))
            t1 = sum(vol[c] * c1[c * k + j] for c in range(nc))
            if t0 != t1:
                return f"explicit step with no-flow boundaries changed the total of component {j}: {t0} -> {t1}"
        if any(divq) or any(dt * outflow[c] > vol[c] for c in range(nc)):
            return None
        for j in range(k):
            old = [c0[c * k + j] for c in range(nc)]
            new = [c1[c * k + j] for c in range(nc)]
            if min(new) < min(old) or max(new) > max(old):
                return (f"explicit step under CFL with divergence-free flux left the initial bounds: "
                        f"[{min(old)},{max(old)}] -> [{min(new)},{max(new)}] (component {j})")
        return None

    # ------------------------------------------------------------------ tie
    def _input(self, case, res):
        code = case["bc"]
        trip = lambda t: f"({cz(t[0])}, {cz(t[1])}, {cz(t[2])})"
        return ("(mk_input {} {} {} {} {} {} {} {})".format(
            cz(res["dim"]), cz(res["nf"]), cz(res["nc"]), clist(res["cf"], trip),
            clist(flux_parts(case), lambda mk: f"({cz(mk[0])}, {cz(mk[1])})"),
            clist([c in (DIR, BOTH) for c in code], cbool),
            clist([c in (NEU, BOTH) for c in code], cbool),
            cz(case["ncomp"])))

    def coq_case(self, case, res):
        trip = lambda t: f"({cz(t[0])}, {cz(t[1])}, {cz(t[2])})"
        if res["err"]:
            exp = "None"
        else:
            m = lambda x: f"({clist(x['e'], trip)}, ({cz(x['shape'][0])}, {cz(x['shape'][1])}))"
            exp = f"(Some ({m(res['U'])}, {m(res['D'])}, {m(res['N'])}))"
        term = f"agree {self._input(case, res)} {exp}"
        calls = res.get("asm")
        if calls and not case.get("scale") and not case.get("fexp"):
            if calls[0].get("err"):
                aexp = "None"
            else:
                ints = all(float(v) == int(v) for _, _, v in calls[0]["m"]) and \
                    all(float(v) == int(v) for v in calls[0]["rhs"])
                if not ints:
                    return term
                aexp = "(Some ({}, {}))".format(
                    clist(calls[0]["m"], lambda t: f"({cz(t[0])}, {cz(t[1])}, {cz(int(t[2]))})"),
                    clist(calls[0]["rhs"], lambda v: cz(int(v))))
            term = (f"(let inp := {self._input(case, res)} in agree inp {exp} && "
                    f"agree_assemble inp {clist(case['bcv'], cz)} {aexp})")
        return term

    def coq_diag(self, case, res):
        return f"discretize dyadic nonnegD {self._input(case, res)}"

    def nontrivial(self, case, res):
        return res["nc"] >= 2 and any(x != 0 for x in case["flux"])

    def finding_key(self, case, res, why):
        if "assembl" in why or "assemble_matrix_rhs" in why:
            if "fresh object" in why:
                return "assemble-object-reuse"
            return "assemble-" + ("aliasing" if "stored" in why or "repeated" in why else "system")
        if "explicit step" in why:
            return "step-" + ("total" if "total" in why else "bounds")
        if "ValueError" in why:
            return "raises-on-dir-neu"
        if "boundary matrix" in why:
            return "boundary-support"
        return "upstream-selection"

    def shrink(self, case, still_fails):
        # try fewer components, then zeroing fluxes one at a time
        cur = case
        if cur["ncomp"] > 1 and "step" not in cur:
            c = dict(cur, ncomp=1)
            if still_fails(c):
                cur = c
        q = list(cur["flux"])
        for i in range(len(q)):
            if q[i] != 0 and "step" not in cur:
                q2 = list(q)
                q2[i] = 0
                c = dict(cur, flux=q2)
                if still_fails(c):
                    q = q2
                    cur = c
        return cur


PROP = C17()
