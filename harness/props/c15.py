"""C15 — Biot coupling terms are consistent (certificate tie on the real Biot matrices)."""
import hashlib
import json
from fractions import Fraction

import numpy as np
import scipy.sparse as sps

from harness.core import Prop, cbool, clist

import porepy as pp

KW = "mech"
FLOW = "flow"
TOL = "(1 # 1000000000)"


def cq(x):
    fr = Fraction(x)
    return f"({fr.numerator} # {fr.denominator})" if fr.numerator >= 0 else f"(({fr.numerator}) # {fr.denominator})"


def cn(n):
    n = int(n)
    assert 0 <= n < 5000
    return f"{n}%nat"


def crow(r):
    return clist(r, lambda e: f"({cn(e[0])}, {cq(e[1])})")


def mixed_grid(nx, ny, split, pert=None):
    """2-D grid mixing cell types, built with the public pp.Grid constructor: an nx x ny lattice
    of unit quadrilaterals where split[c] = 0 keeps the quadrilateral, 1 / 2 cuts it into two
    triangles along one of its diagonals.  Cells are counter-clockwise node loops; a face keeps the
    direction of the first loop that runs through it (sign +1 there, -1 for the neighbour)."""
    import scipy.sparse as _sps
    nn = (nx + 1) * (ny + 1)
    X = np.zeros((3, nn))
    for j in range(ny + 1):
        for i in range(nx + 1):
            X[0, j * (nx + 1) + i] = i
            X[1, j * (nx + 1) + i] = j
    if pert:
        X[:2] += np.array(pert, dtype=float) / 32.0
    cells = []
    for j in range(ny):
        for i in range(nx):
            n00 = j * (nx + 1) + i
            n10, n01 = n00 + 1, n00 + nx + 1
            n11 = n01 + 1
            s = split[j * nx + i]
            if s == 0:
                cells.append([n00, n10, n11, n01])
            elif s == 1:
                cells += [[n00, n10, n11], [n00, n11, n01]]
            else:
                cells += [[n00, n10, n01], [n10, n11, n01]]
    faces, fn, trip = {}, [], []
    for c, loop in enumerate(cells):
        for a, b in zip(loop, loop[1:] + loop[:1]):
            key = (min(a, b), max(a, b))
            if key not in faces:
                faces[key] = len(fn)
                fn.append((a, b))
                trip.append((faces[key], c, 1))
            else:
                f = faces[key]
                trip.append((f, c, 1 if fn[f] == (a, b) else -1))
    nf = len(fn)
    face_nodes = _sps.csc_matrix((np.ones(2 * nf, dtype=int), np.array(fn).ravel(), 2 * np.arange(nf + 1)),
                                 shape=(nn, nf))
    t = np.array(trip)
    cell_faces = _sps.csc_matrix((t[:, 2], (t[:, 0], t[:, 1])), shape=(nf, len(cells)))
    return pp.Grid(2, X, face_nodes, cell_faces, "MixedTriQuad")


def make_grid(spec):
    g = _make_grid_unit(spec)
    if spec.get("scale_exp"):
        # small-scale stream: the whole grid scaled by the dyadic factor 2^-scale_exp
        g.nodes = g.nodes * 2.0 ** (-int(spec["scale_exp"]))
        g.compute_geometry()
    return g


def _make_grid_unit(spec):
    kind = spec["kind"]
    if kind == "mixed":
        g = mixed_grid(spec["n"][0], spec["n"][1], spec["split"], spec.get("pert"))
        g.compute_geometry()
        return g
    if kind == "prism":
        # 3-D grid with MIXED FACE TYPES (triangles and quadrilaterals): a (possibly node-perturbed)
        # triangle grid extruded along z; all faces stay planar
        g2 = pp.StructuredTriangleGrid(np.array(spec["n"]))
        if spec.get("pert"):
            g2.nodes = g2.nodes.copy()
            g2.nodes[:2] += np.array(spec["pert"], dtype=float) / 32.0
        g2.compute_geometry()
        g, _, _ = pp.grid_extrusion.extrude_grid(g2, np.array(spec["z"], dtype=float))
        g.compute_geometry()
        return g
    n = np.array(spec["n"])
    if kind == "cart":
        g = pp.CartGrid(n)
    elif kind == "tri":
        g = pp.StructuredTriangleGrid(n)
    elif kind == "tet":
        g = pp.StructuredTetrahedralGrid(n)
    else:
        raise ValueError(kind)
    if spec.get("pert"):
        off = np.array(spec["pert"], dtype=float) / 32.0     # dyadic node offsets
        g.nodes = g.nodes.copy()
        g.nodes[: g.dim] += off
    g.compute_geometry()
    return g


def grid_spec(rng, tier, force_mixed=False, force_prism=False):
    big = tier != "quick"
    r = rng.random()
    if force_mixed:
        r = 0.3
    if force_prism or r > 0.95:
        spec = {"kind": "prism", "n": rng.choice([[1, 1], [2, 1], [1, 2]] if big else [[1, 1], [1, 1], [2, 1]]),
                "z": rng.choice([[0.0, 1.0], [0.0, 0.5], [0.0, 0.5, 1.5]] if big else [[0.0, 1.0], [0.0, 0.5]])}
        if rng.random() < 0.5:
            nn = (spec["n"][0] + 1) * (spec["n"][1] + 1)
            spec["pert"] = [[rng.randint(-6, 6) for _ in range(nn)] for _ in range(2)]
        return spec
    if r < 0.25:
        spec = {"kind": "cart", "n": [rng.randint(1, 3), rng.randint(1, 3)]}
    elif r < 0.45:
        # triangles and quadrilaterals in one grid (public pp.Grid constructor)
        nx, ny = rng.choice([[2, 1], [1, 2], [2, 2], [3, 1], [3, 2]])
        split = [rng.choice([0, 1, 2]) for _ in range(nx * ny)]
        split[0], split[-1] = 0, rng.choice([1, 2])       # at least one of each type
        spec = {"kind": "mixed", "n": [nx, ny], "split": split}
    elif r < 0.7:
        spec = {"kind": "tri", "n": [rng.randint(1, 3), rng.randint(1, 2)]}
    elif r < 0.87:
        m = 2
        spec = {"kind": "cart", "n": [rng.randint(1, m), rng.randint(1, m), rng.randint(1, 2 if big else 1)]}
    else:
        spec = {"kind": "tet", "n": [1, rng.randint(1, 2 if big else 1), 1]}
    nd = len(spec["n"])
    if rng.random() < 0.55:
        g = make_grid(spec)
        amp = 6 if nd == 2 else 4
        spec["pert"] = [[rng.randint(-amp, amp) for _ in range(g.num_nodes)] for _ in range(nd)]
    return spec


def rows_of(m):
    m = sps.csr_matrix(m)
    m.sum_duplicates()
    out = []
    for i in range(m.shape[0]):
        lo, hi = m.indptr[i], m.indptr[i + 1]
        out.append([[int(c), float(v)] for c, v in zip(m.indices[lo:hi], m.data[lo:hi]) if v != 0])
    return out


class C15(Prop):
    id = "C15"
    props_file = "Props/C15.v"
    preamble = ("From Coq Require Import List ZArith Bool QArith.\nImport ListNotations.\n"
                "From PP Require Import Lib.RowLin Model.C15.\nLocal Open Scope Q_scope.\n")
    n_cases = (12, 100)
    design_ref = "DESIGN.md §5 C15 (certificate tie K, level P-method)"
    level_text = (
        "METHOD-LEVEL Coq theorems plus per-instance certificate validation (translation "
        "validation), not a proof about biot.py. Theorems (exact rationals): (1) for one cell given "
        "by signed faces with normals n_f and centres x_f, sum_f s_f (A x_f + b).n_f = sum_ij A_ij M_ij "
        "+ sum_i b_i N_i with M = sum s x n^T, N = sum s n (C15_div_u_identity), hence = tr(A)|K| "
        "under the divergence-theorem identities N = 0, M = |K| I, in 3-D and in 2-D (C15_div_u, "
        "C15_div_u_2d), and, UNDER THE EXPLICIT GUARD i_planar (all faces planar), on the cells of "
        "every instance that passed the checker, with the tolerance carried through "
        "(C15_div_u_on_planar_instance; the concrete non-planar hexahedron C15_nonplanar_example "
        "violates the moment identity at the 1e-3 level while passing the Biot certificates); (2) "
        "any sparse row applied to the samples of u = A x + b (cell centres, boundary face centres) "
        "is the same linear combination of its values on the nd*nd + nd basis fields e_k x_l, e_k, so "
        "a row that returns alpha_kl*|K| on e_k x_l and 0 on e_k returns (alpha:A)*|K| for EVERY "
        "linear field, alpha a symmetric coupling TENSOR (C15_linear_fields_2d/_3d), which is "
        "alpha*tr(A)*|K| for a scalar coefficient (C15_linear_fields_scalar), with the explicit form "
        "of the sampled field (C15_ustate_is_linear_field); (3) a row whose entries sum to "
        "-(alpha n_f)_k gives -p (alpha n_f)_k for every constant pressure p (C15_grad_p); (4) the "
        "checker evaluated in the tie is sound with its tolerance (C15_certificate_sound), and with "
        "tolerance 0 it yields the exact hypotheses (C15_exact_certificates). Per run Coq evaluates "
        "the checkers by vm_compute on the REAL matrices displacement_divergence, "
        "boundary_displacement_divergence and scalar_gradient of pp.Biot (Fraction(float)), scalar "
        "and tensor coupling, and on the real geometry arrays of generated 2-D/3-D grids; a numpy "
        "oracle applies the matrices to random linear fields and constant pressures.")
    level_note = (
        "Not proved: anything about biot.py / mpsa.py themselves (the MPSA construction is not "
        "re-implemented; its matrices are inputs whose certificates are checked on the generated "
        "instances only); that the Biot matrices ARE the face-sum of theorem (1) (they are built "
        "from subcell gradients; (1) is the divergence-theorem form of the same quantity). The "
        "geometric identities are checked, and claimed, only on instances flagged planar by the "
        "harness (everything except 3-D Cartesian grids with moved nodes); on non-planar "
        "hexahedra porepy's face centres/normals do not satisfy sum_f s x_f n_f^T = |K| I and "
        "only the matrix certificates (2), (3) are claimed there. Float rounding: certificates hold "
        "to the relative tolerance 1e-9 and the quantitative theorems carry it; the matrix certificates "
        "are additionally held to a PURELY RELATIVE 1e-9 (C15_relative_certificate, no absolute floor) "
        "and the oracle measures errors relative to the terms of each row, so grids scaled down to "
        "2^-24 and coupling coefficients down to 2^-20 are judged as strictly as unit-scale ones (the "
        "unchanged code is exact to rounding over that whole range; no restriction was needed). Scope: Dirichlet "
        "displacement condition on every boundary face (Neumann / mixed mechanical boundaries are "
        "outside the property); constant coupling coefficient, scalar or symmetric tensor "
        "(SecondOrderTensor); homogeneous isotropic stiffness. There is no assembled system in this "
        "property, hence no non-singularity hypothesis.")
    technique = ("Coq proof of method-level theorems (linearity over Q, divergence-theorem identity by "
                 "induction + ring) + certificate checkers evaluated by vm_compute on the real Biot "
                 "matrices and geometry + numpy oracle")
    rule = ("grids: CartGrid 2-D (<=3x3) and 3-D (<=2x2x2), grids MIXING triangles and quadrilaterals "
            "(public pp.Grid constructor), PRISM grids (triangle grid extruded along z: triangular and "
            "quadrilateral faces in one 3-D grid), discretised in 1, 2 or 3 subproblems (partition_arguments), "
            "StructuredTriangleGrid, "
            "StructuredTetrahedralGrid, 55% with every node moved by a dyadic offset; Lame parameters "
            "and alpha (scalar, or a symmetric tensor in half of the cases) from dyadic sets; directed small-scale "
            "streams in every run: grid scaled by 2^-10 ... 2^-24, and independently alpha scaled by 2^-6 ... 2^-20, "
            "all errors measured relative to the magnitude of the quantity; all-Dirichlet displacement boundary; linear field with small "
            "integer A, b; constant pressure; non-trivial = at least 2 cells and tr(A) != 0")
    trusted = ["rows handed to Coq = scipy hstack of the real matrices, explicit zeros dropped, converted "
               "with Fraction(float); geometry arrays likewise",
               "tolerance 1e-9 relative to 1 + sum|terms| inside the Coq checkers"]
    assumptions = ["all boundary faces Dirichlet for the displacement; constant scalar or symmetric tensor alpha; constant Lame parameters",
                   "default MPSA eta and the default (numba) block inverter"]

    def __init__(self):
        self._cache = {}
        self._stats = {"dims": {}, "kinds": {}}

    def generate(self, rng, n, tier):
        mus = [0.5, 1.0, 1.5, 2.0]
        lams = [0.5, 1.0, 2.0, 0.25]
        alphas = [1.0, 0.5, 0.75, 2.0, 0.25]
        for idx in range(n):
            # directed streams: every 4th case mixes cell types (2-D), every 6th one is a prism grid
            # (3-D, mixed face types), every 2nd one is discretised in several subproblems
            spec = grid_spec(rng, tier, force_mixed=(idx % 4 == 0), force_prism=(idx % 6 == 1))
            nd = 3 if spec["kind"] == "prism" else len(spec["n"])
            A = [[rng.randint(-3, 3) for _ in range(nd)] for _ in range(nd)]
            if rng.random() < 0.15:
                A = [[-A[j][i] if i != j else 0 for j in range(nd)] for i in range(nd)]  # rotation, div = 0
            alpha = rng.choice(alphas)
            if rng.random() < 0.5:
                # symmetric coupling tensor [xx, yy, zz, xy, xz, yz] (dyadic entries)
                alpha = [rng.choice([0.5, 1.0, 2.0, 0.75]), rng.choice([0.5, 1.0, 1.5, 0.25]),
                         rng.choice([0.5, 1.0, 2.0]), rng.choice([0.0, 0.25, -0.125]),
                         rng.choice([0.0, 0.125, -0.25]) if nd == 3 else 0.0,
                         rng.choice([0.0, -0.125, 0.25]) if nd == 3 else 0.0]
            if idx % 5 == 2 or rng.random() < 0.1:
                # directed small-scale stream: cells down to 2^-24 of the unit size
                spec["scale_exp"] = rng.choice([10, 14, 17, 20, 24])
            if idx % 5 == 3 or rng.random() < 0.1:
                # independently: tiny coupling coefficient
                fac = 2.0 ** (-rng.choice([6, 10, 14, 20]))
                alpha = [a * fac for a in alpha] if isinstance(alpha, list) else alpha * fac
            yield {"grid": spec, "mu": rng.choice(mus), "lam": rng.choice(lams),
                   "nsub": rng.choice([2, 3]) if idx % 2 == 1 else rng.choice([1, 1, 2]),
                   "alpha": alpha, "A": A, "b": [rng.randint(-3, 3) for _ in range(nd)],
                   "p": rng.randint(-8, 8) / 2.0}

    # -------------------------------------------------------------- implementation
    def _run_full(self, case):
        g = make_grid(case["grid"])
        nd, nc, nf = g.dim, g.num_cells, g.num_faces
        bf = g.get_all_boundary_faces()
        bc = pp.BoundaryConditionVectorial(g, bf, ["dir"] * bf.size)
        C = pp.FourthOrderTensor(float(case["mu"]) * np.ones(nc), float(case["lam"]) * np.ones(nc))
        if isinstance(case["alpha"], (list, tuple)):
            xx, yy, zz, xy, xz, yz = [float(v) * np.ones(nc) for v in case["alpha"]]
            alpha = pp.SecondOrderTensor(kxx=xx, kyy=yy, kzz=zz, kxy=xy, kxz=xz, kyz=yz)
            amat = alpha.values[:, :, 0]
        else:
            alpha = float(case["alpha"])
            amat = alpha * np.eye(3)
        params = {"fourth_order_tensor": C, "bc": bc, "scalar_vector_mappings": {FLOW: alpha}}
        if case.get("nsub", 1) > 1:
            # split the discretisation into several subproblems (glued by Biot.discretize)
            params["partition_arguments"] = {"num_subproblems": int(min(case["nsub"], nc))}
        data = pp.initialize_data(g, {}, KW, params)
        discr = pp.Biot(KW)
        discr.discretize(g, data)
        m = data[pp.DISCRETIZATION_MATRICES][KW]
        dd = m[discr.displacement_divergence_matrix_key][FLOW]
        bdd = m[discr.bound_displacement_divergence_matrix_key][FLOW]
        sg = m[discr.scalar_gradient_matrix_key][FLOW]
        if dd.shape != (nc, nd * nc) or bdd.shape != (nc, nd * nf) or sg.shape != (nd * nf, nc):
            raise RuntimeError(f"unexpected shapes {dd.shape} {bdd.shape} {sg.shape}")
        isb = np.zeros(nf, dtype=bool)
        isb[bf] = True
        return {"nd": nd, "nc": nc, "nf": nf,
                "alpha": [[float(amat[i, j]) for j in range(3)] for i in range(3)],
                "cc": [[float(x) for x in g.cell_centers[:nd, c]] for c in range(nc)],
                "fc": [[float(x) for x in g.face_centers[:nd, f]] for f in range(nf)],
                "normals": [[float(x) for x in g.face_normals[:nd, f]] for f in range(nf)],
                "vols": [float(v) for v in g.cell_volumes],
                "inc": rows_of(sps.csr_matrix(g.cell_faces.T)),
                "bnd": [bool(x) for x in isb],
                # non-planar faces (moved nodes of a hexahedral grid): the first-moment identity
                # sum_f s x_f n_f^T = |K| I is not expected of face centres / normals there
                "planar": not (nd == 3 and case["grid"]["kind"] == "cart" and bool(case["grid"].get("pert"))),
                "drows": rows_of(sps.hstack([dd, bdd])), "grows": rows_of(sg)}

    def run_impl(self, case):
        full = self._run_full(case)
        if len(self._cache) > 400:      # bounded (the driver's search loop may run thousands of cases)
            self._cache.clear()
        self._cache[json.dumps(case, sort_keys=True)] = full
        blob = json.dumps(full, sort_keys=True).encode()
        return {"nd": full["nd"], "nc": full["nc"], "nf": full["nf"],
                "nnz": {k: int(sum(len(r) for r in full[k])) for k in ("drows", "grows")},
                "digest": hashlib.sha1(blob).hexdigest()[:16]}

    def _full(self, case):
        key = json.dumps(case, sort_keys=True)
        if key not in self._cache:
            self._cache[key] = self._run_full(case)
        return self._cache[key]

    # -------------------------------------------------------------- oracle
    @staticmethod
    def _dense(rows, ncols):
        a = np.zeros((len(rows), ncols))
        for i, r in enumerate(rows):
            for c, v in r:
                a[i, c] += v
        return a

    def oracle(self, case, res):
        full = self._full(case)
        nd, nc, nf = full["nd"], full["nc"], full["nf"]
        A = np.array(case["A"], dtype=float)
        b = np.array(case["b"], dtype=float)
        alpha = np.array(full["alpha"])[:nd, :nd]
        cc = np.array(full["cc"]).T
        fc = np.array(full["fc"]).T
        nrm = np.array(full["normals"]).T
        vols = np.array(full["vols"])
        isb = np.array(full["bnd"])
        D = self._dense(full["drows"], nd * nc + nd * nf)
        G = self._dense(full["grows"], nc)
        uc = (A @ cc + b[:, None]).ravel("F")
        ub = (A @ fc + b[:, None]) * isb[None, :]
        val = D @ np.hstack([uc, ub.ravel("F")])
        exact = float(np.sum(alpha * A)) * vols
        # error relative to the magnitude of the terms of each row and of the expected value (no
        # absolute floor: micrometre cells / tiny alpha are held to the same relative accuracy)
        uvec = np.hstack([uc, ub.ravel("F")])
        scale = np.abs(D) @ np.abs(uvec) + np.abs(exact)
        bad = np.abs(val - exact) > 1e-8 * scale
        if bad.any():
            c = int(np.argmax(np.abs(val - exact) / np.where(scale > 0, scale, 1.0)))
            return (f"displacement divergence of u = A x + b (A={A.tolist()}, b={b.tolist()}) in cell {c}: "
                    f"{val[c]:.12g}, expected (alpha:A)*|K| = {exact[c]:.12g}")
        p = float(case["p"])
        gp = G @ (p * np.ones(nc))
        ex = -p * (alpha @ nrm).ravel("F")
        gscale = np.abs(G) @ (abs(p) * np.ones(nc)) + np.abs(ex)
        # a component whose exact value is 0 (e.g. the z-component on a vertical prism face) may
        # carry rounding noise of the size of the face's other components: measure it relative to
        # the magnitude of the expected force vector of ITS face as well (rows are face-major);
        # still no absolute floor.  Same rule as face_mag in coq/Model/C15.v.
        gscale = gscale + np.repeat(np.abs(ex).reshape(-1, nd).sum(axis=1), nd)
        gbad = np.abs(gp - ex) > 1e-8 * gscale
        if gbad.any():
            q = int(np.argmax(np.abs(gp - ex) / np.where(gscale > 0, gscale, 1.0)))
            return (f"scalar gradient of constant pressure {p} on face {q // nd} component {q % nd}: "
                    f"{gp[q]:.12g}, expected -p*(alpha n) = {ex[q]:.12g}")
        return None

    # -------------------------------------------------------------- tie
    def _inst(self, case, full):
        rows = lambda rs: clist(rs, crow)
        vl = lambda vs: clist(vs, lambda v: clist(v, cq))
        return ("(mk_inst {} {} {} {} {} {} {} {} {} {} {} {} {})".format(
            cn(full["nd"]), cn(full["nc"]), cn(full["nf"]), vl(full["alpha"]),
            vl(full["cc"]), vl(full["fc"]), vl(full["normals"]), clist(full["vols"], cq),
            rows(full["inc"]), clist(full["bnd"], cbool), cbool(full["planar"]), rows(full["drows"]), rows(full["grows"])))

    def coq_case(self, case, res):
        return f"check {TOL} {self._inst(case, self._full(case))}"

    def coq_diag(self, case, res):
        return f"check_diag {TOL} {self._inst(case, self._full(case))}"

    def nontrivial(self, case, res):
        self._stats["dims"][str(res["nd"])] = self._stats["dims"].get(str(res["nd"]), 0) + 1
        k = case["grid"]["kind"] + ("+pert" if case["grid"].get("pert") else "")
        self._stats["multi_subproblem"] = self._stats.get("multi_subproblem", 0) + int(case.get("nsub", 1) > 1)
        self._stats["small_scale_grid"] = self._stats.get("small_scale_grid", 0) + int(bool(case["grid"].get("scale_exp")))
        self._stats["alpha_tensor"] = self._stats.get("alpha_tensor", 0) + int(isinstance(case["alpha"], list))
        self._stats["nonplanar_geometry_skipped"] = (self._stats.get("nonplanar_geometry_skipped", 0)
                                                     + int(not self._full(case)["planar"]))
        self._stats["kinds"][k] = self._stats["kinds"].get(k, 0) + 1
        return res["nc"] >= 2 and sum(case["A"][i][i] for i in range(res["nd"])) != 0

    def extra_evidence(self):
        return {"instances": self._stats}

    def finding_key(self, case, res, why):
        return "divergence-inconsistent" if "divergence" in why else "scalar-gradient-inconsistent"

    def shrink(self, case, still_fails):
        for n in ([1, 1], [2, 1]) if len(case["grid"]["n"]) == 2 else ([1, 1, 1],):
            c = dict(case, grid={"kind": case["grid"]["kind"], "n": n})
            try:
                if still_fails(c):
                    return c
            except Exception:
                pass
        return case


PROP = C15()
