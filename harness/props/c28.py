"""C28 — segments_2d / segments_3d against exact rational intersection."""
import itertools
import warnings
from fractions import Fraction as F

import numpy as np

from harness.core import Prop, cq, clist

from porepy.geometry.intersections import segments_2d, segments_3d

import logging
# segments_2d logs an error before raising its ValueError (in-band large-tolerance cases)
logging.getLogger("porepy.geometry.intersections").setLevel(logging.CRITICAL)

KEY_PROJ = "segments_3d: projected discriminant zero for non-parallel lines"
KEY_TOUCH = "segments_3d: collinear touching returns two identical columns"


# ------------------------------------------------------------------ exact oracle
def _cross(u, v, i, j):
    return u[i] * v[j] - u[j] * v[i]


def exact_isect(a, b, c, d):
    """Exact intersection of the closed segments ab and cd (any dimension, a != b, c != d).
    ('none',) | ('pt', p) | ('seg', p, q) with p < q lexicographically."""
    n = len(a)
    a, b, c, d = ([F(x) for x in p] for p in (a, b, c, d))
    d1 = [b[i] - a[i] for i in range(n)]
    d2 = [d[i] - c[i] for i in range(n)]
    ds = [c[i] - a[i] for i in range(n)]
    pairs = list(itertools.combinations(range(n), 2))
    if all(_cross(d1, d2, i, j) == 0 for i, j in pairs):
        if not all(_cross(ds, d1, i, j) == 0 for i, j in pairs):
            return ("none",)
        k = max(range(n), key=lambda i: abs(d1[i]))
        ts = (c[k] - a[k]) / d1[k]
        te = (d[k] - a[k]) / d1[k]
        lo, hi = max(min(ts, te), 0), min(max(ts, te), 1)
        if lo > hi:
            return ("none",)
        p = tuple(a[i] + lo * d1[i] for i in range(n))
        q = tuple(a[i] + hi * d1[i] for i in range(n))
        if lo == hi:
            return ("pt", p)
        return ("seg",) + tuple(sorted([p, q]))
    for i, j in pairs:
        D = _cross(d1, d2, i, j)
        if D != 0:
            t1 = (ds[j] * d2[i] - ds[i] * d2[j]) / (-D)
            t2 = (d1[i] * ds[j] - d1[j] * ds[i]) / (-D)
            break
    p = tuple(a[i] + t1 * d1[i] for i in range(n))
    q = tuple(c[i] + t2 * d2[i] for i in range(n))
    if p != q or not (0 <= t1 <= 1 and 0 <= t2 <= 1):
        return ("none",)
    return ("pt", p)


def _proj_discr_3d(a, b, c, d):
    """The discriminant segments_3d looks at (exact, integer inputs: masks = nonzero)."""
    d1 = [b[i] - a[i] for i in range(3)]
    d2 = [d[i] - c[i] for i in range(3)]
    m = [d1[i] != 0 or d2[i] != 0 for i in range(3)]
    if sum(m) > 1:
        i, j = (0, 1) if (m[0] and m[1]) else ((0, 2) if (m[0] and m[2]) else (1, 2))
    else:
        i, j = 0, 1
    return d1[i] * d2[j] - d1[j] * d2[i]


def _near(exact_pt, col):
    return all(abs(float(x) - y) <= 1e-9 * (1 + abs(float(x))) for x, y in zip(exact_pt, col))


def compare(ex, res):
    """None if the implementation's answer is the exact intersection, else a label."""
    if res["kind"] == "err":
        return "raised " + res["err"]
    if ex[0] == "none":
        return None if res["kind"] == "none" else "spurious"
    if res["kind"] == "none":
        return "missed"
    cols = res["cols"]
    if ex[0] == "pt":
        if len(cols) == 1:
            return None if _near(ex[1], cols[0]) else "wrong-point"
        return "point-as-two-columns" if all(_near(ex[1], cl) for cl in cols) else "wrong-columns"
    if len(cols) != 2:
        return "segment-as-point"
    s = sorted(cols)
    return None if all(_near(e, cl) for e, cl in zip(ex[1:], s)) else "wrong-segment"


# ------------------------------------------------------------------ Coq literals
def _pt(p):
    if len(p) == 2:
        return f"({cq(p[0])}, {cq(p[1])})"
    return clist(p, cq)


def _res(res, dim):
    k = res["kind"]
    if dim == 2:
        if k == "none":
            return "R2None"
        if k == "err":
            return f"(R2Err {res['err']})"
        cols = res["cols"]
        if len(cols) == 1:
            return f"(R2Pt {_pt(cols[0])})"
        return f"(R2Seg {_pt(cols[0])} {_pt(cols[1])})"
    if k == "none":
        return "R3None"
    if k == "err":
        return f"(R3Err {res['err']})"
    return f"(R3Cols {clist(res['cols'], _pt)})"


class C28(Prop):
    id = "C28"
    props_file = "Props/C28.v"
    preamble = ("From Coq Require Import List QArith.\nImport ListNotations.\n"
                "From PP Require Import Model.C28.\nOpen Scope Q_scope.\n")
    n_cases = (2400, 40000)
    design_ref = "DESIGN.md §5 C28"
    level_text = (
        "Coq theorems over an executable Q-transcription of segments_2d/segments_3d "
        "(tolerance tests with norms in squared form; equivalence to the sqrt form proved "
        "over R).  2-D: C28_2d_correct — for integer endpoints with |coord| <= 1000 and "
        "tol = 1e-8 the model returns exactly seg1 ∩ seg2 (None iff disjoint, one point iff "
        "the intersection is that point, two distinct points iff it is that segment) and "
        "never raises; C28_2d_correct_separated — the same for arbitrary rational "
        "endpoints whenever the decidable guard `separated` (every tolerance test agrees "
        "with its exact counterpart) holds; C28_2d_symmetric — independence of argument "
        "order.  3-D: full correctness is REFUTED on the faithful model (witnesses for the "
        "two open findings); proved instead: the point branch returns exactly seg1 ∩ seg2 "
        "under the decidable guard sep3 (any rationals) and, for integer endpoints with "
        "|coord| <= 1000, whenever the projected discriminant is non-zero "
        "(C28_3d_point_branch_correct[_int]_partial); on the finite box {-1,0,1}^3 the whole "
        "function equals an exact reference intersection outside EXACTLY the two open defect "
        "families (C28_3d_box_partial, exhaustive vm_compute over 27^4 quadruples); parallel "
        "lines that are not the same line give None, exactly (any rationals, "
        "C28_3d_parallel_offline_correct_partial); a returned single point always lies on "
        "segment 1 and within tol of segment 2.  The model is tied "
        "to /repo on every run: Coq recomputes both functions on every generated segment pair "
        "and compares classification, points (1e-9) and raised errors with the "
        "implementation's output — including runs with large non-default tolerances and "
        "quarter-integer coordinates, where the tolerance tests themselves decide.")
    level_note = (
        "Trusted: Coq kernel + vm_compute; harness generator/emitter; floats are converted "
        "exactly to Q and compared within 1e-9*(1+|x|) inside Coq; floating-point rounding "
        "is not covered by a theorem (integer inputs keep it ~1e-15, far from every "
        "tolerance band); tol = 1e-8 is taken as the rational 1/10^8; the reference of the "
        "3-D box theorem (isect3_ref) is an exact rational routine written in Coq, not the "
        "Prop-level spec.  NOT proved: 3-D completeness (false: open findings); the 3-D "
        "parallel branch beyond the box {-1,0,1}^3; behaviour inside the tolerance bands.")
    technique = ("Coq proof (exact-arithmetic correctness of the transcribed algorithm, nsatz/nra/"
                 "field over Q; integer-separation lemmas) + vm_compute execution correspondence")
    rule = ("14% of the cases: a random tolerance in [0.003, 0.6] with coordinates scaled by 1, "
            "1/2 or 1/4 (in-band behaviour, tie only); otherwise "
            "integer segment pairs: uniform samples from {-2..2}^2 / {-2..2}^3 and larger "
            "boxes, plus directed streams (crossings through rational points, T-junctions, "
            "collinear overlap/containment/touching, shared endpoints, parallel "
            "non-collinear, 3-D lines whose xy-projection is degenerate, zero-length "
            "segments as error inputs); non-trivial = the exact intersection is non-empty or "
            "the lines are parallel; distinct by (case, output)")
    trusted = ["squared-form tolerance tests stand for the sqrt forms (equivalence proved in "
               "Proofs/C28_sqrt.v over R for tol >= 0)",
               "np.argsort on the four parameters is modelled as a stable sort; ties only "
               "occur between identical points, so the returned columns do not depend on it"]
    assumptions = ["integer coordinates (|coord| <= 1000 in the theorem; <= 40 in the tie); the "
                   "exact-intersection oracle is silent for the large-tolerance cases",
                   "segments of non-zero length (zero length: the raised error is modelled "
                   "and tied, not part of the property)"]

    def __init__(self):
        self.stats = {}

    # -------------------------------------------------------------- generation
    def _rand_pt(self, rng, dim, box):
        return [rng.randint(-box, box) for _ in range(dim)]

    def _directed(self, rng, dim, box):
        """One 'interesting' configuration."""
        kind = rng.choice(["cross", "tee", "collinear", "collinear", "shared", "parallel",
                           "contain", "touch"] + (["projdeg", "projdeg"] if dim == 3 else []))
        for _ in range(50):
            a = self._rand_pt(rng, dim, box)
            v = self._rand_pt(rng, dim, max(1, box // 2))
            if not any(v):
                continue
            if kind in ("collinear", "contain", "touch", "parallel"):
                if kind == "contain":
                    ks = sorted(rng.sample(range(-3, 4), 4))
                    ia, ib, ic, id_ = ks[0], ks[3], ks[1], ks[2]
                elif kind == "touch":
                    ks = sorted(rng.sample(range(-3, 4), 3))
                    ia, ib, ic, id_ = ks[0], ks[1], ks[1], ks[2]
                else:
                    ia, ib = rng.sample(range(-3, 4), 2)
                    ic, id_ = rng.sample(range(-3, 4), 2)
                pts = [[a[i] + k * v[i] for i in range(dim)] for k in (ia, ib, ic, id_)]
                if kind == "parallel":
                    w = self._rand_pt(rng, dim, 2)
                    pts[2] = [x + y for x, y in zip(pts[2], w)]
                    pts[3] = [x + y for x, y in zip(pts[3], w)]
                if rng.random() < 0.5:
                    pts = [pts[2], pts[3], pts[0], pts[1]]
                if rng.random() < 0.5:
                    pts[0], pts[1] = pts[1], pts[0]
                return pts
            b = [a[i] + rng.choice([1, 2, 3, 4]) * v[i] for i in range(dim)]
            if kind == "shared":
                c = list(rng.choice([a, b]))
                d = self._rand_pt(rng, dim, box)
                if d == c:
                    continue
                pts = [a, b, c, d]
            elif kind == "tee":
                k = rng.randint(0, 4)
                c = [a[i] + (b[i] - a[i]) * k // 4 for i in range(dim)]
                if any((b[i] - a[i]) * k % 4 for i in range(dim)):
                    c = list(a)
                d = self._rand_pt(rng, dim, box)
                if d == c:
                    continue
                pts = [a, b, c, d]
            elif kind == "projdeg":
                # a second line through a point of ab whose xy-shadow is parallel to ab's
                # (or a point): the projection segments_3d picks is degenerate
                p = [a[i] + (b[i] - a[i]) // 2 * 1 for i in range(dim)] \
                    if all((b[i] - a[i]) % 2 == 0 for i in range(dim)) else list(a)
                m = rng.choice([0, 1, 2])
                w = [(b[0] - a[0]) * m, (b[1] - a[1]) * m, rng.choice([-2, -1, 1, 2, 3])]
                if rng.random() < 0.3:
                    w = w[1:] + w[:1]
                    p = list(p)
                k1, k2 = rng.choice([(-1, 1), (0, 1), (-1, 2), (1, 2), (-2, -1)])
                c = [p[i] + k1 * w[i] for i in range(3)]
                d = [p[i] + k2 * w[i] for i in range(3)]
                if c == d:
                    continue
                pts = [a, b, c, d]
            else:  # cross: through a rational point of ab
                k = rng.randint(0, 4)
                w = self._rand_pt(rng, dim, max(1, box // 2))
                if not any(w):
                    continue
                m1, m2 = rng.choice([(1, 1), (1, 3), (2, 2), (0, 4), (4, 0), (3, 1), (-1, 5)])
                # c = p - m1*w/4*..., keep integers: p = a + k/4 (b-a) scaled by 4
                c = [4 * a[i] + k * (b[i] - a[i]) - m1 * 4 * w[i] for i in range(dim)]
                d = [4 * a[i] + k * (b[i] - a[i]) + m2 * 4 * w[i] for i in range(dim)]
                a4 = [4 * x for x in a]
                b4 = [4 * x for x in b]
                if c == d:
                    continue
                pts = [a4, b4, c, d]
            if rng.random() < 0.5:
                pts = [pts[2], pts[3], pts[0], pts[1]]
            return pts
        return [[0] * dim, [1] * dim, [0] * dim, [2] * dim]

    def generate(self, rng, n, tier):
        # fixed corner cases first
        fixed = [
            (2, [[0, 0], [1, 1], [0, 1], [1, 0]]),
            (2, [[0, 0], [1, 1], [0, 0], [2, 2]]),
            (2, [[0, 0], [1, 0], [0, 1], [1, 1]]),
            (2, [[0, 0], [0, 0], [0, 1], [1, 1]]),          # zero length: AssertionError
            (2, [[0, 0], [1, 1], [2, 2], [2, 2]]),
            (2, [[0, 0], [0, 0], [0, 0], [0, 0]]),
            (2, [[0, 0], [0, 2], [0, 2], [0, 5]]),          # touching, vertical (y-axis params)
            (2, [[0, 0], [0, 2], [0, 3], [0, 5]]),
            (3, [[0, 0, 0], [2, 2, 0], [0, 0, -1], [2, 2, 1]]),
            (3, [[0, 0, 0], [2, 2, 2], [0, 0, -1], [2, 2, 3]]),
            (3, [[0, 0, 0], [1, 1, 1], [1, 1, 1], [2, 2, 2]]),
            (3, [[0, 0, 0], [0, 0, 0], [0, 0, 0], [0, 0, 0]]),  # IndexError
            (3, [[1, 0, 1], [1, 0, 1], [0, 0, 1], [0, 0, 1]]),
            (3, [[0, 0, 0], [0, 0, 2], [0, 0, 1], [0, 0, 3]]),
            (3, [[0, 0, 0], [0, 0, 2], [0, 1, 1], [0, -1, 1]]),
        ]
        for dim, pts in fixed:
            yield {"dim": dim, "pts": pts}
        n -= len(fixed)
        big = 6 if tier == "quick" else 40
        for k in range(n):
            dim = 2 if rng.random() < 0.62 else 3
            r = rng.random()
            if r < 0.45:
                pts = [self._rand_pt(rng, dim, 2) for _ in range(4)]
            elif r < 0.55:
                pts = [self._rand_pt(rng, dim, big) for _ in range(4)]
            elif r < 0.57:
                pts = [self._rand_pt(rng, dim, 1) for _ in range(4)]
                if rng.random() < 0.5:
                    pts[1] = list(pts[0])            # zero-length error input
            else:
                pts = self._directed(rng, dim, 2 if rng.random() < 0.7 else big)
            if rng.random() < 0.14:
                # a large, non-default tolerance with quarter-integer coordinates: the
                # tolerance tests themselves decide (tie only; the oracle is silent in-band)
                tol = round(rng.uniform(0.003, 0.6), 4)
                sc = rng.choice([1, 0.5, 0.25, 0.25])
                yield {"dim": dim, "pts": [[x * sc for x in p] for p in pts], "tol": tol}
            else:
                yield {"dim": dim, "pts": pts}

    # -------------------------------------------------------------- implementation
    def run_impl(self, case):
        fn = segments_2d if case["dim"] == 2 else segments_3d
        a, b, c, d = (np.array(p, dtype=float) for p in case["pts"])
        with warnings.catch_warnings():
            warnings.simplefilter("ignore")
            with np.errstate(all="ignore"):
                try:
                    r = fn(a, b, c, d, case.get("tol", 1e-8))
                except AssertionError:
                    return {"kind": "err", "err": "AssertErr"}
                except ValueError:
                    return {"kind": "err", "err": "ValueErr"}
                except IndexError:
                    return {"kind": "err", "err": "IndexErr"}
        if r is None:
            return {"kind": "none"}
        r = np.asarray(r, dtype=float)
        assert r.ndim == 2 and r.shape[0] == case["dim"] and r.shape[1] in (1, 2), r.shape
        return {"kind": "cols", "cols": [[float(x) for x in r[:, k]] for k in range(r.shape[1])]}

    # -------------------------------------------------------------- oracle
    def _degenerate(self, case):
        a, b, c, d = case["pts"]
        return a == b or c == d

    def oracle(self, case, res):
        if self._degenerate(case):
            self.stats["zero-length"] = self.stats.get("zero-length", 0) + 1
            return None
        if "tol" in case:
            k = f"{case['dim']}d-large-tol-{res['kind']}"
            self.stats[k] = self.stats.get(k, 0) + 1
            return None
        ex = exact_isect(*case["pts"])
        k = f"{case['dim']}d-{ex[0]}"
        self.stats[k] = self.stats.get(k, 0) + 1
        bad = compare(ex, res)
        if bad is None:
            # independence of argument order (same classification, same point set)
            a, b, c, d = case["pts"]
            for perm in ([c, d, a, b], [b, a, c, d], [a, b, d, c]):
                r2 = self.run_impl({"dim": case["dim"], "pts": perm})
                bad2 = compare(ex, r2)
                if bad2 is not None:
                    return f"argument order {perm}: {bad2}: exact {ex}, got {r2}"
            return None
        return f"{bad}: exact intersection {ex}, implementation returned {res}"

    def finding_key(self, case, res, why):
        if case["dim"] == 3 and not self._degenerate(case):
            pts = case["pts"]
            if "argument order" in why:
                import ast
                pts = ast.literal_eval(why.split("argument order ")[1].split(": ")[0])
            ex = exact_isect(*pts)
            if ": missed:" in ": " + why and ex[0] == "pt" and _proj_discr_3d(*pts) == 0:
                return KEY_PROJ
            if "point-as-two-columns" in why and ex[0] == "pt":
                return KEY_TOUCH
        return "unclassified: " + why.split(":")[0]

    # -------------------------------------------------------------- tie
    def coq_case(self, case, res):
        dim = case["dim"]
        pts = " ".join(_pt(p) for p in case["pts"])
        tol = cq(case["tol"]) if "tol" in case else "tol8"
        if dim == 2:
            return f"agree2 {_res(res, 2)} (seg2d {tol} {pts})"
        return f"agree3 {_res(res, 3)} (seg3d {tol} {pts})"

    def coq_diag(self, case, res):
        pts = " ".join(_pt(p) for p in case["pts"])
        tol = cq(case["tol"]) if "tol" in case else "tol8"
        return f"seg2d {tol} {pts}" if case["dim"] == 2 else f"seg3d {tol} {pts}"

    def nontrivial(self, case, res):
        if self._degenerate(case):
            return False
        if "tol" in case:
            return True
        a, b, c, d = case["pts"]
        n = case["dim"]
        d1 = [b[i] - a[i] for i in range(n)]
        d2 = [d[i] - c[i] for i in range(n)]
        par = all(_cross(d1, d2, i, j) == 0 for i, j in itertools.combinations(range(n), 2))
        return par or res["kind"] != "none"

    def shrink(self, case, still_fails):
        # translate towards the origin / halve coordinates while the failure persists
        cur = case
        for _ in range(20):
            pts = cur["pts"]
            cands = []
            a = pts[0]
            cands.append([[x - y for x, y in zip(p, a)] for p in pts])
            if all(x % 2 == 0 for p in pts for x in p):
                cands.append([[x // 2 for x in p] for p in pts])
            for c in cands:
                cc = dict(cur, pts=c)
                if c != pts and still_fails(cc):
                    cur = cc
                    break
            else:
                break
        return cur

    def extra_evidence(self):
        return {"exact_class_distribution": dict(sorted(self.stats.items()))}


PROP = C28()
