"""C24 — the mixed-dimensional grid container (pp.MixedDimensionalGrid) under any history."""
import numpy as np

from harness.core import Prop

import porepy as pp
from porepy.grids.mortar_grid import MortarSides

ERR = {KeyError: "KeyErr", ValueError: "ValueErr", AssertionError: "AssertErr",
       IndexError: "IndexErr"}


# ------------------------------------------------------------------------------------
# tiny real grids
# ------------------------------------------------------------------------------------
_TEMPLATES = {}


def _template(dim):
    if dim not in _TEMPLATES:
        g = pp.PointGrid(np.zeros(3)) if dim == 0 else pp.CartGrid(np.array([1] * dim))
        g.compute_geometry()
        _TEMPLATES[dim] = g
    return _TEMPLATES[dim]


def _new_grid(dim):
    """A fresh grid object (new id from the global pp.Grid counter) with geometry."""
    if dim == 0:
        g = pp.PointGrid(np.zeros(3))
        g.compute_geometry()
        return g
    g = _template(dim).copy()
    assert g.dim == dim and hasattr(g, "face_centers") and "domain_boundary_faces" in g.tags
    return g


def _as_form(lst, form):
    """The same grids handed over as different kinds of iterable (6 forms)."""
    form %= 6
    if form == 0:
        return list(lst)
    if form == 1:
        return tuple(lst)
    if form == 2:
        return (g for g in lst)              # generator expression (one shot)
    if form == 3:
        return iter(list(lst))               # list iterator (one shot)
    if form == 4:
        return map(lambda g: g, lst)         # map object (one shot)
    return {id(g): g for g in lst}.values()  # dict view


def _new_mortar(dim, codim=1):
    return pp.MortarGrid(dim, {MortarSides.LEFT_SIDE: _template(dim)}, codim=codim)


# ------------------------------------------------------------------------------------
# Coq literals
# ------------------------------------------------------------------------------------
def _l(items, f=lambda x: x):
    """list literal with :: (the [a; b] notation is much slower to elaborate)"""
    return "(" + "".join(f(i) + " :: " for i in items) + "nil)"


def _g(g):
    return f"(G {int(g[0])} {int(g[1])})"


def _gl(l):
    return _l(l, _g)


def _resl(r):
    return f"(OkL {_gl(r[1])})" if r[0] == "ok" else f"(ErrL {r[1]})"


def _resp(r):
    return f"(OkP {_g(r[1][0])} {_g(r[1][1])})" if r[0] == "ok" else f"(ErrP {r[1]})"


def _resg(r):
    return f"(OkG {_g(r[1])})" if r[0] == "ok" else f"(ErrG {r[1]})"


def _pair(p):
    return f"(PP2 {_g(p[0])} {_g(p[1])})"


def _op(o):
    k = o[0]
    if k == "add":
        return f"AddSd {_gl(o[1])}"
    if k == "intf":
        return f"AddIntf {_g(o[1])} {_g(o[2])} {_g(o[3])}"
    if k == "rm":
        return f"RemoveSd {_g(o[1])}"
    if k == "rep":
        return f"Replace {_l(o[1], _pair)} {_l(o[2], _pair)}"
    raise ValueError(k)


def _obs(x):
    out = "Done" if x["out"] == "done" else f"(Raised {x['out']})"
    parts = [
        out, _gl(x["sds"]), _gl(x["intfs"]),
        _l(x["i2s"], lambda kv: f"KP {_g(kv[0])} {_g(kv[1][0])} {_g(kv[1][1])}"),
        _l(x["s2b"], lambda kv: f"KB {_g(kv[0])} {_g(kv[1])}"),
        _gl(x["bgs"]),
        _resl(x["subdomains"]), _resl(x["interfaces"]),
        _l(x["sub_dim"], lambda p: f"DR {p[0]} {_resl(p[1])}"),
        _l(x["int_dim"], lambda p: f"DR {p[0]} {_resl(p[1])}"),
        _l(x["pairs"], lambda p: f"PR {_g(p[0])} {_resp(p[1])}"),
        _l(x["back"], lambda p: f"BK {_g(p[0])} {_g(p[1])} {_resg(p[2])}"),
        _l(x["sd_intfs"], lambda p: f"SI {_g(p[0])} {_resl(p[1])}"),
        _l(x["sd_bg"], lambda p: f"SB {_g(p[0])} "
                                 + ("NoG" if p[1] is None else f"(SomeG {_g(p[1])})")),
        _resl(x["bounds"]),
        _l(x["bounds_dim"], lambda p: f"DR {p[0]} {_resl(p[1])}"),
        _l(x["int_cd"], lambda p: "CD " + ("None" if p[0] is None else f"(Some {p[0]})")
                                  + f" {p[1]} {_resl(p[2])}"),
        _l(x["neigh"], lambda p: f"NB {_g(p[0])} {'true' if p[1] else 'false'} "
                                 f"{'true' if p[2] else 'false'} {_resl(p[3])}"),
        _l(x["argsort"], lambda p: f"AS {_gl(p[0])} {_resl(p[1])}"),
    ]
    return "(mkobs " + " ".join(parts) + ")"


# ------------------------------------------------------------------------------------
# independent bookkeeping used by generator and oracle: which grids SHOULD be present
# ------------------------------------------------------------------------------------
class Spec:
    def __init__(self):
        self.S = []          # present subdomains (gid tuples)
        self.I = {}          # interface gid -> (a, b) as given

    def classify(self, o):
        """'ok' (well-formed), 'rej' (must be rejected cleanly) or 'out' (outside the
        property's domain: no demand from here on)."""
        k = o[0]
        S, I = self.S, self.I
        if k == "add":
            l = [tuple(g) for g in o[1]]
            if any(g in S for g in l) or len(set(l)) != len(l):
                return "rej"
            return "ok"
        if k == "intf":
            i, a, b = tuple(o[1]), tuple(o[2]), tuple(o[3])
            if i in I:
                return "rej"
            if abs(a[0] - b[0]) >= 3:
                return "rej"
            if a not in S or b not in S:
                return "out"
            if i[0] > min(a[0], b[0]):
                return "out"
            if any(set(p) == {a, b} for p in I.values()):
                return "out"
            return "ok"
        if k == "rm":
            return "ok" if tuple(o[1]) in S else "rej"
        if k == "rep":
            sm = [(tuple(a), tuple(b)) for a, b in o[2]]
            if sm and sm[0][0] not in S:
                return "rej"
            cur = list(S)
            for old, new in sm:
                if old not in cur or new in cur or new[0] != old[0]:
                    return "out"
                cur = [g for g in cur if g != old] + [new]
            return "ok"
        raise ValueError(k)

    def apply(self, o):
        k = o[0]
        if k == "add":
            self.S += [tuple(g) for g in o[1]]
        elif k == "intf":
            self.I[tuple(o[1])] = (tuple(o[2]), tuple(o[3]))
        elif k == "rm":
            s = tuple(o[1])
            self.S = [g for g in self.S if g != s]
            self.I = {i: p for i, p in self.I.items() if s not in p}
        elif k == "rep":
            for old, new in o[2]:
                old, new = tuple(old), tuple(new)
                self.S = [g for g in self.S if g != old] + [new]
                self.I = {i: tuple(new if g == old else g for g in p)
                          for i, p in self.I.items()}


def _key(g):
    return (-g[0], g[1])


class C24(Prop):
    id = "C24"
    props_file = "Props/C24.v"
    preamble = ("From Coq Require Import List.\nImport ListNotations.\n"
                "From PP Require Import Model.C24 Model.C24_data.\n")
    n_cases = (200, 2400)
    design_ref = "DESIGN.md §5 C24"
    level_text = (
        "Coq theorems over an executable transcription of MixedDimensionalGrid's five "
        "dictionaries and of add_subdomains / add_interface / remove_subdomain / "
        "replace_subdomains_and_interfaces / argsort_grids and the query methods: for EVERY "
        "history (any length) whose calls are either well-formed or of a kind the code must "
        "reject, no well-formed call raises, rejected calls raise and leave the container "
        "untouched, and after the history subdomains()/interfaces() (with dim and codim "
        "filters) and boundaries() list exactly the grids that should be present, once each, "
        "by decreasing dimension then creation id; every interface (also one coupling a "
        "subdomain with itself) maps to its (higher, lower / smaller-id) pair and both orders "
        "of the pair map back to it; subdomain_to_interfaces and neighboring_subdomains are "
        "exact; every positive-dimensional subdomain has exactly one boundary grid of its own, "
        "0-d ones none, no orphans; remove_subdomain deletes exactly the subdomain, its "
        "interfaces and its boundary grid; every present subdomain/interface has a data "
        "dictionary of its own and replacement hands the old grid's dictionaries on to the new "
        "grid. The model is tied to the code on every run by executing both on random "
        "histories (well-formed, rejected and ill-formed calls) and letting Coq compare the "
        "outcome of every call and, on every third (long histories: fifth) call, after errors and at the end, the raw "
        "dictionaries (key order), the identity of every data dictionary and all query results.")
    level_note = (
        "Well-formed means: added grids are new and distinct; an interface is new, joins two "
        "present subdomains (possibly the same one) not yet joined, its dimension does not "
        "exceed either neighbour's, co-dimension <= 2; removed/replaced subdomains are present; "
        "a replacement grid is new and of the same dimension. Rejected kinds: a present grid or "
        "one grid twice in add_subdomains, an existing interface, co-dimension > 2, an absent "
        "subdomain removed/replaced. Outside this (interfaces to absent subdomains or of too "
        "high dimension, a second interface between the same pair, replacement by a present "
        "or other-dimensional grid) nothing is proved; the model still transcribes the code "
        "there, error branches and partial mutations included, and the tie exercises it. "
        "boundaries() raises ValueError when all subdomains are 0-d (documented behaviour, "
        "proved as such). For boundary-grid dictionaries only the hand-over at replacement is "
        "proved (in terms of the creation number of the new boundary grid); that every "
        "boundary grid has a dictionary of its own after any history is covered by tie and "
        "oracle only. Trusted: Coq kernel + vm_compute; the harness; Python dict semantics "
        "(insertion order, identity hashing) as modelled by association lists; grid ids = "
        "creation order; dictionary identity = creation order of the dict objects. "
        "MortarGrid.update_mortar/update_primary/update_secondary (geometric projection "
        "updates, subject of C26) are replaced by no-ops during the tie. The theorems are about "
        "the model; the implementation is covered on the generated histories only.")
    technique = ("Coq proof (invariant + refinement of an abstract container by induction over "
                 "histories) + vm_compute execution correspondence")
    rule = ("random histories (<=40 ops quick, <=80 thorough) on a real "
            "pp.MixedDimensionalGrid over a pool of <=12 tiny subdomain grids (dims 0-3) and "
            "<=12 mortar grids (dims 0-2, codim attribute 0-2) created in pool order, added in "
            "random order, removed grids re-added; iterable arguments (add_subdomains, "
            "argsort_grids) rotate through list, tuple, generator, iterator, map object, dict "
            "view and bare grid; ~80% well-formed calls incl. self-coupled "
            "interfaces, the rest rejected/ill-formed calls (present grid added again, "
            "duplicates in one call, existing interface, co-dimension 3, absent neighbours, "
            "second interface on a pair, absent removal, replacement by present / "
            "other-dimensional grid, multi-entry and empty maps); queries after every call: "
            "subdomains/interfaces (rotating dim and codim filters), argsort_grids, boundaries, pair maps both "
            "ways, subdomain_to_interfaces, neighboring_subdomains (rotating flags incl. both), "
            "boundary-grid map, data-dictionary identities; non-trivial = at least one interface "
            "added and one removal or replacement carried out; distinct by (case, output)")
    trusted = ["tiny Cartesian/point grids stand for arbitrary grids (the container only reads "
               "dim, id and codim)",
               "MortarGrid.update_* replaced by no-ops from the harness while the container "
               "methods run"]
    assumptions = ["histories are sequences of calls that are well-formed or of a rejected kind "
                   "(see level_note); other ill-formed calls are outside the theorems"]

    # ------------------------------------------------------------------ generator
    def generate(self, rng, n, tier):
        maxops = 40 if tier == "quick" else 80
        for _ in range(n):
            yield self._gen_one(rng, rng.randint(1, maxops))

    def _gen_one(self, rng, nops):
        nsd = rng.randint(2, 12)
        nmg = rng.randint(1, 12)
        prof = rng.choice([[0, 1, 2, 3], [0, 1, 2, 3], [1, 2], [0, 1], [2, 3], [0, 3, 1]])
        sd_dims = [rng.choice(prof) for _ in range(nsd)]
        mg_dims = [rng.choice([0, 0, 1, 1, 2]) for _ in range(nmg)]
        mg_codims = [rng.choice([1, 1, 1, 2, 0]) for _ in range(nmg)]
        sd = lambda i: [sd_dims[i], i]
        mg = lambda i: [mg_dims[i], i]
        spec = Spec()
        unused_sd = list(range(nsd))
        rng.shuffle(unused_sd)
        unused_mg = list(range(nmg))
        rng.shuffle(unused_mg)
        p_bad = rng.choice([0.0, 0.1, 0.2, 0.35])
        ops = []
        for _ in range(nops):
            S = [list(g) for g in spec.S]
            o = None
            if rng.random() < p_bad:
                o = self._bad_op(rng, spec, sd, mg, nsd, nmg, unused_sd)
            if o is None:
                r = rng.random()
                if (r < 0.3 or len(S) < 2) and unused_sd:
                    k = min(len(unused_sd), rng.choice([1, 1, 1, 2, 3]))
                    o = ["add", [sd(unused_sd.pop()) for _ in range(k)]]
                elif r < 0.6 and unused_mg and len(S) >= 2:
                    a, b = rng.sample(S, 2)
                    if rng.random() < 0.12:
                        b = a                      # a subdomain coupled to itself
                    cands = [i for i in unused_mg if mg_dims[i] <= min(a[0], b[0])]
                    if cands and abs(a[0] - b[0]) < 3 and not any(
                            set(p) == {tuple(a), tuple(b)} for p in spec.I.values()):
                        i = rng.choice(cands)
                        unused_mg.remove(i)
                        o = ["intf", mg(i), a, b]
                elif r < 0.8 and S:
                    o = ["rm", rng.choice(S)]
                elif S:
                    sm = []
                    cur = list(S)
                    for _k in range(rng.choice([1, 1, 1, 2, 3, 0])):
                        olds = [g for g in cur if any(
                            sd_dims[j] == g[0] for j in unused_sd)]
                        if not olds:
                            break
                        old = rng.choice(olds)
                        j = next(j for j in unused_sd if sd_dims[j] == old[0])
                        unused_sd.remove(j)
                        sm.append([old, sd(j)])
                        cur = [g for g in cur if g != old] + [sd(j)]
                    im = []
                    if spec.I and unused_mg and rng.random() < 0.4:
                        i_old = rng.choice(sorted(spec.I))
                        cands = [i for i in unused_mg if mg_dims[i] == i_old[0]]
                        if cands:
                            unused_mg.remove(cands[0])
                            im.append([list(i_old), mg(cands[0])])
                    o = ["rep", im, sm]
            if o is None:
                continue
            if o[0] == "rep":      # a Python dict cannot hold one key twice
                for k in (1, 2):
                    seen, uniq = set(), []
                    for a, b in o[k]:
                        if tuple(a) not in seen:
                            seen.add(tuple(a))
                            uniq.append([a, b])
                    o[k] = uniq
            ops.append(o)
            cls = spec.classify(o)
            if cls == "ok":
                spec.apply(o)
            # grids removed from the md-grid may be added again later
            if o[0] == "rm" and cls == "ok" and rng.random() < 0.5:
                unused_sd.insert(rng.randint(0, len(unused_sd)), o[1][1])
        return {"sd_dims": sd_dims, "mg_dims": mg_dims, "mg_codims": mg_codims, "ops": ops}

    def _bad_op(self, rng, spec, sd, mg, nsd, nmg, unused_sd):
        S = [list(g) for g in spec.S]
        I = sorted(spec.I)
        kind = rng.randrange(12)
        anysd = lambda: sd(rng.randrange(nsd))
        anymg = lambda: mg(rng.randrange(nmg))
        if kind == 0 and S:                      # add a present grid (alone or in a list)
            l = [rng.choice(S)]
            if unused_sd and rng.random() < 0.5:
                l.insert(rng.randint(0, 1), sd(unused_sd[-1]))
            return ["add", l]
        if kind == 1 and unused_sd:              # duplicate inside one call
            g = sd(unused_sd.pop())
            return ["add", [g, g]]
        if kind == 2:
            return ["add", []]
        if kind == 3 and I and len(S) >= 2:      # existing interface
            a, b = rng.sample(S, 2)
            return ["intf", list(rng.choice(I)), a, b]
        if kind == 4:                            # arbitrary (co-dimension 3, absent, ...)
            return ["intf", anymg(), anysd(), anysd()]
        if kind == 5 and S:                      # self-coupled
            a = rng.choice(S)
            return ["intf", anymg(), a, a]
        if kind == 6:
            return ["rm", anysd()]
        if kind == 7:                            # replace with arbitrary grids
            sm = [[anysd(), anysd()] for _ in range(rng.choice([1, 1, 2]))]
            if len({tuple(a) for a, _ in sm}) < len(sm):
                sm = sm[:1]
            return ["rep", [], sm]
        if kind == 8 and S:                      # replacement grid of another dimension
            return ["rep", [], [[rng.choice(S), anysd()]]]
        if kind == 9 and len(S) >= 2:            # second interface between the same pair
            a, b = rng.sample(S, 2)
            return ["intf", anymg(), a, b]
        if kind == 10:
            return ["rep", [], []]
        if kind == 11 and S:
            threes = [g for g in S if g[0] == 3]
            zeros = [g for g in S if g[0] == 0]
            if threes and zeros:
                return ["intf", anymg(), rng.choice(zeros), rng.choice(threes)]
        return None

    # ------------------------------------------------------------------ implementation
    def run_impl(self, case):
        sd_dims, mg_dims = case["sd_dims"], case["mg_dims"]
        sd_pool = [_new_grid(d) for d in sd_dims]
        mg_codims = case.get("mg_codims") or [1] * len(mg_dims)
        mg_pool = [_new_mortar(d, c) for d, c in zip(mg_dims, mg_codims)]
        assert all(a.id < b.id for a, b in zip(sd_pool, sd_pool[1:]))
        assert all(a.id < b.id for a, b in zip(mg_pool, mg_pool[1:]))
        sd_of = {id(g): [sd_dims[i], i] for i, g in enumerate(sd_pool)}
        mg_of = {id(g): [mg_dims[i], i] for i, g in enumerate(mg_pool)}
        # BoundaryGrid ids come from a class-wide counter; number them from 0 per case
        bg_base = next(pp.BoundaryGrid._counter) + 1

        def bgid(bg):
            return [int(bg.dim), int(bg.id) - bg_base]

        def attempt(f, conv):
            try:
                return ["ok", conv(f())]
            except tuple(ERR) as e:
                return ["err", ERR[type(e)]]

        sds = lambda l: [sd_of[id(g)] for g in l]
        mgs = lambda l: [mg_of[id(g)] for g in l]

        tok = {}          # id(data dict) -> creation index; dicts kept alive below
        keep = []

        def see(dicts):
            for dd in dicts:
                if id(dd) not in tok:
                    tok[id(dd)] = len(tok)
                    keep.append(dd)

        saved = (pp.MortarGrid.update_mortar, pp.MortarGrid.update_primary,
                 pp.MortarGrid.update_secondary)
        pp.MortarGrid.update_mortar = lambda self, *a, **k: None
        pp.MortarGrid.update_primary = lambda self, *a, **k: None
        pp.MortarGrid.update_secondary = lambda self, *a, **k: None
        try:
            mdg = pp.MixedDimensionalGrid()
            steps = []
            for o in case["ops"]:
                k = o[0]
                out = "done"
                if k == "rep":
                    im = {mg_pool[a[1]]: mg_pool[b[1]] for a, b in o[1]}
                    sm = {sd_pool[a[1]]: sd_pool[b[1]] for a, b in o[2]}
                    if len(im) != len(o[1]) or len(sm) != len(o[2]):
                        raise RuntimeError("harness: duplicate keys in a replacement map")
                try:
                    if k == "add":
                        arg = [sd_pool[g[1]] for g in o[1]]
                        form = (len(steps) + len(arg)) % 7
                        try:
                            if form == 6 and len(arg) == 1:
                                mdg.add_subdomains(arg[0])      # a bare grid
                            elif form in (0, 6):
                                mdg.add_subdomains(arg)
                            else:
                                # tuple / generator / iterator / map / dict view; a dict
                                # view cannot hold one grid twice
                                f = form if len(set(map(id, arg))) == len(arg) else form % 5
                                mdg.add_subdomains(_as_form(arg, f))
                        finally:
                            arg.clear()           # aliasing probe
                    elif k == "intf":
                        pair = [sd_pool[o[2][1]], sd_pool[o[3][1]]]
                        try:
                            mdg.add_interface(mg_pool[o[1][1]],
                                              pair if len(steps) % 2 else tuple(pair), None)
                        finally:
                            pair.clear()          # aliasing probe
                    elif k == "rm":
                        mdg.remove_subdomain(sd_pool[o[1][1]])
                    elif k == "rep":
                        try:
                            if not im and len(steps) % 2:
                                mdg.replace_subdomains_and_interfaces(sm)
                            else:
                                mdg.replace_subdomains_and_interfaces(sd_map=sm,
                                                                      interface_map=im)
                        finally:
                            sm.clear()            # aliasing probe
                            im.clear()
                    else:
                        raise RuntimeError(k)
                except tuple(ERR) as e:
                    out = ERR[type(e)]
                present = list(mdg._subdomain_data)
                x = {"out": out,
                     "sds": sds(present),
                     "intfs": mgs(mdg._interface_data),
                     "i2s": [[mg_of[id(i)], sds(p)]
                             for i, p in mdg._interface_to_subdomains.items()],
                     "s2b": [[sd_of[id(s)], bgid(b)]
                             for s, b in mdg._subdomain_to_boundary_grid.items()],
                     "bgs": [bgid(b) for b in mdg._boundary_grid_data],
                     "subdomains": attempt(mdg.subdomains, sds),
                     "interfaces": attempt(mdg.interfaces, mgs)}
                d = len(steps) % 4      # one dimension filter per call, rotating
                x["sub_dim"] = [[d, attempt(lambda d=d: mdg.subdomains(dim=d), sds)]]
                x["int_dim"] = [[d, attempt(lambda d=d: mdg.interfaces(dim=d), mgs)]]
                probe_i = list(mdg._interface_data)
                absent_i = [m for m in mg_pool if m not in mdg._interface_data][:1]
                x["pairs"] = [[mg_of[id(i)],
                               attempt(lambda i=i: mdg.interface_to_subdomain_pair(i), sds)]
                              for i in probe_i + absent_i]
                pairs = [p for p in mdg._interface_to_subdomains.values()]
                if len(present) >= 2:
                    pairs.append((present[0], present[-1]))
                back = []
                for a, b in pairs:
                    for p in ((a, b), (b, a)):
                        back.append([sd_of[id(p[0])], sd_of[id(p[1])],
                                     attempt(lambda p=p: mdg.subdomain_pair_to_interface(p),
                                             lambda i: mg_of[id(i)])])
                x["back"] = back
                absent_s = [g for g in sd_pool if g not in mdg._subdomain_data][:1]
                x["sd_intfs"] = [[sd_of[id(s)],
                                  attempt(lambda s=s: mdg.subdomain_to_interfaces(s), mgs)]
                                 for s in present + absent_s]
                x["sd_bg"] = []
                for s in present + absent_s:
                    b = mdg.subdomain_to_boundary_grid(s)
                    x["sd_bg"].append([sd_of[id(s)], None if b is None else bgid(b)])
                see(mdg._subdomain_data.values())
                see(mdg._interface_data.values())
                see(mdg._boundary_grid_data.values())
                x["data"] = {
                    "sd": [[sd_of[id(s_)], tok[id(mdg.subdomain_data(s_))]] for s_ in present],
                    "if": [[mg_of[id(i_)], tok[id(mdg.interface_data(i_))]]
                           for i_ in mdg._interface_data],
                    "bg": [[bgid(b_), tok[id(mdg.boundary_grid_data(b_))]]
                           for b_ in mdg._boundary_grid_data]}
                x["bounds"] = attempt(mdg.boundaries, lambda l: [bgid(b) for b in l])
                d3 = len(steps) % 3
                x["bounds_dim"] = [[d3, attempt(lambda: mdg.boundaries(dim=d3),
                                                lambda l: [bgid(b) for b in l])]]
                dsel = [None, 0, 1, 2][(len(steps) // 3) % 4]
                x["int_cd"] = [[dsel, d3, attempt(
                    lambda: mdg.interfaces(dim=dsel, codim=d3), mgs)]]
                x["neigh"] = []
                for n_, s_ in enumerate(present + absent_s):
                    hi, lo = [(False, False), (True, False), (False, True),
                              (True, True)][(len(steps) + n_) % 4]
                    x["neigh"].append([sd_of[id(s_)], hi, lo, attempt(
                        lambda: mdg.neighboring_subdomains(s_, only_higher=hi, only_lower=lo),
                        sds)])
                # argsort_grids called directly with different kinds of iterable: the
                # subdomains in reverse dictionary order, the interfaces in dictionary order
                x["argsort"] = []
                for n_, probe in enumerate((present[::-1], list(mdg._interface_data))):
                    conv = sds if n_ == 0 else mgs
                    form = len(steps) + 2 * n_
                    x["argsort"].append([conv(probe), attempt(
                        lambda: [probe[i] for i in mdg.argsort_grids(_as_form(probe, form))],
                        conv)])
                steps.append(x)
            return {"steps": steps}
        finally:
            (pp.MortarGrid.update_mortar, pp.MortarGrid.update_primary,
             pp.MortarGrid.update_secondary) = saved

    # ------------------------------------------------------------------ oracle
    def oracle(self, case, res):
        spec = Spec()
        prev = None
        raw = lambda x: [x[k] for k in ("sds", "intfs", "i2s", "s2b", "bgs")]
        for n, (o, x) in enumerate(zip(case["ops"], res["steps"])):
            cls = spec.classify(o)
            if cls == "out":
                return None        # outside the property's domain from here on
            view = raw(x) + [x["subdomains"], x["interfaces"]]
            if cls == "rej":
                if x["out"] == "done":
                    return (f"op {n} {o}: a call that must be rejected was accepted "
                            "[rejected-call-accepted]")
                if prev is not None and view != prev:
                    return (f"op {n} {o}: rejected call ({x['out']}) changed the container "
                            "[rejected-call-mutates]")
                if prev is None and any(raw(x)):
                    return (f"op {n} {o}: rejected call ({x['out']}) changed the container "
                            "[rejected-call-mutates]")
                continue
            if x["out"] != "done":
                return f"op {n} {o}: well-formed call raised {x['out']} [wellformed-call-raises]"
            spec.apply(o)
            cods = case.get("mg_codims") or [1] * len(case["mg_dims"])
            why = self._consistent(spec, x, cods) or self._data_follow(spec, o, x)
            if why:
                return f"after op {n} {o}: {why}"
            prev = view
        return None

    @staticmethod
    def _data_follow(spec, o, x):
        """The dictionary object stored for a grid is created once by the container and
        follows the grid through replacements (tokens = creation order of the objects)."""
        if not hasattr(spec, "tokS"):
            spec.tokS, spec.tokI, spec.tokB, spec.used = {}, {}, {}, set()
        sd = {tuple(k): t for k, t in x["data"]["sd"]}
        itf = {tuple(k): t for k, t in x["data"]["if"]}
        bgd = {tuple(k): t for k, t in x["data"]["bg"]}
        bg_of = {tuple(sx): (None if b is None else tuple(b)) for sx, b in x["sd_bg"]}

        def bgtok(g):
            b = bg_of.get(g)
            return None if b is None else bgd.get(b)

        if o[0] == "add":
            for g in o[1]:
                g = tuple(g)
                for t in [sd.get(g)] + ([bgtok(g)] if g[0] > 0 else []):
                    if t is None or t in spec.used:
                        return f"new grid {g} did not get a new data dictionary [data-dictionary]"
                    spec.used.add(t)
                spec.tokS[g] = sd[g]
                if g[0] > 0:
                    spec.tokB[g] = bgtok(g)
        elif o[0] == "intf":
            i = tuple(o[1])
            if itf.get(i) is None or itf[i] in spec.used:
                return f"new interface {i} did not get a new data dictionary [data-dictionary]"
            spec.used.add(itf[i])
            spec.tokI[i] = itf[i]
        elif o[0] == "rep":
            for old, new in o[2]:
                old, new = tuple(old), tuple(new)
                spec.tokS[new] = spec.tokS.pop(old)
                if old in spec.tokB:
                    spec.tokB[new] = spec.tokB.pop(old)
        for g in spec.S:
            if sd.get(g) != spec.tokS.get(g):
                return (f"subdomain {g} carries dictionary #{sd.get(g)}, expected "
                        f"#{spec.tokS.get(g)} [data-dictionary]")
            if g[0] > 0 and bgtok(g) != spec.tokB.get(g):
                return (f"boundary grid of {g} carries dictionary #{bgtok(g)}, expected "
                        f"#{spec.tokB.get(g)} [data-dictionary]")
        for i in spec.I:
            if itf.get(i) != spec.tokI.get(i):
                return (f"interface {i} carries dictionary #{itf.get(i)}, expected "
                        f"#{spec.tokI.get(i)} [data-dictionary]")
        return None

    @staticmethod
    def _consistent(spec, x, cods):
        S = sorted(spec.S, key=_key)
        I = sorted(spec.I, key=_key)
        tl = lambda l: [tuple(g) for g in l]
        if x["subdomains"][0] != "ok" or tl(x["subdomains"][1]) != S:
            return f"subdomains() = {x['subdomains']}, present (sorted) = {S}"
        if x["interfaces"][0] != "ok" or tl(x["interfaces"][1]) != I:
            return f"interfaces() = {x['interfaces']}, present (sorted) = {I}"
        for d, r in x["sub_dim"]:
            if r[0] != "ok" or tl(r[1]) != [g for g in S if g[0] == d]:
                return f"subdomains(dim={d}) = {r}"
        for d, r in x["int_dim"]:
            if r[0] != "ok" or tl(r[1]) != [g for g in I if g[0] == d]:
                return f"interfaces(dim={d}) = {r}"
        seen = set()
        for i, r in x["pairs"]:
            i = tuple(i)
            if i not in spec.I:
                if r[0] == "ok":
                    return f"absent interface {i} has a subdomain pair"
                continue
            seen.add(i)
            want = sorted(spec.I[i], key=_key)
            if r[0] != "ok" or tl(r[1]) != want:
                return f"interface {i} maps to {r}, expected {want}"
        if seen != set(spec.I):
            return "harness: not all interfaces probed"
        for a, b, r in x["back"]:
            a, b = tuple(a), tuple(b)
            want = [i for i, p in spec.I.items() if set(p) == {a, b}]
            if want:
                if r[0] != "ok" or tuple(r[1]) != want[0]:
                    return f"pair ({a},{b}) maps back to {r}, expected {want[0]}"
            elif r[0] == "ok":
                return f"pair ({a},{b}) without interface maps to {r}"
        for s, r in x["sd_intfs"]:
            s = tuple(s)
            if s not in spec.S:
                continue
            want = sorted([i for i, p in spec.I.items() if s in p], key=_key)
            if r[0] != "ok" or tl(r[1]) != want:
                return f"subdomain_to_interfaces({s}) = {r}, expected {want}"
        bgs = []
        for s, b in x["sd_bg"]:
            s = tuple(s)
            if s in spec.S and s[0] > 0:
                if b is None:
                    return f"subdomain {s} has no boundary grid"
                if b[0] != s[0] - 1:
                    return f"boundary grid of {s} has dimension {b[0]}"
                bgs.append(tuple(b))
            elif b is not None:
                return f"{'0-d' if s in spec.S else 'absent'} subdomain {s} has a boundary grid"
        if len(set(bgs)) != len(bgs):
            return "two subdomains share a boundary grid"
        if sorted(tl(x["bgs"])) != sorted(bgs):
            return f"boundary grids stored {x['bgs']} != boundary grids of the subdomains {bgs}"
        # boundaries(): all boundary grids, sorted.  (When all subdomains are 0-d the code
        # raises ValueError by design; nothing is demanded then.)
        if bgs or not S:
            want = sorted(bgs, key=_key)
            if x["bounds"][0] != "ok" or tl(x["bounds"][1]) != want:
                return f"boundaries() = {x['bounds']}, expected {want}"
            for d, r in x["bounds_dim"]:
                if r[0] != "ok" or tl(r[1]) != [g for g in want if g[0] == d]:
                    return f"boundaries(dim={d}) = {r}"
        for d, c, r in x["int_cd"]:
            want = [g for g in I if (d is None or g[0] == d) and cods[g[1]] == c]
            if r[0] != "ok" or tl(r[1]) != want:
                return f"interfaces(dim={d}, codim={c}) = {r}, expected {want}"
        for probe, r in x["argsort"]:
            want = sorted(tl(probe), key=_key)
            if r[0] != "ok" or tl(r[1]) != want:
                return f"argsort_grids({probe}) selects {r}, expected {want}"
        for s, hi, lo, r in x["neigh"]:
            s = tuple(s)
            if hi and lo:
                if r[0] == "ok":
                    return "neighboring_subdomains(only_higher, only_lower) did not raise"
                continue
            if s not in spec.S:
                continue
            nb = [(p[1] if p[0] == s else p[0]) for p in spec.I.values() if s in p]
            if hi:
                nb = [g for g in nb if g[0] > s[0]]
            if lo:
                nb = [g for g in nb if g[0] < s[0]]
            want = sorted(nb, key=_key)
            if r[0] != "ok" or tl(r[1]) != want:
                return f"neighboring_subdomains({s}, higher={hi}, lower={lo}) = {r}, expected {want}"
        return None

    # ------------------------------------------------------------------ tie
    def coq_case(self, case, res):
        steps = res["steps"]
        obs, dobs = [], []
        kt = lambda l: _l(l, lambda p: f"KT {_g(p[0])} {p[1]}")
        for n, x in enumerate(steps):
            every = 3 if len(steps) <= 40 else 5
            full = (n % every == every - 1 or n == len(steps) - 1 or x["out"] != "done"
                    or (n > 0 and steps[n - 1]["out"] != "done"))
            if full:
                obs.append(f"Full {_obs(x)}")
                dd = x["data"]
                dobs.append(f"SomeD {kt(dd['sd'])} {kt(dd['if'])} {kt(dd['bg'])}")
            else:
                obs.append("Brief " + ("Done" if x["out"] == "done" else f"(Raised {x['out']})"))
                dobs.append("NoD")
        cods = case.get("mg_codims") or [1] * len(case["mg_dims"])
        cm = _l([f"CM {_g([d, i])} {c}" for i, (d, c) in enumerate(zip(case["mg_dims"], cods))])
        return f"agreeD {cm} {_l(case['ops'], _op)} {_l(obs)} {_l(dobs)}"

    def coq_diag(self, case, res):
        ops = _l(case["ops"], _op)
        return (f"let (g, outs) := run empty {ops} in "
                "(outs, sds g, intfs g, i2s g, s2b g, bgs g, subdomains g None, "
                "interfaces g None)")

    def nontrivial(self, case, res):
        done = [o[0] for o, x in zip(case["ops"], res["steps"]) if x["out"] == "done"]
        return "intf" in done and ("rm" in done or "rep" in done)

    def finding_key(self, case, res, why):
        if "[wellformed-call-raises]" in why:
            return "wellformed-call-raises"
        if "[rejected-call-mutates]" in why:
            return "rejected-call-mutates"
        if "[rejected-call-accepted]" in why:
            return "rejected-call-accepted"
        if "[data-dictionary]" in why:
            return "data-dictionary"
        return "container-inconsistent"

    def shrink(self, case, still_fails):
        ops = list(case["ops"])
        changed = True
        while changed and len(ops) > 1:
            changed = False
            for i in range(len(ops)):
                c = dict(case, ops=ops[:i] + ops[i + 1:])
                if still_fails(c):
                    ops = c["ops"]
                    changed = True
                    break
        return dict(case, ops=ops)


PROP = C24()
