"""C18 — RT0 / MVEM reproduce linear pressures exactly; mass matrices are SPD (certificate tie)."""
import hashlib
import json
from fractions import Fraction

import numpy as np
import scipy.sparse as sps

from harness.core import Prop, clist

import porepy as pp

KW = "flow"
TOL = "(1 # 1000000000)"


def cq(x):
    fr = Fraction(x)
    return f"({fr.numerator} # {fr.denominator})" if fr.numerator >= 0 else f"(({fr.numerator}) # {fr.denominator})"


def cn(n):
    n = int(n)
    assert 0 <= n < 5000
    return f"{n}%nat"


def crow(r):
    return clist(r, lambda e: f"({cn(e[0])}, {cq(e[1])})")


def rows_of(m):
    m = sps.csr_matrix(m)
    m.sum_duplicates()
    out = []
    for i in range(m.shape[0]):
        lo, hi = m.indptr[i], m.indptr[i + 1]
        out.append([[int(c), float(v)] for c, v in zip(m.indices[lo:hi], m.data[lo:hi]) if v != 0])
    return out


def exact_left_inverse(A):
    """Exact inverse of a square matrix of Fractions by Gauss-Jordan; returns (N, d) with integer
    matrix N and integer d != 0 such that N * A = d * I, or None if A is singular."""
    n = len(A)
    M = [list(r) + [Fraction(int(i == j)) for j in range(n)] for i, r in enumerate(A)]
    for c in range(n):
        piv = next((r for r in range(c, n) if M[r][c] != 0), None)
        if piv is None:
            return None
        M[c], M[piv] = M[piv], M[c]
        pv = M[c][c]
        M[c] = [v / pv for v in M[c]]
        for r in range(n):
            if r != c and M[r][c] != 0:
                fac = M[r][c]
                M[r] = [a - fac * b for a, b in zip(M[r], M[c])]
    B = [r[n:] for r in M]
    d = 1
    for r in B:
        for v in r:
            d = (d * v.denominator) // _gcd(d, v.denominator)
    N = [[int(v * d) for v in r] for r in B]
    return N, d


def _gcd(a, b):
    while b:
        a, b = b, a % b
    return a


def make_grid(spec):
    kind = spec["kind"]
    if kind == "line":
        g = pp.TensorGrid(np.array(spec["x"], dtype=float))
    elif kind == "tri":
        g = pp.StructuredTriangleGrid(np.array(spec["n"]))
    elif kind == "tet":
        g = pp.StructuredTetrahedralGrid(np.array(spec["n"]))
    elif kind == "tetd":
        # small Delaunay tetrahedral grid from a few dyadic points (2-4 cells, 7-12 faces)
        g = pp.TetrahedralGrid(np.array(spec["pts"], dtype=float).T)
    else:
        raise ValueError(kind)
    if spec.get("pert"):
        off = np.array(spec["pert"], dtype=float) / 32.0
        g.nodes = g.nodes.copy()
        g.nodes[: g.dim] += off
    if spec.get("rot"):
        # embed in 3-D: rotate about a unit axis (rational direction) by a dyadic angle
        axis, ang = spec["rot"]
        R = pp.map_geometry.rotation_matrix(float(ang), np.array(axis, dtype=float))
        g.nodes = R @ g.nodes
    g.compute_geometry()
    return g


def grid_spec(rng, tier, force=None):
    # sizes are bounded by the exact rational elimination inside Coq (cost grows like n^4..n^5
    # with n = number of faces; n <= 18 here)
    r = rng.random() * 0.8          # 3-D grids come from the directed stream only (cost)
    if force == "tet":
        r = 0.9
    elif force == "embedded":
        r = rng.choice([0.1, 0.5, 0.5])
    elif force == "embedded_line":
        r = 0.1
    elif force == "embedded_tri":
        r = 0.5
    if force in ("embedded_line", "embedded_tri"):
        force = "embedded"
    if r < 0.3:
        n = rng.randint(1, 6)
        x = [rng.choice([0.0, -1.0, 0.5])]
        for _ in range(n):
            x.append(x[-1] + rng.choice([0.25, 0.5, 1.0, 1.5]))
        spec = {"kind": "line", "x": x}
        dim = 1
    elif r < 0.8:
        spec = {"kind": "tri", "n": rng.choice([[1, 1], [2, 1], [1, 2], [2, 1], [1, 2], [3, 1], [2, 2]])}
        dim = 2
    else:
        # 3-D: small Delaunay grids; the structured 6-cell / 18-face grid only now and then in the
        # thorough tier (cost of the exact elimination inside Coq)
        if tier != "quick" and rng.random() < 0.25:
            spec = {"kind": "tet", "n": [1, 1, 1]}
        else:
            spec = {"kind": "tetd", "pts": rng.choice([
                [[0, 0, 0], [1, 0, 0], [0, 1, 0], [0, 0, 1], [1, 1, 1.5]],
                [[0, 0, 0], [1, 0, 0], [0, 1, 0], [0, 0, 1], [1, 1, 1.5], [-0.5, 0.25, 1.25]],
                [[0, 0, 0], [2, 0, 0], [0, 1, 0], [0, 0, 1.5], [1, 1, 1], [0.5, 0.25, -1]]])}
        dim = 3
    if dim > 1 and spec["kind"] != "tetd" and rng.random() < 0.5:
        g = make_grid(spec)
        amp = 5 if dim == 2 else 3
        spec["pert"] = [[rng.randint(-amp, amp) for _ in range(g.num_nodes)] for _ in range(dim)]
    if dim < 3 and (force == "embedded" or rng.random() < 0.45):
        axis = rng.choice([[1, 2, 2], [2, 3, 6], [0, 3, 4], [1, 0, 0], [0, 1, 0], [4, 4, 7]]
                          if force != "embedded" else [[1, 2, 2], [2, 3, 6], [0, 3, 4], [4, 4, 7], [1, 1, 0]])
        spec["rot"] = [axis, rng.choice([0.5, 0.75, 1.25, 2.0, -0.625])]
    return spec, dim


class _CaptureLocal:
    """Record the arguments and results of RT0.massHdiv (monkey-patch, no hook in /repo)."""

    def __enter__(self):
        self.orig = pp.RT0.__dict__["massHdiv"]
        fn = self.orig.__func__ if isinstance(self.orig, staticmethod) else self.orig
        self.calls = []

        def wrap(inv_K, c_volume, coord, sign, dim, HB):
            A = fn(inv_K, c_volume, coord, sign, dim, HB)
            self.calls.append((np.array(inv_K, dtype=float), float(c_volume), np.array(coord, dtype=float),
                               np.array(sign, dtype=float), int(dim), np.array(HB, dtype=float),
                               np.array(A, dtype=float)))
            return A

        pp.RT0.massHdiv = staticmethod(wrap)
        return self

    def __exit__(self, *a):
        pp.RT0.massHdiv = self.orig


def local_factors(call):
    """A_loc = C^T N^T HB inv_K_exp N C  =  B^T W B  with  B = N C,  W = HB inv_K_exp.  N and
    inv_K_exp are formed with the same float operations as RT0.massHdiv, then everything is exact."""
    inv_K, vol, coord, sign, dim, HB, A = call
    ind = np.eye(dim + 1)
    inv_K_exp = ind[:, np.newaxis, :, np.newaxis] * inv_K[np.newaxis, :, np.newaxis, :] / vol
    inv_K_exp = inv_K_exp.reshape((ind.shape[0] * inv_K.shape[0], ind.shape[1] * inv_K.shape[1]))
    N = coord.flatten("F").reshape((-1, 1)) * np.ones((1, dim + 1)) - np.concatenate((dim + 1) * [coord])
    m, n = N.shape
    Fr = Fraction
    B = [[Fr(float(N[k, j])) * Fr(float(sign[j])) for j in range(n)] for k in range(m)]
    W = [[sum(Fr(float(HB[k, q])) * Fr(float(inv_K_exp[q, l])) for q in range(m)) for l in range(m)]
         for k in range(m)]
    return {"n": n, "m": m, "A": [[float(v) for v in r] for r in A],
            "W": [[[str(v.numerator), str(v.denominator)] for v in r] for r in W],
            "B": [[[str(v.numerator), str(v.denominator)] for v in r] for r in B]}


class C18(Prop):
    id = "C18"
    props_file = "Props/C18.v"
    preamble = ("From Coq Require Import List ZArith Bool QArith.\nImport ListNotations.\n"
                "From PP Require Import Lib.RowLin Model.C18.\nLocal Open Scope Q_scope.\n")
    n_cases = (12, 48)
    design_ref = "DESIGN.md §5 C18 (certificate tie K, level P-method)"
    level_text = (
        "METHOD-LEVEL Coq theorems plus per-instance certificate validation (translation "
        "validation), not a proof about rt0.py / mvem.py / dual_elliptic.py; in 1-D additionally an "
        "executable model with execution correspondence. Theorems (exact rationals): (1) "
        "C18_spd_certificate: if the exact elimination checker spd_chk n M accepts (successive "
        "Schur complements = L D L^T with positive pivots) then x^T M x > 0 for every non-zero x; "
        "C18_quad_sympart: x^T M x = x^T sym(M) x, so C18_mass_spd states positive definiteness of "
        "the real (nearly symmetric, float) mass matrix M ITSELF from the certificate run on its "
        "exactly computed symmetric part; (2) C18_gram_identity: x^T(B^T W B)x = (Bx)^T W (Bx) for "
        "list matrices and C18_gram_spd: B^T W B is positive definite if W is and B is injective; "
        "C18_local_factorisation_sound: the local RT0 mass matrices captured from RT0.massHdiv "
        "agree (tolerance) with B^T W B for the captured factors B = N C, W = HB inv_K_exp, W "
        "positive definite, B injective (B^T B positive definite), hence B^T W B positive definite; "
        "(3) C18_exact_if_consistent: the flux equation of a face holds for the candidate if the "
        "mass matrix is consistent with constants; (4) C18_linear_pressures / C18_candidate_form / "
        "C18_certificate_sound: a row of the real assembled saddle-point system that vanishes on the "
        "exact candidates of the basis pressures x, y, z, 1 vanishes on the candidate (u_f = "
        "-(K n_f).(P a), P the projection onto the tangent space of the grid, p_c = a.x_c + c0) of "
        "EVERY linear pressure, tolerance carried through; "
        "C18_unique_solution with C18_nonsingular_certificate: uniqueness, the trivial kernel "
        "being established per instance by an exact left-inverse certificate N A = d I on small "
        "systems (<= 14 unknowns) instead of assumed; (5) 1-D: C18_1d_exact and C18_1d_unique: on "
        "the executable model of RT0 on an interval partition (any nodes with x_n != x_0, any k != "
        "0) the discrete solution for Dirichlet data from a linear pressure is exactly the constant "
        "flux -k a and the cell mid-point pressures, for ALL partitions. Per run Coq evaluates by "
        "vm_compute on the REAL assembled matrix, right-hand sides, mass matrix and captured local "
        "matrices (Fraction(float)): all certificates above, and compares the 1-D model entrywise "
        "with the real pp.RT0 system on x-aligned 1-D grids; RT0 and MVEM, 1-D/2-D/3-D simplex grids "
        "incl. grids embedded in 3-D. A numpy oracle solves and compares fluxes and cell pressures "
        "and checks symmetry / eigenvalues.")
    level_note = (
        "Not proved: anything about the Python code in 2-D/3-D (matrices are inputs; certificates "
        "are checked on generated instances only); in 1-D the model is tied to pp.RT0 by execution "
        "on the generated x-aligned grids only (rotated 1-D grids and MVEM go through the "
        "certificates, not the model); the local factorisation is checked for RT0 only (MVEM local "
        "matrices are not captured), on the first and last cell of each grid (one cell in 3-D), and relates the float A_loc to the exact B^T W B only up to the "
        "tolerance; non-singularity is certified only where the exact inverse is cheap (system size "
        "<= 14), elsewhere it remains a hypothesis observed by the oracle's solve; float rounding. "
        "Sizes are bounded (<= 18 faces) by the cost of exact rational elimination inside Coq. "
        "Permeability: one constant symmetric positive definite tensor in ambient coordinates "
        "(isotropic, diagonal, transversely isotropic, full); embedded 1-D / 2-D grids see its "
        "tangential part P K P, with P computed by the harness from the node cloud (SVD), not by "
        "porepy; all boundary faces Dirichlet. RT0 / MVEM have no subproblem splitting and RT0 needs "
        "simplices, so neither multi-subproblem runs nor mixed cell types apply here (the property is "
        "about simplex grids).")
    technique = ("Coq proof of method-level theorems (Schur-complement induction for positive "
                 "definiteness, linearity over Q) + certificate checkers evaluated by vm_compute on the "
                 "real matrices (exact rational elimination inside Coq) + numpy oracle")
    rule = ("grids: 1-D TensorGrid (1-6 cells, uneven dyadic spacing), StructuredTriangleGrid, "
            "small Delaunay TetrahedralGrids and StructuredTetrahedralGrid (at most 18 faces: cost of the exact elimination), half of the 2-D/3-D grids with dyadic node offsets, 45% of the "
            "1-D/2-D grids rotated out of their coordinate plane (axis with rational direction); RT0 "
            "and MVEM alternate; constant permeability: directed streams (period 8) give 3-D grids a FULL "
            "tensor (all off-diagonals non-zero, kyy != kzz), 1-D grids on inclined lines in generic "
            "position and tilted 2-D grids a FULL tensor (kxy, kxz, kyz non-zero) for both RT0 and MVEM, and "
            "tilted embedded grids a transversely isotropic tensor (kxx == kyy != kzz), otherwise "
            "isotropic / diagonal / full SPD; linear pressure with small integer gradient; non-trivial = at least 2 cells and a "
            "non-zero gradient")
    trusted = ["the assembled matrix, the four right-hand sides (assemble_matrix_rhs called with the boundary "
               "values of x, y, z, 1) and the dense mass matrix are converted with Fraction(float)",
               "tolerance 1e-9 relative to 1 + sum|terms| inside the Coq checkers",
               "linearity of assemble_rhs in bc_values (the oracle solves for a random combination)"]
    assumptions = ["all boundary faces Dirichlet; one constant symmetric positive definite permeability",
                   "uniqueness of the discrete solution = non-singular saddle-point matrix (oracle: solve)"]

    def __init__(self):
        self._cache = {}
        self._stats = {"kinds": {}, "max_nf": 0}

    def generate(self, rng, n, tier):
        for i in range(n):
            # directed streams (period 8, the method alternates with i): 0: 3-D grid, full tensor, RT0;
            # 1 / 4: 1-D grid on an inclined line in generic position, FULL tensor (kxy, kxz, kyz all
            # non-zero), MVEM / RT0; 2 / 3: tilted 2-D grid, full tensor, RT0 / MVEM (3-D MVEM instead in
            # the thorough tier on every other round); 5 / 6: tilted grid, transversely isotropic
            # tensor kxx == kyy != kzz, MVEM / RT0; 7: free
            stream = i % 8
            streams = {0: "tet", 1: "embedded_line", 2: "embedded_tri", 3: "embedded_tri", 4: "embedded_line",
                       5: "embedded", 6: "embedded"}
            if tier != "quick" and i % 16 == 3:
                streams[3] = "tet"
            spec, dim = grid_spec(rng, tier, force=streams.get(stream))
            planar = not spec.get("rot")
            full_spd = lambda: {"kxx": rng.choice([1.0, 2.0, 1.5]), "kyy": rng.choice([1.0, 3.0]),
                                "kzz": rng.choice([2.0, 1.5]), "kxy": rng.choice([0.25, -0.25, 0.125]),
                                "kxz": rng.choice([0.125, -0.25, 0.25]), "kyz": rng.choice([0.125, -0.125, 0.25])}
            k = {"kxx": rng.choice([0.5, 1.0, 2.0, 1.5])}
            if dim == 3 and (stream in (0, 3) or rng.random() < 0.5):
                # full SPD tensor, every off-diagonal non-zero, kyy != kzz (diagonally dominant)
                k = full_spd()
            elif not planar and stream in (1, 2, 3, 4):
                # embedded grid in generic position, full SPD tensor with non-zero kxz, kyz
                k = full_spd()
            elif not planar and (stream in (5, 6) or rng.random() < 0.4):
                # tilted embedded grid, transversely isotropic tensor kxx == kyy != kzz
                kk = rng.choice([0.5, 1.0, 2.0])
                k = {"kxx": kk, "kyy": kk, "kzz": kk * rng.choice([0.25, 0.5, 2.0, 4.0])}
            elif not planar and rng.random() < 0.5:
                # tilted embedded grid, full SPD tensor
                k = {"kxx": rng.choice([1.0, 2.0]), "kyy": rng.choice([1.0, 3.0, 1.5]), "kzz": rng.choice([2.0, 0.75, 1.0]),
                     "kxy": rng.choice([0.0, 0.25, -0.125]), "kxz": rng.choice([0.0, 0.125, -0.25]),
                     "kyz": rng.choice([0.0, -0.125, 0.25])}
            elif dim >= 2 and planar and rng.random() < 0.6:
                k["kyy"] = rng.choice([0.5, 1.0, 2.0, 3.0])
                k["kxy"] = rng.choice([0.0, 0.25, -0.25, 0.125])
                if dim == 3:
                    k["kzz"] = rng.choice([0.5, 1.0, 2.0])
                    k["kxz"] = rng.choice([0.0, 0.125, -0.125])
                    k["kyz"] = rng.choice([0.0, 0.125, -0.25])
            a = [rng.randint(-3, 3) for _ in range(3)]
            if stream == 7 and rng.random() < 0.3:
                a = [0, 0, 0]
            elif stream != 7 and not any(a):
                a = [1, -2, 3]
            yield {"grid": spec, "method": "rt0" if i % 2 == 0 else "mvem", "k": k,
                   "a": a, "c0": rng.randint(-4, 4)}

    # -------------------------------------------------------------- implementation
    @staticmethod
    def _setup(case):
        g = make_grid(case["grid"])
        nc = g.num_cells
        kk = {key: float(v) * np.ones(nc) for key, v in case["k"].items()}
        perm = pp.SecondOrderTensor(**kk)
        bf = g.get_all_boundary_faces()
        bc = pp.BoundaryCondition(g, bf, ["dir"] * bf.size)
        discr = pp.RT0(KW) if case["method"] == "rt0" else pp.MVEM(KW)
        return g, perm, bc, bf, discr

    @staticmethod
    def _discretize(g, perm, bc, discr):
        data = pp.initialize_data(g, {}, KW, {"second_order_tensor": perm, "bc": bc,
                                              "bc_values": np.zeros(g.num_faces)})
        discr.discretize(g, data)
        return data

    @staticmethod
    def _assemble(g, data, bf, discr, pfun):
        """assemble_matrix_rhs for Dirichlet data taken from the pressure pfun (the grid is
        discretised once: MVEM's local matrices vary in the last bit between calls)."""
        bv = np.zeros(g.num_faces)
        bv[bf] = pfun(g.face_centers[:, bf])
        data[pp.PARAMETERS][KW]["bc_values"] = bv
        A, b = discr.assemble_matrix_rhs(g, data)
        return sps.csr_matrix(A), np.asarray(b, dtype=float)

    def _run_full(self, case):
        g, perm, bc, bf, discr = self._setup(case)
        nf, nc = g.num_faces, g.num_cells
        basis = [lambda x, m=m: x[m] for m in range(3)] + [lambda x: np.ones(x.shape[1])]
        A0, bs, mass = None, [], None
        with _CaptureLocal() as cap:
            data = self._discretize(g, perm, bc, discr)
        if case["method"] == "rt0" and len(cap.calls) != nc:
            raise RuntimeError("RT0.discretize did not call massHdiv once per cell")
        # the factorisation certificate is evaluated on the first and the last cell (cost)
        picked = sorted({0, nc - 1}) if g.dim < 3 else [nc - 1]
        locals_ = [local_factors(cap.calls[c]) for c in picked] if case["method"] == "rt0" else []
        for pf in basis:
            A, b = self._assemble(g, data, bf, discr, pf)
            if A0 is None:
                A0 = A
                mass = data[pp.DISCRETIZATION_MATRICES][KW][discr.mass_matrix_key]
            elif abs(A - A0).sum() != 0:
                raise RuntimeError("system matrix depends on the boundary values")
            bs.append(b)
        if A0.shape != (nf + nc, nf + nc):
            raise RuntimeError(f"unexpected system shape {A0.shape}")
        ext = sps.hstack([A0, sps.csr_matrix(-np.array(bs).T)])
        # solve for the requested linear pressure (the implementation's behaviour the oracle judges)
        a = np.array(case["a"], dtype=float)
        c0 = float(case["c0"])
        A, b = self._assemble(g, data, bf, discr, lambda x: a @ x + c0)
        if abs(A - A0).sum() != 0:
            raise RuntimeError("system matrix depends on the boundary values")
        x = sps.linalg.spsolve(A.tocsc(), b)
        flux = discr.extract_flux(g, x, data)
        pres = discr.extract_pressure(g, x, data)
        # orthogonal projection onto the tangent space of the grid, from the node cloud (SVD), not
        # from porepy's own map_grid
        if g.dim == 3:
            P = np.eye(3)
        else:
            Xc = g.nodes - g.nodes.mean(axis=1, keepdims=True)
            U = np.linalg.svd(Xc)[0][:, : g.dim]
            P = U @ U.T
        return {"nf": nf, "nc": nc, "dim": int(g.dim),
                "P": [[float(P[i, j]) for j in range(3)] for i in range(3)],
                "K": [[float(perm.values[i, j, 0]) for j in range(3)] for i in range(3)],
                "normals": [[float(v) for v in g.face_normals[:, f]] for f in range(nf)],
                "cc": [[float(v) for v in g.cell_centers[:, c]] for c in range(nc)],
                "fc": [[float(v) for v in g.face_centers[:, f]] for f in range(nf)],
                "finc": rows_of(sps.csr_matrix(g.cell_faces)),
                "rows": rows_of(ext),
                "mass": [[float(v) for v in r] for r in np.asarray(mass.todense())],
                "xs": ([float(v) for v in g.nodes[0]]
                       if (g.dim == 1 and not case["grid"].get("rot") and case["method"] == "rt0") else []),
                "inv": self._inverse(A0, nf + nc),
                "locals": locals_,
                "flux": [float(v) for v in flux], "pressure": [float(v) for v in pres]}

    INV_MAX = 14

    def _inverse(self, A0, n):
        """Exact left inverse of the assembled matrix (as the rationals Coq sees) on small systems."""
        if n > self.INV_MAX:
            return None
        dense = [[Fraction(0)] * n for _ in range(n)]
        for i, r in enumerate(rows_of(A0)):
            for c, v in r:
                dense[i][c] += Fraction(v)
        res = exact_left_inverse(dense)
        if res is None:
            return None
        N, d = res
        return {"N": [[str(v) for v in r] for r in N], "d": str(d)}

    def run_impl(self, case):
        full = self._run_full(case)
        if len(self._cache) > 400:      # bounded (the driver's search loop may run thousands of cases)
            self._cache.clear()
        self._cache[json.dumps(case, sort_keys=True)] = full
        blob = json.dumps(full, sort_keys=True).encode()
        return {"nf": full["nf"], "nc": full["nc"], "dim": full["dim"],
                "flux_head": full["flux"][:4], "pressure_head": full["pressure"][:4],
                "digest": hashlib.sha1(blob).hexdigest()[:16]}

    def _full(self, case):
        key = json.dumps(case, sort_keys=True)
        if key not in self._cache:
            self._cache[key] = self._run_full(case)
        return self._cache[key]

    # -------------------------------------------------------------- oracle
    def oracle(self, case, res):
        full = self._full(case)
        a = np.array(case["a"], dtype=float)
        c0 = float(case["c0"])
        K = np.array(full["K"])
        nrm = np.array(full["normals"]).T
        cc = np.array(full["cc"]).T
        P = np.array(full["P"])
        flux_ex = -(P @ a) @ (K @ nrm)
        pres_ex = a @ cc + c0
        flux = np.array(full["flux"])
        pres = np.array(full["pressure"])
        fscale = 1.0 + np.abs(flux_ex).max()
        pscale = 1.0 + np.abs(pres_ex).max()
        if not np.all(np.isfinite(flux)) or np.abs(flux - flux_ex).max() > 1e-8 * fscale:
            f = int(np.argmax(np.abs(flux - flux_ex)))
            return (f"{case['method']}: face flux {f} = {flux[f]:.12g} for p = {a.tolist()}.x + {c0}, "
                    f"exact -(K n).(P a) = {flux_ex[f]:.12g}")
        if not np.all(np.isfinite(pres)) or np.abs(pres - pres_ex).max() > 1e-8 * pscale:
            c = int(np.argmax(np.abs(pres - pres_ex)))
            return (f"{case['method']}: cell pressure {c} = {pres[c]:.12g} for p = {a.tolist()}.x + {c0}, "
                    f"exact {pres_ex[c]:.12g}")
        M = np.array(full["mass"])
        mscale = max(1.0, np.abs(M).max())
        if np.abs(M - M.T).max() > 1e-10 * mscale:
            return f"{case['method']}: mass matrix not symmetric (max asymmetry {np.abs(M - M.T).max():.3e})"
        ev = np.linalg.eigvalsh((M + M.T) / 2)
        if ev.min() <= 1e-12 * mscale:
            return f"{case['method']}: mass matrix not positive definite (smallest eigenvalue {ev.min():.3e})"
        return None

    # -------------------------------------------------------------- tie
    def _inst(self, full):
        vl = lambda vs: clist(vs, lambda v: clist(v, cq))
        rows = lambda rs: clist(rs, crow)
        ci = lambda z: f"({z} # 1)" if not str(z).startswith("-") else f"(({z}) # 1)"
        inv = "None"
        if full.get("inv"):
            inv = "(Some ({}, {}))".format(clist(full["inv"]["N"], lambda r: clist(r, ci)), ci(full["inv"]["d"]))
        return ("(mk_inst {} {} {} {} {} {} {} {} {} {} {} {} {})".format(
            cn(full["nf"]), cn(full["nc"]), vl(full["K"]), vl(full["P"]), vl(full["normals"]), vl(full["cc"]),
            vl(full["fc"]), rows(full["finc"]), rows(full["rows"]), vl(full["mass"]),
            clist(full["xs"], cq), inv, clist(full["locals"], self._local)))

    @staticmethod
    def _local(L):
        fr = lambda v: (f"({v[0]} # {v[1]})" if not v[0].startswith("-") else f"(({v[0]}) # {v[1]})")
        ml = lambda M, f: clist(M, lambda r: clist(r, f))
        return "(mk_local {} {} {} {} {})".format(cn(L["n"]), cn(L["m"]), ml(L["A"], cq), ml(L["W"], fr),
                                                   ml(L["B"], fr))

    def coq_case(self, case, res):
        return f"check {TOL} {self._inst(self._full(case))}"

    def coq_diag(self, case, res):
        return f"check_diag {TOL} {self._inst(self._full(case))}"

    def nontrivial(self, case, res):
        k = f"{case['method']}-{res['dim']}d" + ("-embedded" if case["grid"].get("rot") else "")
        self._stats["kinds"][k] = self._stats["kinds"].get(k, 0) + 1
        self._stats["max_nf"] = max(self._stats["max_nf"], res["nf"])
        full = self._full(case)
        for key, flag in (("nonsingularity_certificates", bool(full["inv"])), ("tie_1d_model", bool(full["xs"])),
                          ("local_factorisations", len(full["locals"]))):
            self._stats[key] = self._stats.get(key, 0) + int(flag)
        return res["nc"] >= 2 and any(v != 0 for v in case["a"])

    def extra_evidence(self):
        return {"instances": self._stats}

    def finding_key(self, case, res, why):
        if "flux" in why:
            return "linear-flux-not-exact"
        if "pressure" in why:
            return "linear-pressure-not-exact"
        return "mass-not-spd"

    def shrink(self, case, still_fails):
        g = case["grid"]
        cands = []
        if g["kind"] == "tri":
            cands = [dict(g, n=[1, 1], pert=None), dict(g, n=[2, 1], pert=None)]
        elif g["kind"] == "line":
            cands = [dict(g, x=g["x"][:3])]
        for gg in cands:
            c = dict(case, grid={k: v for k, v in gg.items() if v is not None})
            try:
                if still_fails(c):
                    return c
            except Exception:
                pass
        return case


PROP = C18()
