"""C32 — rotation / projection matrices, computed normals, tangential-normal bases."""
import itertools
import math
import warnings
from fractions import Fraction as F

import numpy as np

from harness.core import Prop, cq, clist

import porepy as pp
from porepy.geometry import map_geometry as mg

TOL = 1e-10
EZ = [0, 0, 1]

# vectors with integer norm
PYTH3 = [(1, 2, 2), (2, 3, 6), (1, 4, 8), (4, 4, 7), (2, 6, 9), (6, 6, 7), (3, 4, 12),
         (2, 10, 11), (0, 3, 4), (0, 0, 1), (0, 5, 12), (8, 9, 12), (12, 15, 16), (9, 12, 20)]
# (a, b, c): a^2+b^2 and a^2+b^2+c^2 both squares ("doubly Pythagorean" w.r.t. the last axis)
DPYTH = [(3, 4, 12), (0, 3, 4), (3, 0, 4), (0, 0, 1), (4, 3, 12), (5, 12, 84), (8, 15, 144),
         (9, 12, 20), (9, 12, 8), (12, 16, 15), (12, 16, 21), (6, 8, 24), (7, 24, 60),
         (3, 4, 0), (1, 0, 0), (0, 1, 0), (5, 12, 0), (0, 4, 3), (4, 0, 3)]
# doubly Pythagorean AND (last entry strictly largest OR one entry zero): the two entries
# off the maximal direction form a Pythagorean pair (first tangent has a rational norm)
TN3 = [v for v in DPYTH if abs(v[2]) > max(abs(v[0]), abs(v[1])) or 0 in v]
PYTH2 = [(3, 4), (4, 3), (5, 12), (8, 15), (7, 24), (1, 0), (0, 1), (20, 21)]
# rational points on the unit circle (sin, cos)
ANGLES = [(F(0), F(1)), (F(1), F(0)), (F(0), F(-1)), (F(-1), F(0)), (F(3, 5), F(4, 5)),
          (F(4, 5), F(-3, 5)), (F(-5, 13), F(12, 13)), (F(12, 13), F(5, 13)),
          (F(-8, 17), F(-15, 17)), (F(7, 25), F(24, 25)), (F(-24, 25), F(7, 25)),
          (F(20, 29), F(-21, 29))]
# a vector (a, 0, c) with integer norm whose direction is within 1e-8 of the z axis:
# m odd, (m, (m^2-1)/2, (m^2+1)/2); all three exactly representable in binary64
_M = 250000001
BAND = (_M, 0, (_M * _M - 1) // 2)
assert float(BAND[2]) == BAND[2] and BAND[0] ** 2 + BAND[2] ** 2 == ((_M * _M + 1) // 2) ** 2


def _isqrt_exact(fr):
    fr = F(fr)
    if fr < 0:
        return None
    a, b = math.isqrt(fr.numerator), math.isqrt(fr.denominator)
    if a * a == fr.numerator and b * b == fr.denominator:
        return F(a, b)
    return None


def _signperm(rng, v, perm=True):
    v = [x * rng.choice([1, -1]) for x in v]
    if perm:
        rng.shuffle(v)
    return v


def _scale(rng, v):
    k = rng.choice([1, 1, 2, 3, 5, F(1, 2), F(1, 4), 8])
    return [float(x * k) if isinstance(k, F) else x * k for x in v]


def _perm_to_axis(v, axis):
    """Place the last entry of v (the 'c' of a doubly Pythagorean triple) on `axis`."""
    out = [None] * 3
    out[axis] = v[2]
    rest = [i for i in range(3) if i != axis]
    out[rest[0]], out[rest[1]] = v[0], v[1]
    return out


def _axis(i):
    return [1 if j == i else 0 for j in range(3)]


# ------------------------------------------------------------ exact pre-filter helpers
def _fdot(a, b):
    return sum(x * y for x, y in zip(a, b))


def _fcross(a, b):
    return [a[1] * b[2] - a[2] * b[1], a[2] * b[0] - a[0] * b[2], a[0] * b[1] - a[1] * b[0]]


def _unique_max(vals, margin=F(1, 1000)):
    """index of the maximum if it exceeds every other value by a relative margin, else None"""
    i = max(range(len(vals)), key=lambda k: vals[k])
    top = vals[i]
    for k, x in enumerate(vals):
        if k != i and not (top - x > margin * abs(top)):
            return None
    return i


def _normal_selection(pts):
    """Replays compute_normal's two argmax selections in exact arithmetic; returns the
    (unnormalised) normal if both maxima are unique by a margin, else None."""
    P = [[F(x) for x in p] for p in pts]
    n = len(P)
    c = [sum(p[i] for p in P) / n for i in range(3)]
    v = [[p[i] - c[i] for i in range(3)] for p in P]
    i1 = _unique_max([_fdot(w, w) for w in v])
    if i1 is None:
        return None
    crs = [_fcross(v[i1], w) for w in v]
    ci = _unique_max([_fdot(w, w) for w in crs])
    if ci is None:
        return None
    return crs[ci]


def _tangent_selection(pts):
    P = [[F(x) for x in p] for p in pts]
    n = len(P)
    c = [sum(p[i] for p in P) / n for i in range(3)]
    v = [[p[i] - c[i] for i in range(3)] for p in P]
    i1 = _unique_max([_fdot(w, w) for w in v])
    return None if i1 is None else v[i1]


def _plane_points(rng, m, npts, lattice=True):
    """points of the plane through a random origin with (integer) normal m"""
    m = list(m)
    u = [m[1], -m[0], 0] if (m[0] or m[1]) else [0, m[2], -m[1]]
    w = _fcross(m, u)
    g = math.gcd(*[abs(x) for x in w]) or 1
    w = [x // g for x in w]
    o = [rng.randint(-5, 5) for _ in range(3)]
    pts = []
    while len(pts) < npts:
        i, j = rng.randint(-4, 4), rng.randint(-4, 4)
        p = [o[k] + i * u[k] + j * w[k] for k in range(3)]
        if p not in pts:
            pts.append(p)
    return pts


def _line_points(rng, t, npts):
    o = [rng.randint(-5, 5) for _ in range(3)]
    lam = rng.sample(range(-6, 7), npts)
    return [[o[k] + l * t[k] for k in range(3)] for l in lam]


# ------------------------------------------------------------------------ Coq literals
def _v(v):
    return "(" + ", ".join(cq(x) for x in v) + ")"


def _res(r):
    if r[0] == "ok":
        return "(Ok " + clist(r[1], cq) + ")"
    return f"(Err {r[1]})"


def _flat(a):
    return [float(x) for x in np.asarray(a, dtype=float).ravel()]


def _guard(fn):
    """Run fn; map the exceptions the code may raise (and NaN output) to the error enum."""
    with warnings.catch_warnings():
        warnings.simplefilter("ignore")
        with np.errstate(all="ignore"):
            try:
                out = fn()
            except ValueError:
                return ["err", "ValueErr"]
            except RuntimeError:
                return ["err", "RuntimeErr"]
            except AssertionError:
                return ["err", "AssertErr"]
            except np.linalg.LinAlgError:
                return ["err", "LinAlgErr"]
    flat = _flat(out)
    if any(x != x for x in flat):
        return ["err", "NanErr"]
    return ["ok", flat]


def _orth_report(R, what, need_plus=True, tol=TOL):
    R = np.asarray(R, dtype=float)
    n = R.shape[0]
    e = np.abs(R.T @ R - np.eye(n)).max()
    if e > tol:
        return f"{what}: |R^T R - I| = {e:.3e}"
    e = np.abs(R @ R.T - np.eye(n)).max()
    if e > tol:
        return f"{what}: |R R^T - I| = {e:.3e}"
    d = np.linalg.det(R)
    if need_plus and abs(d - 1) > tol:
        return f"{what}: det = {d!r}"
    if not need_plus and abs(abs(d) - 1) > tol:
        return f"{what}: |det| = {abs(d)!r}"
    return None


def _isometry_report(R, probes, what, tol=TOL):
    R = np.asarray(R, dtype=float)
    P = np.asarray(probes, dtype=float).T
    Q = R @ P
    for i, j in itertools.combinations(range(P.shape[1]), 2):
        d0 = np.linalg.norm(P[:, i] - P[:, j])
        d1 = np.linalg.norm(Q[:, i] - Q[:, j])
        if abs(d0 - d1) > tol * (1 + d0):
            return f"{what}: distance {d0!r} mapped to {d1!r}"
    return None


class C32(Prop):
    id = "C32"
    props_file = "Props/C32.v"
    preamble = ("From Coq Require Import List QArith.\nImport ListNotations.\n"
                "From PP Require Import Model.C32.\n")
    n_cases = (400, 8000)
    design_ref = "DESIGN.md §5 C32"
    level_text = (
        "Coq theorems over the reals about an executable transcription of rotation_matrix, "
        "project_plane_matrix, project_line_matrix, compute_normal, compute_tangent, "
        "compute_normals_1d and the TangentialNormalProjection basis/projection blocks: the "
        "Rodrigues matrix is in SO(3) for every angle and every axis (normalisation by the real "
        "square root included), orthogonal matrices preserve distances, the plane/line matrices "
        "are in SO(3) and map the unit normal/tangent exactly onto the reference axis outside "
        "numpy's allclose band (inside the band the identity is returned and the normal is "
        "within sqrt(3)*1e-8 of the axis line), computed normals of planar sets are unit and "
        "orthogonal to every difference of points, planar (collinear) sets are mapped into a "
        "plane z=const (line x,y=const), compute_normals_1d yields an orthonormal pair normal to "
        "the line, and the 3-d tangential-normal blocks are orthonormal with determinant +1, "
        "equal the transposed basis and send the unit normal to the last axis; 2-d blocks are "
        "orthonormal with determinant +1 or -1 exactly as the code's sign convention fixes it. "
        "The model is tied to the code on every run: Coq recomputes every output in exact "
        "rationals (square roots exact on the rational-norm inputs) and compares entrywise.")
    level_note = (
        "P-core. Theorems are over exact real arithmetic: floating-point rounding is not covered "
        "(in particular arccos near +-1 loses ~1e-8 of the angle, so for normals within ~1e-4 of "
        "the axis the oracle only asks normal->axis up to 1e-7; orthogonality, determinant and "
        "isometry are asked at 1e-10 everywhere). sin(arccos d) = sqrt(1-d^2), cos(arccos d) = d "
        "are proved over R and used to write the model without trigonometry; sin/cos of the "
        "angle of rotation_matrix are inputs constrained by sn^2+cs^2=1. np.linalg.inv is "
        "modelled by the adjugate formula (proved to be the two-sided inverse; any two-sided "
        "inverse of an orthogonal matrix is its transpose). 2-d tangential-normal blocks have "
        "determinant -1 when n_y<0 or n=(+1,0) (documented sign convention of the code: tangent "
        "points in +x); 'unit determinant' is read as |det|=1 there and the sign is proved "
        "exactly. map_grid and general (irrational-norm) inputs are covered by the oracle only. "
        "The Q->R instance independence of the polymorphic model is trusted (same definition, "
        "two instances).")
    technique = ("Coq proof over R (nsatz/field/nra on the transcribed formulas) + vm_compute "
                 "execution correspondence in exact rationals")
    rule = ("kinds: rotation_matrix (rational sin/cos, Pythagorean or axis or in-band axis), "
            "project_plane/line_matrix from a normal/tangent or from planar/collinear integer "
            "point sets in planes with (doubly) Pythagorean normals (reference e_z/e_x/e_y), "
            "compute_normal/compute_tangent/compute_normals_1d, TangentialNormalProjection in "
            "2-d/3-d (axis-aligned, in-band, Pythagorean), error inputs (<3 points, collinear, "
            "zero tangent, tangent along z); plus oracle-only general float inputs, nearly "
            "parallel normals (1e-3..1e-9 off axis), non-unit-norm scalings and map_grid on "
            "rotated 1-d/2-d grids; non-trivial = not axis-aligned input; distinct by (case, output)")
    trusted = ["sqrt device: correspondence inputs have rational norms; qsqrt is exact there",
               "np.linalg.inv = exact inverse up to rounding (adjugate formula in the model)",
               "comparison tolerance 1e-9*(1+|x|) inside Coq on well-conditioned inputs",
               "the polymorphic model means the same over Q (executed) and R (theorems)"]
    assumptions = ["nonzero normal/tangent vectors; unit reference vector for 'maps onto the axis'",
                   "planar (collinear) point sets are exactly planar (collinear) in the theorems"]

    # ------------------------------------------------------------------ generation
    def generate(self, rng, n, tier):
        kinds = [("rot", 5), ("rot_gen", 3), ("plane_n", 5), ("plane_gen", 4), ("near", 3),
                 ("plane_pts", 4), ("plane_pts_gen", 2), ("line_t", 3), ("line_pts", 3),
                 ("line_gen", 2), ("normal", 4), ("normal_gen", 2), ("tangent", 2),
                 ("normals1d", 3), ("tn3", 5), ("tn3_gen", 3), ("tn2", 3), ("tn2_gen", 1),
                 ("errors", 3), ("map_grid", 1)]
        names = [k for k, _ in kinds]
        weights = [w for _, w in kinds]
        yield from self._corners()
        for _ in range(n):
            k = rng.choices(names, weights)[0]
            c = getattr(self, "_gen_" + k)(rng)
            if c is not None:
                yield c

    def _probes(self, rng, k=4):
        return [[rng.randint(-8, 8) / 2 for _ in range(3)] for _ in range(k)]

    def _corners(self):
        pr = [[1, 0, 0], [0, 2, 0], [0.5, 0.5, -3], [2, -1, 1]]
        for i in range(3):
            for s in (1, -1):
                v = [s * x for x in _axis(i)]
                yield {"kind": "rot", "tie": True, "sn": [3, 5], "cs": [4, 5], "vect": v, "probes": pr}
                yield {"kind": "plane_n", "tie": True, "normal": v, "ref": EZ, "probes": pr}
                yield {"kind": "line_t", "tie": True, "tangent": v, "ref": EZ, "probes": pr}
                yield {"kind": "tn3", "tie": True, "normals": [v]}
        yield {"kind": "rot", "tie": True, "sn": [3, 5], "cs": [4, 5], "vect": [0, 0, 0], "probes": pr}
        yield {"kind": "rot", "tie": True, "sn": [1, 1], "cs": [0, 1], "vect": [5e-9, -3e-9, 0], "probes": pr}
        yield {"kind": "rot", "tie": True, "sn": [1, 1], "cs": [0, 1], "vect": [0, 2e-8, 0], "probes": pr}
        yield {"kind": "plane_n", "tie": True, "normal": list(BAND), "ref": EZ, "probes": pr}
        yield {"kind": "plane_n", "tie": True, "normal": [-x for x in BAND], "ref": EZ, "probes": pr}
        yield {"kind": "tn3", "tie": True, "normals": [list(BAND), [BAND[2], BAND[0], 0],
                                                         [-BAND[0], -BAND[2], 0]]}
        for v in [(1, 0), (-1, 0), (0, 1), (0, -1)]:
            yield {"kind": "tn2", "tie": True, "normals": [list(v)]}

    def _gen_rot(self, rng):
        sn, cs = rng.choice(ANGLES)
        r = rng.random()
        if r < 0.6:
            v = _scale(rng, _signperm(rng, rng.choice(PYTH3)))
        elif r < 0.75:
            v = [x * rng.choice([1, -1, 2.5, 1e-3, 3e-8]) for x in _axis(rng.randrange(3))]
        elif r < 0.9:   # inside the allclose band
            v = [rng.choice([0, 1e-9, -7e-9, 5e-9, 2e-9]) for _ in range(3)]
        else:
            v = [0, 0, 0]
        return {"kind": "rot", "tie": True, "sn": [sn.numerator, sn.denominator],
                "cs": [cs.numerator, cs.denominator], "vect": v, "probes": self._probes(rng)}

    def _gen_rot_gen(self, rng):
        return {"kind": "rot", "tie": False, "angle": rng.uniform(-7, 7),
                "vect": [rng.gauss(0, 1) * rng.choice([1, 1, 100, 1e-3]) for _ in range(3)],
                "probes": self._probes(rng)}

    def _ref(self, rng):
        return rng.choice([2, 2, 2, 0, 1])

    def _gen_plane_n(self, rng, kind="plane_n", key="normal"):
        ax = self._ref(rng)
        v = list(rng.choice(DPYTH))
        v[0], v[1] = rng.choice([(v[0], v[1]), (v[1], v[0])])
        v = [x * rng.choice([1, -1]) for x in v]
        v = _scale(rng, _perm_to_axis(v, ax))
        return {"kind": kind, "tie": True, key: v, "ref": _axis(ax), "probes": self._probes(rng)}

    def _gen_line_t(self, rng):
        return self._gen_plane_n(rng, "line_t", "tangent")

    def _gen_plane_gen(self, rng, kind="plane_n", key="normal"):
        v = [rng.gauss(0, 1) for _ in range(3)]
        if rng.random() < 0.3:
            v[rng.randrange(3)] = 0.0
        if max(abs(x) for x in v) < 1e-3:
            v[0] = 1.0
        v = [x * rng.choice([1, 1, 1e3, 1e-3]) for x in v]
        if rng.random() < 0.7:
            ref = _axis(self._ref(rng))
        else:
            r = np.array([rng.gauss(0, 1) for _ in range(3)])
            ref = [float(x) for x in r / np.linalg.norm(r)]
        return {"kind": kind, "tie": False, key: v, "ref": ref, "probes": self._probes(rng)}

    def _gen_line_gen(self, rng):
        return self._gen_plane_gen(rng, "line_t", "tangent")

    def _gen_near(self, rng):
        """normals nearly (anti)parallel to the reference axis"""
        eps = rng.choice([1e-3, 1e-5, 1e-6, 1e-7, 3e-8, 5e-9, 1e-9, 1e-12])
        phi = rng.uniform(0, 2 * math.pi)
        s = rng.choice([1, -1])
        v = [eps * math.cos(phi), eps * math.sin(phi), s]
        kind, key = rng.choice([("plane_n", "normal"), ("line_t", "tangent"), ("tn3", None)])
        if kind == "tn3":
            ax = rng.randrange(3)
            return {"kind": "tn3", "tie": False, "normals": [_perm_to_axis(v, ax)]}
        return {"kind": kind, "tie": False, key: v, "ref": EZ, "probes": self._probes(rng)}

    def _gen_plane_pts(self, rng):
        for _ in range(50):
            ax = self._ref(rng)
            m = list(rng.choice(DPYTH))
            m = _perm_to_axis([x * rng.choice([1, -1]) for x in m], ax)
            pts = _plane_points(rng, m, rng.randint(3, 7))
            nrm = _normal_selection(pts)
            if nrm is None or _fdot(nrm, nrm) == 0:
                continue
            if _isqrt_exact(_fdot(nrm, nrm)) is None:
                continue
            return {"kind": "plane_pts", "tie": True, "pts": pts, "tol": 1e-5,
                    "ref": _axis(ax), "planar": True}
        return None

    def _gen_plane_pts_gen(self, rng):
        m = np.array([rng.gauss(0, 1) for _ in range(3)])
        m /= np.linalg.norm(m)
        u = np.cross(m, [1.0, 0, 0] if abs(m[0]) < 0.9 else [0, 1.0, 0])
        u /= np.linalg.norm(u)
        w = np.cross(m, u)
        o = np.array([rng.uniform(-3, 3) for _ in range(3)])
        # a well-conditioned planar cloud: a triangle of size ~1 plus random points
        ab = [(1, 0), (-0.5, 0.9), (-0.5, -0.8)] + [(rng.uniform(-1, 1), rng.uniform(-1, 1))
                                                     for _ in range(rng.randint(0, 5))]
        rng.shuffle(ab)
        pts = [[float(x) for x in o + a * u + b * w] for a, b in ab]
        kind = rng.choice(["plane_pts", "normal"])
        c = {"kind": kind, "tie": False, "pts": pts, "tol": 1e-5, "planar": True}
        if kind == "plane_pts":
            c["ref"] = EZ
        return c

    def _gen_line_pts(self, rng, kind="line_pts"):
        for _ in range(50):
            ax = self._ref(rng) if kind == "line_pts" else 2
            t = list(rng.choice(DPYTH))
            t = _perm_to_axis([x * rng.choice([1, -1]) for x in t], ax)
            pts = _line_points(rng, t, rng.randint(2, 6))
            tg = _tangent_selection(pts)
            if tg is None:
                continue
            c = {"kind": kind, "tie": True, "pts": pts, "collinear": True}
            if kind == "line_pts":
                c["ref"] = _axis(ax)
            return c
        return None

    def _gen_tangent(self, rng):
        if rng.random() < 0.5:
            return self._gen_line_pts(rng, "tangent")
        for _ in range(50):
            t = _signperm(rng, rng.choice(PYTH3))
            pts = _line_points(rng, t, rng.randint(2, 6))
            if _tangent_selection(pts) is not None:
                return {"kind": "tangent", "tie": True, "pts": pts, "collinear": True}
        return None

    def _gen_normals1d(self, rng):
        if rng.random() < 0.25:
            t = np.array([rng.gauss(0, 1) for _ in range(3)])
            o = np.array([rng.uniform(-3, 3) for _ in range(3)])
            lam = [-2.0, 0.3, 1.1, 3.0][: rng.randint(2, 4)]
            return {"kind": "normals1d", "tie": False, "collinear": True,
                    "pts": [[float(x) for x in o + l * t] for l in lam]}
        return self._gen_line_pts(rng, "normals1d")

    def _gen_normal(self, rng):
        for _ in range(50):
            m = _signperm(rng, rng.choice(PYTH3))
            pts = _plane_points(rng, m, rng.randint(3, 8))
            nrm = _normal_selection(pts)
            if nrm is None or _fdot(nrm, nrm) == 0 or _isqrt_exact(_fdot(nrm, nrm)) is None:
                continue
            return {"kind": "normal", "tie": True, "pts": pts, "tol": 1e-5, "planar": True}
        return None

    def _gen_normal_gen(self, rng):
        c = self._gen_plane_pts_gen(rng)
        c["kind"] = "normal"
        c.pop("ref", None)
        return c

    def _gen_tn3(self, rng):
        ns = []
        for _ in range(rng.randint(1, 4)):
            v = list(rng.choice(TN3))
            v[0], v[1] = rng.choice([(v[0], v[1]), (v[1], v[0])])
            v = [x * rng.choice([1, -1]) for x in v]
            if 0 in v and abs(v[2]) <= max(abs(v[0]), abs(v[1])):
                rng.shuffle(v)
            else:
                v = _perm_to_axis(v, rng.randrange(3))
            ns.append(_scale(rng, v))
        return {"kind": "tn3", "tie": True, "normals": ns}

    def _gen_tn3_gen(self, rng):
        ns = []
        for _ in range(rng.randint(1, 4)):
            v = [rng.gauss(0, 1) for _ in range(3)]
            if rng.random() < 0.3:
                v[rng.randrange(3)] = 0.0
            if max(abs(x) for x in v) < 1e-3:
                v[1] = -1.0
            ns.append([x * rng.choice([1, 1, 1e3, 1e-3]) for x in v])
        return {"kind": "tn3", "tie": False, "normals": ns}

    def _gen_tn2(self, rng):
        ns = []
        for _ in range(rng.randint(1, 4)):
            v = [x * rng.choice([1, -1]) for x in rng.choice(PYTH2)]
            k = rng.choice([1, 2, 0.5, 3])
            ns.append([x * k for x in v])
        return {"kind": "tn2", "tie": True, "normals": ns}

    def _gen_tn2_gen(self, rng):
        ns = []
        for _ in range(rng.randint(1, 4)):
            v = [rng.gauss(0, 1), rng.gauss(0, 1)]
            if rng.random() < 0.2:
                v[1] = rng.choice([0.0, 1e-9, -1e-9])
            if max(abs(x) for x in v) < 1e-3:
                v[0] = 1.0
            ns.append(v)
        return {"kind": "tn2", "tie": False, "normals": ns}

    def _gen_errors(self, rng):
        r = rng.randrange(6)
        o = [rng.randint(-3, 3) for _ in range(3)]
        if r == 0:      # fewer than three points
            pts = [[rng.randint(-3, 3) for _ in range(3)] for _ in range(rng.randint(1, 2))]
            return {"kind": rng.choice(["normal", "plane_pts"]), "tie": True, "pts": pts,
                    "tol": 1e-5, "ref": EZ, "planar": False}
        if r == 1:      # collinear points -> RuntimeError
            t = _signperm(rng, rng.choice(PYTH3))
            pts = _line_points(rng, t, rng.randint(3, 6))
            if _tangent_selection(pts) is None:
                return None
            return {"kind": rng.choice(["normal", "plane_pts"]), "tie": True, "pts": pts,
                    "tol": 1e-5, "ref": EZ, "planar": False}
        if r == 2:      # all points equal -> zero tangent (assert) / zero normal
            pts = [list(o) for _ in range(rng.randint(1, 4))]
            return {"kind": rng.choice(["tangent", "line_pts", "normals1d"]), "tie": True,
                    "pts": pts, "ref": EZ, "collinear": False}
        if r == 3:      # tangent along z: compute_normals_1d divides 0 by 0
            pts = _line_points(rng, [0, 0, rng.choice([1, -2, 3])], rng.randint(2, 4))
            if _tangent_selection(pts) is None:
                return None
            return {"kind": "normals1d", "tie": True, "pts": pts, "collinear": False}
        if r == 4:      # non-planar cloud: assertion in project_plane_matrix (oracle only)
            pts = [[0, 0, 0], [4, 0, 0], [0, 4, 0], [1, 1, rng.choice([1, 2, -3])]]
            return {"kind": "plane_pts", "tie": False, "pts": pts, "tol": 1e-5, "ref": EZ,
                    "planar": False}
        pts = [[rng.randint(-3, 3) for _ in range(3)]]
        return {"kind": "tangent", "tie": True, "pts": pts, "collinear": False}

    def _gen_map_grid(self, rng):
        A = np.array([[rng.gauss(0, 1) for _ in range(3)] for _ in range(3)])
        Q, _ = np.linalg.qr(A)
        return {"kind": "map_grid", "tie": False, "dim": rng.choice([1, 2]),
                "n": [rng.randint(1, 3), rng.randint(1, 3)],
                "Q": [[float(x) for x in row] for row in Q],
                "shift": [rng.uniform(-2, 2) for _ in range(3)],
                "simplex": rng.random() < 0.4}

    # -------------------------------------------------------------- implementation
    def run_impl(self, case):
        k = case["kind"]
        if k == "rot":
            if "angle" in case:
                a = case["angle"]
            else:
                a = math.atan2(case["sn"][0] / case["sn"][1], case["cs"][0] / case["cs"][1])
            return _guard(lambda: mg.rotation_matrix(a, np.array(case["vect"], dtype=float)))
        if k == "plane_n":
            return _guard(lambda: mg.project_plane_matrix(
                np.zeros((3, 3)), normal=np.array(case["normal"], dtype=float),
                reference=np.array(case["ref"], dtype=float), check_planar=False))
        if k == "plane_pts":
            P = np.array(case["pts"], dtype=float).T
            return _guard(lambda: mg.project_plane_matrix(
                P, tol=case["tol"], reference=np.array(case["ref"], dtype=float)))
        if k == "line_t":
            return _guard(lambda: mg.project_line_matrix(
                np.zeros((3, 2)), tangent=np.array(case["tangent"], dtype=float),
                reference=np.array(case["ref"], dtype=float)))
        if k == "line_pts":
            P = np.array(case["pts"], dtype=float).T
            return _guard(lambda: mg.project_line_matrix(
                P, reference=np.array(case["ref"], dtype=float)))
        if k == "normal":
            P = np.array(case["pts"], dtype=float).T.reshape(3, -1)
            return _guard(lambda: mg.compute_normal(P, tol=case["tol"]))
        if k == "tangent":
            P = np.array(case["pts"], dtype=float).T
            return _guard(lambda: mg.compute_tangent(P))
        if k == "normals1d":
            P = np.array(case["pts"], dtype=float).T
            # (3, 2) array: columns n1, n2 -> returned as n1 ++ n2
            return _guard(lambda: mg.compute_normals_1d(P).T)
        if k in ("tn3", "tn2"):
            N = np.array(case["normals"], dtype=float).T
            dim, nv = N.shape
            with warnings.catch_warnings():
                warnings.simplefilter("ignore")
                proj = pp.TangentialNormalProjection(N)
                full = proj.project_tangential_normal().toarray()
                pn = proj.project_normal().toarray()
                pt = proj.project_tangential().toarray()
                rep = proj.project_tangential_normal(2).toarray()
            blocks, assembled = [], True
            for i in range(nv):
                B = proj._projection[:, :, i]
                blocks.append(_guard(lambda B=B: B))
                sl = slice(i * dim, (i + 1) * dim)
                assembled &= bool(np.array_equal(full[sl, sl], B))
                assembled &= bool(np.array_equal(pn[i, sl], B[dim - 1]))
                assembled &= bool(np.array_equal(pt[i * (dim - 1):(i + 1) * (dim - 1), sl],
                                                 B[: dim - 1]))
            mask = np.kron(np.eye(nv), np.ones((dim, dim))) == 0
            assembled &= bool(np.all(full[mask] == 0))
            B0 = proj._projection[:, :, 0]
            assembled &= bool(np.array_equal(rep, np.kron(np.eye(2), B0)))
            return {"blocks": blocks, "assembled": assembled,
                    "normals": _flat(proj.normals.T)}
        if k == "map_grid":
            if case["dim"] == 2:
                if case["simplex"]:
                    g = pp.StructuredTriangleGrid(case["n"])
                else:
                    g = pp.CartGrid(case["n"])
            else:
                g = pp.CartGrid([case["n"][0] + 1])
            Q = np.array(case["Q"])
            g.nodes = Q @ g.nodes + np.array(case["shift"]).reshape(3, 1)
            g.compute_geometry()
            cc, fn, fc, R, dim, nodes = mg.map_grid(g)
            return {"R": _flat(R), "nodes3": _flat(g.nodes.T), "mapped": _flat(nodes.T),
                    "ldim": int(nodes.shape[0]), "gdim": int(g.dim),
                    "fn3": _flat(g.face_normals.T), "fn": _flat(fn.T)}
        raise ValueError(k)

    # ---------------------------------------------------------------------- oracle
    def oracle(self, case, res):
        k = case["kind"]
        if k in ("tn3", "tn2"):
            return self._oracle_tn(case, res)
        if k == "map_grid":
            return self._oracle_map_grid(case, res)
        wellposed = case.get("planar", case.get("collinear", True))
        if res[0] == "err":
            if k == "rot":
                return "rotation_matrix produced " + res[1]
            if k in ("plane_n", "line_t"):
                return f"{k}: nonzero vector and unit reference gave {res[1]}"
            if wellposed and not (k == "normals1d" and self._along_z(case)):
                return f"{k}: well-posed point set gave {res[1]}"
            return None
        out = np.array(res[1])
        if k in ("rot", "plane_n", "plane_pts", "line_t", "line_pts"):
            R = out.reshape(3, 3)
            why = _orth_report(R, k)
            if why:
                return why
            if "probes" in case:
                why = _isometry_report(R, case["probes"], k)
                if why:
                    return why
        if k == "rot":
            v = np.array(case["vect"], dtype=float)
            if np.abs(v).max() > 1e-6:
                kk = v / np.linalg.norm(v)
                if np.abs(R @ kk - kk).max() > TOL:
                    return "rotation does not fix its axis"
            return None
        if k in ("plane_n", "line_t"):
            u = np.array(case["normal" if k == "plane_n" else "tangent"], dtype=float)
            u = u / np.linalg.norm(u)
            ref = np.array(case["ref"], dtype=float)
            s = np.linalg.norm(np.cross(u, ref))
            img = R @ u
            if s >= 1e-4:
                if np.abs(img - ref).max() > TOL:
                    return f"{k}: unit vector mapped to {img.tolist()}, not to the reference axis"
            else:
                off = img - np.dot(img, ref) * ref
                if np.abs(off).max() > 1e-7:
                    return f"{k}: nearly parallel vector mapped {np.abs(off).max():.2e} off the axis"
            return None
        P = np.array(case["pts"], dtype=float)
        scale = 1 + np.abs(P - P.mean(axis=0)).max()
        if not wellposed:
            return None
        if k == "plane_pts":
            ref = np.array(case["ref"], dtype=float)
            h = (R @ P.T).T @ ref        # coordinate along the reference axis
            if np.abs(h - h[0]).max() > 1e-9 * scale:
                return "planar set not mapped into a plane normal to the reference axis"
            return None
        if k == "line_pts":
            ref = np.array(case["ref"], dtype=float)
            Qp = (R @ P.T).T
            off = Qp - np.outer(Qp @ ref, ref)
            if np.abs(off - off[0]).max() > 1e-9 * scale:
                return "collinear set not mapped onto a line along the reference axis"
            return None
        if k == "normal":
            nrm = out
            if abs(np.linalg.norm(nrm) - 1) > TOL:
                return "normal is not a unit vector"
            if np.abs((P - P[0]) @ nrm).max() > 1e-9 * scale:
                return "normal is not orthogonal to the planar point set"
            return None
        if k == "tangent":
            t = out
            if abs(np.linalg.norm(t) - 1) > TOL:
                return "tangent is not a unit vector"
            D = P - P[0]
            if np.abs(np.cross(D, t)).max() > 1e-9 * scale:
                return "tangent is not parallel to the collinear point set"
            return None
        if k == "normals1d":
            n1, n2 = out[:3], out[3:]
            G = np.array([[n1 @ n1, n1 @ n2], [n1 @ n2, n2 @ n2]])
            if np.abs(G - np.eye(2)).max() > TOL:
                return "compute_normals_1d: normals are not orthonormal"
            D = P - P[0]
            if max(np.abs(D @ n1).max(), np.abs(D @ n2).max()) > 1e-9 * scale:
                return "compute_normals_1d: normals are not orthogonal to the line"
            return None
        return None

    @staticmethod
    def _along_z(case):
        P = np.array(case["pts"], dtype=float)
        D = P - P[0]
        return np.abs(D[:, :2]).max() <= 1e-12 * (1 + np.abs(D).max())

    def _oracle_tn(self, case, res):
        dim = 3 if case["kind"] == "tn3" else 2
        if not res["assembled"]:
            return "project_tangential_normal/normal/tangential are not assembled from the blocks"
        N = np.array(case["normals"], dtype=float)
        got_n = np.array(res["normals"]).reshape(-1, dim)
        for i, (n, blk) in enumerate(zip(N, res["blocks"])):
            if blk[0] == "err":
                return f"block {i}: {blk[1]} for a nonzero normal"
            B = np.array(blk[1]).reshape(dim, dim)
            why = _orth_report(B, f"{case['kind']} block {i}", need_plus=(dim == 3))
            if why:
                return why
            u = n / np.linalg.norm(n)
            if np.abs(got_n[i] - u).max() > TOL:
                return f"block {i}: stored normal is not the unit normal"
            e = np.zeros(dim)
            e[-1] = 1
            if np.abs(B @ u - e).max() > TOL:
                return f"block {i}: normal mapped to {(B @ u).tolist()}, not to the last axis"
        return None

    def _oracle_map_grid(self, case, res):
        R = np.array(res["R"]).reshape(3, 3)
        why = _orth_report(R, "map_grid R")
        if why:
            return why
        if res["ldim"] != res["gdim"]:
            return "map_grid: wrong number of local coordinates"
        X = np.array(res["nodes3"]).reshape(-1, 3)
        Y = np.array(res["mapped"]).reshape(-1, res["ldim"])
        for i, j in itertools.combinations(range(len(X)), 2):
            d0 = np.linalg.norm(X[i] - X[j])
            d1 = np.linalg.norm(Y[i] - Y[j])
            if abs(d0 - d1) > 1e-9 * (1 + d0):
                return f"map_grid: node distance {d0!r} mapped to {d1!r}"
        f3 = np.array(res["fn3"]).reshape(-1, 3)
        f = np.array(res["fn"]).reshape(-1, res["ldim"])
        if np.abs(np.linalg.norm(f3, axis=1) - np.linalg.norm(f, axis=1)).max() > 1e-9:
            return "map_grid: face normal lengths changed"
        return None

    # ------------------------------------------------------------------------- tie
    def coq_case(self, case, res):
        if not case.get("tie"):
            return None
        k = case["kind"]
        if k == "rot":
            sn, cs = F(*case["sn"]), F(*case["cs"])
            if res[0] != "ok":
                return "false"
            return f"agree_rot {cq(sn)} {cq(cs)} {_v(case['vect'])} {clist(res[1], cq)}"
        if k == "plane_n":
            return f"agree_plane_normal {_v(case['normal'])} {_v(case['ref'])} {_res(res)}"
        if k == "line_t":
            return f"agree_line_tangent {_v(case['tangent'])} {_v(case['ref'])} {_res(res)}"
        pts = clist(case.get("pts", []), _v)
        if k == "plane_pts":
            return f"agree_plane_pts {pts} {cq(F(1, 100000))} {_v(case['ref'])} {_res(res)}"
        if k == "line_pts":
            return f"agree_line_pts {pts} {_v(case['ref'])} {_res(res)}"
        if k == "normal":
            return f"agree_normal {pts} {cq(F(1, 100000))} {_res(res)}"
        if k == "tangent":
            return f"agree_tangent {pts} {_res(res)}"
        if k == "normals1d":
            return f"agree_normals_1d {pts} {_res(res)}"
        if k == "tn3":
            return (f"agree_tn3 {clist(case['normals'], _v)} "
                    f"{clist(res['blocks'], _res)}")
        if k == "tn2":
            return (f"agree_tn2 {clist(case['normals'], _v)} "
                    f"{clist(res['blocks'], _res)}")
        return None

    def coq_diag(self, case, res):
        k = case["kind"]
        pts = clist(case.get("pts", []), _v)
        if k == "rot" and "sn" in case:
            return (f"rotation_matrix Q QO {cq(F(*case['sn']))} {cq(F(*case['cs']))} "
                    f"{_v(case['vect'])}")
        if k == "plane_n":
            return f"plane_matrix_normal Q QO {_v(case['normal'])} {_v(case['ref'])}"
        if k == "line_t":
            return f"line_matrix_tangent Q QO {_v(case['tangent'])} {_v(case['ref'])}"
        if k == "plane_pts":
            return f"plane_matrix_pts Q QO {pts} {cq(F(1, 100000))} {_v(case['ref'])}"
        if k == "line_pts":
            return f"line_matrix_pts Q QO {pts} {_v(case['ref'])}"
        if k == "normal":
            return f"compute_normal Q QO {pts} {cq(F(1, 100000))}"
        if k == "tangent":
            return f"compute_tangent Q QO {pts}"
        if k == "normals1d":
            return f"compute_normals_1d Q QO {pts}"
        if k == "tn3":
            return f"map (tn3_projection Q QO) {clist(case['normals'], _v)}"
        if k == "tn2":
            return f"map (tn2_projection Q QO) {clist(case['normals'], _v)}"
        return None

    def nontrivial(self, case, res):
        k = case["kind"]
        vecs = []
        for key in ("vect", "normal", "tangent"):
            if key in case:
                vecs.append(case[key])
        vecs += case.get("normals", [])
        if vecs:
            return any(sum(1 for x in v if x != 0) >= 2 for v in vecs)
        return len(case.get("pts", [])) >= 2 or k == "map_grid"

    def finding_key(self, case, res, why):
        return f"{case['kind']}: {why.split(':')[0][:60]}"

    def shrink(self, case, still_fails):
        for key in ("normals", "pts"):
            if key in case and len(case[key]) > 1:
                items = list(case[key])
                changed = True
                while changed and len(items) > 1:
                    changed = False
                    for i in range(len(items)):
                        c = dict(case, **{key: items[:i] + items[i + 1:]})
                        if still_fails(c):
                            items = c[key]
                            changed = True
                            break
                case = dict(case, **{key: items})
        return case


PROP = C32()
