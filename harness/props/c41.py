"""C41 — interpolation tables are exact for multilinear functions."""
from fractions import Fraction as Fr

import numpy as np

from harness.core import Prop, cz, cq, cnat, cbool, clist, coption

from porepy.utils.interpolation_tables import (
    AdaptiveInterpolationTable,
    InterpolationTable,
)

TOL = Fr(1, 10**9)


def _mlin(d, cs, x):
    """Same recursion as Model.C41.mlin (works for floats and Fractions)."""
    if d == 0 or len(x) == 0:
        return cs[0] if cs else 0
    n = 2 ** (d - 1)
    return _mlin(d - 1, cs[:n], x[1:]) + x[0] * _mlin(d - 1, cs[n:], x[1:])


def _is_affine(d, cs):
    # index of a coefficient: bit (d-1-i) set <=> factor x_i present
    return all(c == 0 for k, c in enumerate(cs) if bin(k).count("1") >= 2)


def _affine_coeff(d, cs, axis):
    return cs[1 << (d - 1 - axis)]


def _partial(d, cs, x, axis):
    """Exact partial derivative of the multilinear function (it does not depend on x[axis])."""
    x1 = list(x)
    x0 = list(x)
    x1[axis] = Fr(1)
    x0[axis] = Fr(0)
    return _mlin(d, cs, x1) - _mlin(d, cs, x0)


def _fr(v):
    return Fr(v[0], v[1])


def _close(a, b):
    return abs(a - b) <= TOL * (1 + abs(b))


def _out(o):
    if o[0] == "vals":
        return "(OVals " + clist(o[1], lambda v: cq(Fr(v))) + ")"
    return f"(OErr {o[1]})"


def _call(fn):
    try:
        v = fn()
        return ["vals", [float(z) for z in np.asarray(v).ravel()]]
    except ValueError:
        return ["err", "ValueErr"]
    except IndexError:
        return ["err", "IndexErr"]
    except AssertionError:
        return ["err", "AssertErr"]


class C41(Prop):
    id = "C41"
    props_file = "Props/C41.v"
    preamble = ("From Coq Require Import List ZArith QArith.\nImport ListNotations.\n"
                "From PP Require Import Model.C41.\n")
    n_cases = (160, 3000)
    design_ref = "DESIGN.md §5 C41, §6/§6.1 C41"
    level_text = (
        "Coq theorems (exact rationals, any dimension, any resolution >= 2 per axis, any "
        "box low<high) about an executable transcription of InterpolationTable / "
        "AdaptiveInterpolationTable: for every function that is affine in each variable "
        "separately, interpolate() returns f(x) at every point of the CLOSED box, gradient() "
        "returns the exact partial derivative (difference quotient of f along the axis; the "
        "coefficient c_axis for affine functions), neither raises; for every function "
        "whatsoever and every history of earlier adaptive queries the adaptive table's "
        "interpolate equals the standard table's at every point of the closed box, and its "
        "gradient equals the standard one for multilinear functions everywhere (for arbitrary "
        "functions away from the upper face of the differentiated axis). The model is tied to "
        "the code on every run: both are executed on generated boxes/resolutions/coefficient "
        "tables/query batches (interior, grid lines, lower and upper faces, corners, points "
        "outside) and Coq compares every output within 1e-9 relative.")
    level_note = (
        "Theorems are over exact rational arithmetic: floating-point rounding of the table "
        "(floor division next to grid lines, the 1e-13/1e-10 assertion bands) is covered only "
        "by the tie on dyadic data. Scalar-valued functions (dim=1) only. The rounding "
        "safeguard of quadrature_points_from_coordinates (extra stored vertices when a point "
        "is within 0.001 cell of the next grid line) is not modelled: it only adds stored "
        "vertices that the query formula never reads; the number of stored vertices is "
        "compared only on cases that stay away from that band. SparseNdArray/intersect_sets "
        "(KD-tree membership) is modelled as an association list keyed by the integer "
        "multi-index (its own check is C46). np.linspace's last point is taken as "
        "low+(npt-1)*h.")
    technique = ("Coq proof (induction on the dimension over Q, column-major index lemma, "
                 "invariant of the lazily filled store) + vm_compute execution correspondence")
    rule = ("random dimension 1-4, resolutions 2-5 per axis, dyadic boxes (85% with dyadic "
            "mesh size), multilinear coefficient tables with integer coefficients in [-5,5] "
            "(half of them affine), batches of 5-8 query points: cell interiors, interior grid "
            "lines, lower faces, UPPER faces and the upper corner (forced in every in-box case), "
            "points within 1/1024 cell of the next grid line, and cases with a point outside the "
            "box (ValueError); adaptive table queried point by point (interpolate + gradients); "
            "non-trivial = some query point lies on an upper face; distinct by (case, output)")
    trusted = ["float64 evaluation of the generated multilinear functions on dyadic grids is "
               "exact; outputs compared with |impl-model| <= 1e-9(1+|model|) inside Coq",
               "numpy floor division // on floats = floor of the exact quotient (dyadic data)"]
    assumptions = ["low < high and npt >= 2 on every axis (h=0 / a one-point axis divides by zero "
                   "in the code)", "scalar-valued table (dim=1)"]

    # ---------------------------------------------------------------- generation
    def _grid(self, rng):
        d = rng.choice([1, 1, 2, 2, 2, 3, 3, 4])
        npt = [rng.randint(2, 5) for _ in range(d)]
        dyadic_h = rng.random() < 0.85
        low, high = [], []
        for i in range(d):
            lo = Fr(rng.randint(-16, 16), rng.choice([1, 2, 4]))
            if dyadic_h:
                h = Fr(rng.randint(1, 6), rng.choice([1, 2, 4, 8]))
                hi = lo + (npt[i] - 1) * h
            else:
                hi = lo + Fr(rng.randint(1, 24), rng.choice([1, 2, 4]))
            low.append(lo)
            high.append(hi)
        return d, npt, low, high, dyadic_h

    def _coeffs(self, rng, d):
        cs = [rng.randint(-5, 5) for _ in range(2 ** d)]
        if rng.random() < 0.5:  # affine
            cs = [c if bin(k).count("1") <= 1 else 0 for k, c in enumerate(cs)]
        if all(c == 0 for c in cs[1:]):
            cs[-1 if d == 1 else 1] = rng.choice([-3, 2, 4])
        return cs

    def generate(self, rng, n, tier):
        for it in range(n):
            d, npt, low, high, dyadic_h = self._grid(rng)
            cs = self._coeffs(rng, d)
            hs = [(high[i] - low[i]) / (npt[i] - 1) for i in range(d)]
            kind = "outside" if rng.random() < 0.08 else "inbox"
            near = False
            pts = []

            def coord(i, mode):
                if mode == "upper":
                    return high[i]
                if mode == "lower":
                    return low[i]
                k = rng.randint(0, npt[i] - 2)
                if mode == "line":
                    if dyadic_h:
                        return low[i] + rng.randint(0, npt[i] - 1) * hs[i]
                    # float grid line of a non-dyadic mesh: what a user would compute
                    return Fr(float(low[i]) + rng.randint(0, npt[i] - 1) * float(hs[i]))
                if mode == "near":
                    c = low[i] + k * hs[i] + hs[i] * Fr(1023, 1024)
                    return Fr(float(c))
                c = low[i] + k * hs[i] + hs[i] * Fr(rng.randint(1, 7), 8)
                return Fr(float(c))

            npts = rng.randint(5, 8)
            for j in range(npts):
                r = rng.random()
                if j == 0:      # forced: one coordinate on the upper face
                    modes = [rng.choice(["in", "in", "line", "lower", "upper"]) for _ in range(d)]
                    modes[rng.randrange(d)] = "upper"
                elif j == 1:    # forced: the upper corner
                    modes = ["upper"] * d
                elif r < 0.35:
                    modes = ["in"] * d
                elif r < 0.9:
                    modes = [rng.choice(["in", "in", "line", "line", "lower", "upper"]) for _ in range(d)]
                else:
                    modes = [rng.choice(["in", "near"]) for _ in range(d)]
                    near = near or "near" in modes
                p = [coord(i, m) for i, m in enumerate(modes)]
                p = [min(max(c, low[i]), high[i]) for i, c in enumerate(p)]
                pts.append(p)
            if kind == "outside":
                i = rng.randrange(d)
                j = rng.randrange(len(pts))
                off = Fr(rng.randint(1, 8), 8) * hs[i]
                pts[j][i] = high[i] + off if rng.random() < 0.5 else low[i] - off
            yield {
                "d": d, "npt": npt,
                "low": [[c.numerator, c.denominator] for c in low],
                "high": [[c.numerator, c.denominator] for c in high],
                "cs": cs,
                "pts": [[[c.numerator, c.denominator] for c in p] for p in pts],
                "kind": kind,
                "cmp_store": bool(dyadic_h and not near),
            }

    # ---------------------------------------------------------------- implementation
    def run_impl(self, case):
        d = case["d"]
        cs = [float(c) for c in case["cs"]]
        low = np.array([float(_fr(v)) for v in case["low"]])
        high = np.array([float(_fr(v)) for v in case["high"]])
        npt = np.array(case["npt"], dtype=int)
        X = np.array([[float(_fr(c)) for c in p] for p in case["pts"]]).T.reshape(d, -1)

        def func(*c):
            return _mlin(d, cs, [float(z) for z in c])

        t = InterpolationTable(low, high, npt, func)
        interp = _call(lambda: t.interpolate(X.copy()))
        grads = [_call(lambda ax=ax: t.gradient(X.copy(), ax)) for ax in range(d)]

        a = AdaptiveInterpolationTable(dx=(high - low) / (npt - 1), base_point=low, function=func)
        aq, aout = [], []
        for j in range(X.shape[1]):
            x = X[:, j].reshape(d, 1)
            v = a.interpolate(x.copy())
            aq.append([j, None])
            aout.append(float(np.asarray(v).ravel()[0]))
            for ax in range(d):
                v = a.gradient(x.copy(), ax)
                aq.append([j, ax])
                aout.append(float(np.asarray(v).ravel()[0]))
        return {"interp": interp, "grads": grads, "aq": aq, "aout": aout,
                "nstored": int(a._table._coords.shape[1])}

    # ---------------------------------------------------------------- oracle
    def _inbox(self, case, p):
        return all(_fr(case["low"][i]) <= _fr(c) <= _fr(case["high"][i]) for i, c in enumerate(p))

    def oracle(self, case, res):
        from harness.core import has_nonfinite
        if has_nonfinite(res):
            return "a query inside the closed box returned a non-finite value (nan/inf)"
        d, cs = case["d"], case["cs"]
        pts = [[_fr(c) for c in p] for p in case["pts"]]
        if not all(self._inbox(case, p) for p in case["pts"]):
            return None  # the property speaks about points of the box only
        affine = _is_affine(d, cs)
        if res["interp"][0] == "err":
            return f"interpolate raised {res['interp'][1]} on points of the closed box"
        for j, p in enumerate(pts):
            exact = _mlin(d, cs, p)
            got = Fr(res["interp"][1][j])
            if not _close(got, exact):
                return (f"interpolate at point {j} {[str(c) for c in p]} = {float(got)!r}, "
                        f"multilinear function = {float(exact)!r}")
        for ax in range(d):
            g = res["grads"][ax]
            if g[0] == "err":
                return f"gradient(axis={ax}) raised {g[1]} on points of the closed box"
            if affine:
                for j, p in enumerate(pts):
                    c = Fr(_affine_coeff(d, cs, ax))
                    if not _close(Fr(g[1][j]), c):
                        return (f"gradient(axis={ax}) of a linear function at point {j} "
                                f"{[str(c_) for c_ in p]} = {g[1][j]!r}, exact {float(c)!r}")
        for (j, ax), v in zip(res["aq"], res["aout"]):
            std = res["interp"][1][j] if ax is None else res["grads"][ax][1][j]
            if not _close(Fr(v), Fr(std)):
                what = "interpolate" if ax is None else f"gradient(axis={ax})"
                return (f"adaptive {what} at point {j} {[str(c) for c in pts[j]]} = {v!r}, "
                        f"standard table = {std!r}")
        return None

    # ---------------------------------------------------------------- tie
    def coq_case(self, case, res):
        d = case["d"]
        q = lambda v: cq(_fr(v))
        pts = case["pts"]
        xs = clist(pts, lambda p: clist(p, q))
        aq = clist(res["aq"], lambda jq: "(" + clist(pts[jq[0]], q) + ", " + coption(jq[1], cnat) + ")")
        return ("agree_case " + " ".join([
            cnat(d), clist(case["low"], q), clist(case["high"], q), clist(case["npt"], cz),
            clist(case["cs"], lambda c: cq(Fr(c))), xs, _out(res["interp"]),
            clist(res["grads"], _out), aq, _out(["vals", res["aout"]]),
            cbool(case["cmp_store"]), cz(res["nstored"])]))

    def coq_diag(self, case, res):
        d = case["d"]
        q = lambda v: cq(_fr(v))
        t = (f"mk_table {clist(case['low'], q)} {clist(case['high'], q)} {clist(case['npt'], cz)} "
             f"(mlin {cnat(d)} {clist(case['cs'], lambda c: cq(Fr(c)))})")
        xs = clist(case["pts"], lambda p: clist(p, q))
        return f"(interpolate_batch ({t}) {xs}, map (gradient_batch ({t}) {xs}) (seq 0 {cnat(d)}))"

    def _on_upper(self, case, p):
        return any(_fr(c) == _fr(case["high"][i]) for i, c in enumerate(p))

    def nontrivial(self, case, res):
        return case["kind"] == "inbox" and any(self._on_upper(case, p) for p in case["pts"])

    def finding_key(self, case, res, why):
        up = any(self._on_upper(case, p) for p in case["pts"])
        if up and ("gradient" in why or "raised" in why):
            return "InterpolationTable: query point on the upper box face"
        return "interpolation-mismatch"

    def shrink(self, case, still_fails):
        pts = list(case["pts"])
        for p in list(pts):
            c = dict(case, pts=[p])
            if still_fails(c):
                return c
        return case


PROP = C41()
