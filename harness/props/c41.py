"""C41 — interpolation tables are exact for multilinear functions."""
from fractions import Fraction as Fr

import numpy as np

from harness.core import Prop, cz, cq, cnat, cbool, clist, coption  # noqa

from porepy.utils.interpolation_tables import (
    AdaptiveInterpolationTable,
    InterpolationTable,
)

TOL = Fr(1, 10**9)


def _mlin(d, cs, x):
    """Same recursion as Model.C41.mlin (works for floats and Fractions)."""
    if d == 0 or len(x) == 0:
        return cs[0] if cs else 0
    n = 2 ** (d - 1)
    return _mlin(d - 1, cs[:n], x[1:]) + x[0] * _mlin(d - 1, cs[n:], x[1:])


def _is_affine(d, cs):
    # index of a coefficient: bit (d-1-i) set <=> factor x_i present
    return all(c == 0 for k, c in enumerate(cs) if bin(k).count("1") >= 2)


def _affine_coeff(d, cs, axis):
    return cs[1 << (d - 1 - axis)]


def _partial(d, cs, x, axis):
    """Exact partial derivative of the multilinear function (it does not depend on x[axis])."""
    x1 = list(x)
    x0 = list(x)
    x1[axis] = Fr(1)
    x0[axis] = Fr(0)
    return _mlin(d, cs, x1) - _mlin(d, cs, x0)


def _fr(v):
    return Fr(v[0], v[1])


def _pk(x):
    x = Fr(x)
    return int(x) if x.denominator == 1 else [x.numerator, x.denominator]


def _cf(c):
    """coefficient: int or [num, den]"""
    return Fr(c[0], c[1]) if isinstance(c, (list, tuple)) else Fr(c)


def _close(a, b):
    return abs(a - b) <= TOL * (1 + abs(b))


def _out(o):
    if o[0] == "vals":
        return "(OVals " + clist(o[1], lambda v: cq(Fr(v))) + ")"
    return f"(OErr {o[1]})"


def _call(fn):
    try:
        v = fn()
        return ["vals", [float(z) for z in np.asarray(v).ravel()]]
    except ValueError:
        return ["err", "ValueErr"]
    except IndexError:
        return ["err", "IndexErr"]
    except AssertionError:
        return ["err", "AssertErr"]


class C41(Prop):
    id = "C41"
    props_file = "Props/C41.v"
    preamble = ("From Coq Require Import List ZArith QArith.\nImport ListNotations.\n"
                "From PP Require Import Model.C41.\n")
    n_cases = (160, 2000)
    design_ref = "DESIGN.md §5 C41, §6/§6.1 C41"
    level_text = (
        "Coq theorems (exact rationals, any dimension, any resolution >= 2 per axis, any "
        "box low<high) about an executable transcription of InterpolationTable / "
        "AdaptiveInterpolationTable: for every function that is affine in each variable "
        "separately, interpolate() returns f(x) at every point of the CLOSED box, gradient() "
        "returns the exact partial derivative (difference quotient of f along the axis; the "
        "coefficient c_axis for affine functions), neither raises; for every function "
        "whatsoever and every history of earlier adaptive queries the adaptive table's "
        "interpolate equals the standard table's at every point of the closed box, and its "
        "gradient equals the standard one for multilinear functions everywhere (for arbitrary "
        "functions away from the upper face of the differentiated axis). The model is tied to "
        "the code on every run: both are executed on generated boxes/resolutions/coefficient "
        "tables/query batches (interior, grid lines, lower and upper faces, corners, points "
        "outside) and Coq compares every output within 1e-9 relative.")
    level_note = (
        "Theorems are over exact rational arithmetic: floating-point rounding of the table "
        "(floor division next to grid lines, the 1e-13/1e-10 assertion bands) is covered only "
        "by the tie on dyadic data. Theorems are for scalar-valued tables; vector-valued tables "
        "(dim 2-3) are covered by the tie component by component (a table with dim>1 is "
        "compared with dim scalar model tables sharing the grid). The rounding "
        "safeguard of quadrature_points_from_coordinates (extra stored vertices when a point "
        "is within 0.001 cell of the next grid line) is not modelled: it only adds stored "
        "vertices that the query formula never reads; the number of stored vertices is "
        "compared only on cases that stay away from that band. SparseNdArray/intersect_sets "
        "(KD-tree membership) is modelled as an association list keyed by the integer "
        "multi-index (its own check is C46). np.linspace's last point is taken as "
        "low+(npt-1)*h.")
    technique = ("Coq proof (induction on the dimension over Q, column-major index lemma, "
                 "invariant of the lazily filled store) + vm_compute execution correspondence")
    rule = ("random dimension 1-4, resolutions 2-5 per axis, dyadic boxes (85% with dyadic "
            "mesh size) times one exact power-of-two scale 2^-6..2^12 (function scaled "
            "inversely), boxes up to 2^8 cells away from the origin or anchored at the origin "
            "(adaptive table then built with the default base point), 5% one-parameter tables with "
            "mesh sizes below 1e-10, scalar and vector-valued "
            "(dim 2-3) multilinear coefficient tables with integer coefficients in [-5,5] "
            "(half of them affine), batches of 5-8 query points: cell interiors, interior grid "
            "lines, lower faces, UPPER faces and the upper corner (forced in every in-box case), "
            "points within 1/1024 cell of the next grid line, points one ulp inside the faces, "
            "cases with a point outside the box incl. one ulp outside (ValueError); the first "
            "point also handed over as a 1-D array; query arrays checked unmodified and handed "
            "over as float64 C-order, Fortran-order, non-contiguous and negative-stride views; "
            "40% of the in-box cases add a call HISTORY on one standard and one adaptive table "
            "object: 2-4 mixed interpolate/gradient calls whose query buffer is reused and mutated "
            "in place (x[:] = new points, x += shift), passed fresh, or passed again unchanged; "
            "every call is checked at the current points and the buffer is asserted unmodified; "
            "18% of the cases use integer boxes with query arrays of dtype int64/int32 "
            "(integer points strictly inside cells, on nodes and upper faces) or float32 "
            "(points on a 1/8 lattice) for interpolate and gradient of both tables; "
            "adaptive table queried point by point (interpolate + gradients), its exceptions "
            "recorded as results; "
            "non-trivial = some query point lies on an upper face; distinct by (case, output)")
    trusted = ["float64 evaluation of the generated multilinear functions on dyadic grids is "
               "exact; outputs compared with |impl-model| <= 1e-9(1+|model|) inside Coq",
               "numpy floor division // on floats = floor of the exact quotient (dyadic data)"]
    assumptions = ["low < high and npt >= 2 on every axis (h=0 / a one-point axis divides by zero "
                   "in the code)", "mesh sizes between 2^-9 and 2^15, plus one-parameter tables with mesh sizes "
                   "2^-33..2^-43 (below the 1e-10 coordinate tolerance of intersect_sets)"]

    # ---------------------------------------------------------------- generation
    def _grid(self, rng):
        d = rng.choice([1, 1, 2, 2, 2, 3, 3, 4])
        npt = [rng.randint(2, 5) for _ in range(d)]
        dyadic_h = rng.random() < 0.85
        zero_low = rng.random() < 0.12          # box anchored at the origin (default base point)
        low, high = [], []
        # one exact power-of-two scale for the whole box (the function is scaled inversely, see
        # generate) and boxes away from the origin (offset up to 2^8 cells in dimension <= 2):
        # keeps the float evaluation well conditioned
        scale = Fr(2) ** rng.choice([0, 0, 0, -6, -3, 6, 12])
        if rng.random() < 0.05:
            # very fine one-parameter grids (mesh size below the 1e-10 coordinate tolerance used
            # inside the adaptive table); one parameter, dyadic: exact in floats
            d, dyadic_h, zero_low = 1, True, False
            npt = [rng.randint(2, 5)]
            scale = Fr(2) ** rng.choice([-34, -36, -40])
        for i in range(d):
            lo = Fr(rng.randint(-16, 16), rng.choice([1, 2, 4]))
            if d <= 2 and rng.random() < 0.2:
                lo += rng.choice([-1, 1]) * 2 ** rng.randint(4, 8)
            if zero_low:
                lo = Fr(0)
            if dyadic_h:
                h = Fr(rng.randint(1, 6), rng.choice([1, 2, 4, 8]))
                hi = lo + (npt[i] - 1) * h
            else:
                hi = lo + Fr(rng.randint(1, 24), rng.choice([1, 2, 4]))
            low.append(lo * scale)
            high.append(hi * scale)
        self._scale = scale
        return d, npt, low, high, dyadic_h, zero_low

    def _coeffs(self, rng, d):
        cs = [rng.randint(-5, 5) for _ in range(2 ** d)]
        if rng.random() < 0.5:  # affine
            cs = [c if bin(k).count("1") <= 1 else 0 for k, c in enumerate(cs)]
        if all(c == 0 for c in cs[1:]):
            cs[-1 if d == 1 else 1] = rng.choice([-3, 2, 4])
        return cs

    def _dtype_case(self, rng):
        """Query arrays of integer / float32 dtype: integer boxes with integer mesh size >= 2
        (integer points strictly inside cells exist) resp. points on a 1/8 lattice."""
        qd = rng.choice(["int64", "int64", "int32", "float32"])
        d = rng.choice([1, 2, 2, 3])
        npt = [rng.randint(2, 5) for _ in range(d)]
        zero_low = rng.random() < 0.2
        low = [Fr(0) if zero_low else Fr(rng.randint(-12, 12)) for _ in range(d)]
        hs = [Fr(rng.choice([2, 3, 4, 8] if qd != "float32" else [1, 2, 4])) for _ in range(d)]
        high = [low[i] + (npt[i] - 1) * hs[i] for i in range(d)]
        dim = rng.choice([1, 1, 2])
        css = [self._coeffs(rng, d) for _ in range(dim)]
        pts = []
        for j in range(rng.randint(5, 7)):
            p = []
            for i in range(d):
                k = rng.randint(0, npt[i] - 2)
                r = rng.random()
                if j == 1 or r < 0.15:
                    c = high[i]                                   # upper face / corner
                elif j == 0 or r < 0.75:                          # strictly inside a cell
                    if qd == "float32":
                        c = low[i] + k * hs[i] + hs[i] * Fr(rng.randint(1, 7), 8)
                    else:
                        c = low[i] + k * hs[i] + rng.randint(1, int(hs[i]) - 1)
                else:
                    c = low[i] + rng.randint(0, npt[i] - 1) * hs[i]   # a grid node
                p.append(c)
            pts.append(p)
        kind = "inbox"
        if rng.random() < 0.08:
            i = rng.randrange(d)
            pts[rng.randrange(len(pts))][i] = high[i] + 1 if rng.random() < 0.5 else low[i] - 1
            kind = "outside"
        return {
            "d": d, "npt": npt,
            "low": [[c.numerator, c.denominator] for c in low],
            "high": [[c.numerator, c.denominator] for c in high],
            "cs": css[0], "css": css, "default_base": bool(zero_low),
            "pts": [[[c.numerator, c.denominator] for c in p] for p in pts],
            "kind": kind, "cmp_store": True, "qdtype": qd,
        }

    def generate(self, rng, n, tier):
        for it in range(n):
            if rng.random() < 0.18:
                yield self._dtype_case(rng)
                continue
            d, npt, low, high, dyadic_h, zero_low = self._grid(rng)
            dim = rng.choice([1, 1, 1, 2, 3])     # dimension of the function range
            css = [self._coeffs(rng, d) for _ in range(dim)]
            sc = self._scale
            if sc != 1:   # f(x) = g(x / scale): coefficient of a product of m variables / scale^m
                css = [[_pk(Fr(c) / sc ** bin(k).count("1")) for k, c in enumerate(cs)] for cs in css]
            cs = css[0]
            hair = False
            hs = [(high[i] - low[i]) / (npt[i] - 1) for i in range(d)]
            kind = "outside" if rng.random() < 0.08 else "inbox"
            near = False
            pts = []

            def coord(i, mode):
                if mode == "upper":
                    return high[i]
                if mode == "lower":
                    return low[i]
                k = rng.randint(0, npt[i] - 2)
                if mode == "line":
                    if dyadic_h:
                        return low[i] + rng.randint(0, npt[i] - 1) * hs[i]
                    # float grid line of a non-dyadic mesh: what a user would compute
                    return Fr(float(low[i]) + rng.randint(0, npt[i] - 1) * float(hs[i]))
                if mode == "near":
                    c = low[i] + k * hs[i] + hs[i] * Fr(1023, 1024)
                    return Fr(float(c))
                if mode == "hair_hi":      # one ulp inside the upper face
                    return Fr(float(np.nextafter(float(high[i]), float(low[i]))))
                if mode == "hair_lo":      # one ulp inside the lower face
                    return Fr(float(np.nextafter(float(low[i]), float(high[i]))))
                c = low[i] + k * hs[i] + hs[i] * Fr(rng.randint(1, 7), 8)
                return Fr(float(c))

            npts = rng.randint(5, 8)
            for j in range(npts):
                r = rng.random()
                if j == 0:      # forced: one coordinate on the upper face
                    modes = [rng.choice(["in", "in", "line", "lower", "upper"]) for _ in range(d)]
                    modes[rng.randrange(d)] = "upper"
                elif j == 1:    # forced: the upper corner
                    modes = ["upper"] * d
                elif r < 0.35:
                    modes = ["in"] * d
                elif r < 0.9:
                    modes = [rng.choice(["in", "in", "line", "line", "lower", "upper"]) for _ in range(d)]
                elif r < 0.95:
                    modes = [rng.choice(["in", "near"]) for _ in range(d)]
                    near = near or "near" in modes
                else:
                    modes = [rng.choice(["in", "hair_hi", "hair_lo", "upper"]) for _ in range(d)]
                    hair = hair or any(m.startswith("hair") for m in modes)
                p = [coord(i, m) for i, m in enumerate(modes)]
                p = [min(max(c, low[i]), high[i]) for i, c in enumerate(p)]
                pts.append(p)
            if kind == "outside":
                i = rng.randrange(d)
                j = rng.randrange(len(pts))
                off = Fr(rng.randint(1, 8), 8) * hs[i]
                r = rng.random()
                if r < 0.3:
                    pts[j][i] = high[i] + off
                elif r < 0.6:
                    pts[j][i] = low[i] - off
                elif r < 0.8:      # one ulp outside the upper face
                    pts[j][i] = Fr(float(np.nextafter(float(high[i]), float("inf"))))
                    hair = True
                else:              # one ulp outside the lower face
                    pts[j][i] = Fr(float(np.nextafter(float(low[i]), float("-inf"))))
                    hair = True
            hist = None
            if kind == "inbox" and rng.random() < 0.4:
                # a call history on ONE table object: 2-4 interpolate/gradient calls; the query
                # buffer is reused and mutated in place (x[:] = new, x += shift), passed fresh,
                # or passed again unchanged
                nq = rng.randint(1, 3)
                hist, prev = [], None
                for st in range(rng.randint(2, 4)):
                    if st == 0:
                        mode = rng.choice(["inplace", "inplace", "fresh"])
                    elif st == 1 and rng.random() < 0.6:
                        mode = rng.choice(["inplace", "iadd"])
                    else:
                        mode = rng.choice(["inplace", "iadd", "fresh", "same"])
                    if mode == "same" and prev is not None:
                        hp = prev
                    else:
                        hp = []
                        for _q in range(nq):
                            modes = [rng.choice(["in", "in", "line", "lower", "upper"]) for _ in range(d)]
                            q_ = [coord(i, m) for i, m in enumerate(modes)]
                            hp.append([min(max(c, low[i]), high[i]) for i, c in enumerate(q_)])
                    prev = hp
                    op = None if rng.random() < 0.55 else rng.randrange(d)
                    hist.append({"op": op, "mode": mode,
                                 "pts": [[[c.numerator, c.denominator] for c in p_] for p_ in hp]})
            yield {
                "d": d, "npt": npt,
                "low": [[c.numerator, c.denominator] for c in low],
                "high": [[c.numerator, c.denominator] for c in high],
                "cs": cs, "css": css, "default_base": bool(zero_low),
                "pts": [[[c.numerator, c.denominator] for c in p] for p in pts],
                "hist": hist,
                "kind": kind,
                "cmp_store": bool(dyadic_h and not near and not hair),
                # memory layout of the query array handed to the tables
                "qdtype": rng.choice(["float64", "float64", "float64", "fortran", "view", "reversed"]),
            }

    # ---------------------------------------------------------------- implementation
    def run_impl(self, case):
        d = case["d"]
        css = [[float(_cf(c)) for c in cs] for cs in case.get("css", [case["cs"]])]
        dim = len(css)
        low = np.array([float(_fr(v)) for v in case["low"]])
        high = np.array([float(_fr(v)) for v in case["high"]])
        npt = np.array(case["npt"], dtype=int)
        X = np.array([[float(_fr(c)) for c in p] for p in case["pts"]]).T.reshape(d, -1)
        npts = X.shape[1]
        qd = case.get("qdtype", "float64")

        def conv(A):
            """the query array in the requested dtype / memory layout (values unchanged)"""
            if qd in ("int64", "int32", "float32"):
                B = A.astype(getattr(np, qd))
            elif qd == "fortran":
                B = np.asfortranarray(A.copy())
            elif qd == "view":          # non-contiguous view: every second entry of a wider array
                W = np.full(A.shape[:-1] + (2 * A.shape[-1],), 7.25)
                W[..., ::2] = A
                B = W[..., ::2]
            elif qd == "reversed":      # negative stride
                B = A[..., ::-1].copy()[..., ::-1]
            else:
                B = A.copy()
            assert B.shape == A.shape and np.array_equal(B.astype(np.float64), A), \
                "harness: query conversion is not lossless"
            return B

        def func(*c):
            z = [float(v) for v in c]
            if dim == 1:
                return _mlin(d, css[0], z)
            return np.array([_mlin(d, cs, z) for cs in css])

        def split(o):
            """per-component outputs of a (dim, npts) result"""
            if o[0] == "err":
                return [o] * dim
            v = np.asarray(o[1]).reshape(dim, -1)
            return [["vals", [float(z) for z in v[k]]] for k in range(dim)]

        def call(fn):
            try:
                return ["vals", np.asarray(fn(), dtype=float)]
            except ValueError:
                return ["err", "ValueErr"]
            except IndexError:
                return ["err", "IndexErr"]
            except AssertionError:
                return ["err", "AssertErr"]

        t = InterpolationTable(low, high, npt, func, dim=dim)
        Xc = conv(X)
        interp = split(call(lambda: t.interpolate(Xc)))
        grads = [split(call(lambda ax=ax: t.gradient(Xc, ax))) for ax in range(d)]
        assert np.array_equal(Xc.astype(np.float64), X), "query points were modified in place"
        # a single point handed over as a 1-D array
        single = split(call(lambda: t.interpolate(conv(X[:, 0]))))

        base = None if case.get("default_base") else low
        a = AdaptiveInterpolationTable(dx=(high - low) / (npt - 1), base_point=base, function=func,
                                       dim=dim)
        nstored = lambda: int(a._table._coords.shape[1])
        aq, aout = [], [[] for _ in range(dim)]
        aerr = None
        try:
            for j in range(npts):
                x = X[:, j].reshape(d, 1)
                v = np.asarray(a.interpolate(conv(x))).reshape(dim)
                aq.append([j, None])
                for k in range(dim):
                    aout[k].append(float(v[k]))
                for ax in range(d):
                    v = np.asarray(a.gradient(conv(x), ax)).reshape(dim)
                    aq.append([j, ax])
                    for k in range(dim):
                        aout[k].append(float(v[k]))
        except (AssertionError, ValueError, IndexError) as e:
            aerr = type(e).__name__
            aq = aq[:min(len(o) for o in aout)]
            aout = [o[:len(aq)] for o in aout]
        comps = [{"interp": interp[k], "grads": [g[k] for g in grads], "aout": aout[k],
                  "single": single[k]} for k in range(dim)]
        hist_out = None
        if case.get("hist"):
            hist_out = []
            for which in ("std", "adp"):
                if which == "std":
                    tb = InterpolationTable(low, high, npt, func, dim=dim)
                else:
                    tb = AdaptiveInterpolationTable(dx=(high - low) / (npt - 1), base_point=base,
                                                    function=func, dim=dim)
                buf = None
                for si, st in enumerate(case["hist"]):
                    P = np.array([[float(_fr(c)) for c in p] for p in st["pts"]]).T.reshape(d, -1)
                    mode = st["mode"]
                    if buf is None or mode == "fresh":
                        x = P.copy()
                        if mode != "fresh":
                            buf = x
                    elif mode == "inplace":
                        buf[:] = P
                        x = buf
                    elif mode == "iadd":
                        buf += P - buf
                        if not np.array_equal(buf, P):
                            buf[:] = P
                        x = buf
                    else:           # "same": the identical array object, unchanged (after an
                        # intermediate fresh-array call the buffer is refilled in place)
                        if not np.array_equal(buf, P):
                            buf[:] = P
                        x = buf
                    assert np.array_equal(x, P), "harness: history buffer out of sync"
                    if st["op"] is None:
                        o = call(lambda: tb.interpolate(x))
                    else:
                        o = call(lambda: tb.gradient(x, st["op"]))
                    assert np.array_equal(x, P), "query buffer was modified by the call"
                    if which == "std":
                        hist_out.append({"std": split(o)})
                    else:
                        hist_out[si]["adp"] = split(o)
        return {"comps": comps, "aq": aq, "aerr": aerr, "nstored": nstored(), "hist_out": hist_out,
                "interp": comps[0]["interp"], "grads": comps[0]["grads"], "aout": comps[0]["aout"]}

    # ---------------------------------------------------------------- oracle
    def _inbox(self, case, p):
        return all(_fr(case["low"][i]) <= _fr(c) <= _fr(case["high"][i]) for i, c in enumerate(p))

    def oracle(self, case, res):
        from harness.core import has_nonfinite
        if has_nonfinite(res):
            return "a query inside the closed box returned a non-finite value (nan/inf)"
        if not all(self._inbox(case, p) for p in case["pts"]):
            return None  # the property speaks about points of the box only
        if res.get("aerr"):
            return f"adaptive table raised {res['aerr']} on points of the closed box"
        css = case.get("css", [case["cs"]])
        for k, (cs, comp) in enumerate(zip(css, res["comps"])):
            why = self._oracle_component(case, cs, dict(comp, aq=res["aq"]))
            if why:
                return why if len(css) == 1 else f"component {k} of the vector-valued table: {why}"
        return self._oracle_history(case, res)

    def _oracle_history(self, case, res):
        if not case.get("hist") or not res.get("hist_out"):
            return None
        d = case["d"]
        css = [[_cf(c) for c in cs] for cs in case.get("css", [case["cs"]])]
        for si, (st, ho) in enumerate(zip(case["hist"], res["hist_out"])):
            pts = [[_fr(c) for c in p] for p in st["pts"]]
            what = "interpolate" if st["op"] is None else f"gradient(axis={st['op']})"
            tag = f"call {si + 1} of a history on one table ({what}, query array {st['mode']})"
            for k, cs in enumerate(css):
                for which, name in (("std", "standard"), ("adp", "adaptive")):
                    o = ho[which][k]
                    if o[0] == "err":
                        return f"{tag}: {name} table raised {o[1]}"
                    for j, p in enumerate(pts):
                        if st["op"] is None:
                            exact = _mlin(d, cs, p)
                        elif _is_affine(d, cs):
                            exact = Fr(_affine_coeff(d, cs, st["op"]))
                        else:
                            exact = _partial(d, cs, p, st["op"])
                        if not _close(Fr(o[1][j]), exact):
                            return (f"{tag}: {name} table at point {[str(c) for c in p]} = "
                                    f"{o[1][j]!r}, exact {float(exact)!r}")
        return None

    def _oracle_component(self, case, cs, res):
        d = case["d"]
        cs = [_cf(c) for c in cs]
        pts = [[_fr(c) for c in p] for p in case["pts"]]
        affine = _is_affine(d, cs)
        if res["interp"][0] == "err":
            return f"interpolate raised {res['interp'][1]} on points of the closed box"
        for j, p in enumerate(pts):
            exact = _mlin(d, cs, p)
            got = Fr(res["interp"][1][j])
            if not _close(got, exact):
                return (f"interpolate at point {j} {[str(c) for c in p]} = {float(got)!r}, "
                        f"multilinear function = {float(exact)!r}")
        for ax in range(d):
            g = res["grads"][ax]
            if g[0] == "err":
                return f"gradient(axis={ax}) raised {g[1]} on points of the closed box"
            if affine:
                for j, p in enumerate(pts):
                    c = Fr(_affine_coeff(d, cs, ax))
                    if not _close(Fr(g[1][j]), c):
                        return (f"gradient(axis={ax}) of a linear function at point {j} "
                                f"{[str(c_) for c_ in p]} = {g[1][j]!r}, exact {float(c)!r}")
        sg = res.get("single")
        if sg is not None:
            if sg[0] == "err":
                return f"interpolate of a single point given as a 1-D array raised {sg[1]}"
            if not _close(Fr(sg[1][0]), _mlin(d, cs, pts[0])):
                return (f"interpolate of a single point given as a 1-D array = {sg[1][0]!r}, "
                        f"multilinear function = {float(_mlin(d, cs, pts[0]))!r}")
        for (j, ax), v in zip(res["aq"], res["aout"]):
            std = res["interp"][1][j] if ax is None else res["grads"][ax][1][j]
            if not _close(Fr(v), Fr(std)):
                what = "interpolate" if ax is None else f"gradient(axis={ax})"
                return (f"adaptive {what} at point {j} {[str(c) for c in pts[j]]} = {v!r}, "
                        f"standard table = {std!r}")
        return None

    # ---------------------------------------------------------------- tie
    def coq_case(self, case, res):
        d = case["d"]
        q = lambda v: cq(_fr(v))
        pts = case["pts"]
        xs = clist(pts, lambda p: clist(p, q))
        aq = clist(res["aq"], lambda jq: "(" + clist(pts[jq[0]], q) + ", " + coption(jq[1], cnat) + ")")
        css = case.get("css", [case["cs"]])
        terms = []
        tiny = bool(case.get("tiny"))   # known-bad region of the adaptive table: standard table only
        for cs, comp in zip(css, res["comps"]):
            terms.append("agree_case " + " ".join([
                cnat(d), clist(case["low"], q), clist(case["high"], q), clist(case["npt"], cz),
                clist(cs, lambda c: cq(_cf(c))), xs, _out(comp["interp"]),
                clist(comp["grads"], _out), "[]" if tiny else aq,
                _out(["vals", [] if tiny else comp["aout"]]),
                cbool(case["cmp_store"] and not tiny), cz(res["nstored"])]))
            # the single point handed over as a 1-D array
            t = (f"mk_table {clist(case['low'], q)} {clist(case['high'], q)} {clist(case['npt'], cz)} "
                 f"(mlin {cnat(d)} {clist(cs, lambda c: cq(_cf(c)))})")
            terms.append(f"agree_out {_out(comp['single'])} (interpolate_batch ({t}) [{clist(pts[0], q)}])")
        if res.get("aerr"):
            terms.append("false")      # the model's adaptive table never raises inside the box
        if case.get("hist") and res.get("hist_out"):
            # every call of the history against the model at the CURRENT points (the model is
            # stateless; for multilinear functions the adaptive table equals the standard one,
            # C41_adaptive_agrees / C41_adaptive_gradient_multilinear_exact)
            for k, cs in enumerate(css):
                t = (f"mk_table {clist(case['low'], q)} {clist(case['high'], q)} {clist(case['npt'], cz)} "
                     f"(mlin {cnat(d)} {clist(cs, lambda c: cq(_cf(c)))})")
                sub = []
                for st, ho in zip(case["hist"], res["hist_out"]):
                    hx = clist(st["pts"], lambda p: clist(p, q))
                    m = (f"(interpolate_batch tb {hx})" if st["op"] is None
                         else f"(gradient_batch tb {hx} {cnat(st['op'])})")
                    sub.append(f"agree_out {_out(ho['std'][k])} {m}")
                    sub.append(f"agree_out {_out(ho['adp'][k])} {m}")
                terms.append(f"let tb := {t} in " + " && ".join(f"({x})" for x in sub))
        return " && ".join(f"({t})" for t in terms)

    def coq_diag(self, case, res):
        d = case["d"]
        q = lambda v: cq(_fr(v))
        t = (f"mk_table {clist(case['low'], q)} {clist(case['high'], q)} {clist(case['npt'], cz)} "
             f"(mlin {cnat(d)} {clist(case['cs'], lambda c: cq(_cf(c)))})")
        xs = clist(case["pts"], lambda p: clist(p, q))
        return f"(interpolate_batch ({t}) {xs}, map (gradient_batch ({t}) {xs}) (seq 0 {cnat(d)}))"

    def _on_upper(self, case, p):
        return any(_fr(c) == _fr(case["high"][i]) for i, c in enumerate(p))

    def nontrivial(self, case, res):
        return case["kind"] == "inbox" and any(self._on_upper(case, p) for p in case["pts"])

    def finding_key(self, case, res, why):
        if "AssertErr" in why or "AssertionError" in why:
            return "InterpolationTable: weight sanity assertion rejects a point of the box"
        if case.get("tiny") and "adaptive" in why:
            return "AdaptiveInterpolationTable: mesh size near the absolute 1e-10 coordinate tolerance"
        up = any(self._on_upper(case, p) for p in case["pts"])
        if up and ("gradient" in why or "raised" in why):
            return "InterpolationTable: query point on the upper box face"
        return "interpolation-mismatch"

    def shrink(self, case, still_fails):
        pts = list(case["pts"])
        for p in list(pts):
            c = dict(case, pts=[p])
            if still_fails(c):
                return c
        return case


PROP = C41()
