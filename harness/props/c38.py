"""C38 — cell data exported to vtu/pvd come back cell by cell on import; time information."""
import json
import os
import shutil
import xml.etree.ElementTree as ET
from fractions import Fraction
from pathlib import Path

import numpy as np
import scipy.sparse as sps

from harness import core
from harness.core import Prop, cz, cnat, clist, cbool, coption

import porepy as pp

TMP = os.path.join(core.VERIF, ".cache", "tmp", "C38")
KNOWN_POLY3D = ("import_state_from_vtu: 3-D polyhedral cell blocks not in increasing node "
                "count (meshio cannot read the file back)")      # fixed in /repo d6f81ecfd

# ------------------------------------------------------------------------------------------
# hand-made grids
# ------------------------------------------------------------------------------------------
PTS = {0: (0, 0), 1: (1, 0), 2: (1, 1), 3: (0, 1), 4: (2, 0.5), 5: (-1, 0.5),
       7: (-0.25, 1.75), 8: (0.5, 2.25), 9: (1.25, 1.75)}
LOOPS = {"q": [0, 1, 2, 3], "r": [1, 4, 2], "l": [3, 5, 0], "p": [2, 9, 8, 7, 3]}


def polygrid(cells, shift):
    """One 2-D grid made of the polygons named in ``cells`` (quad, right/left triangle,
    pentagon around the quad); the order of ``cells`` is the cell numbering."""
    used = sorted({n for c in cells for n in LOOPS[c]})
    nid = {n: i for i, n in enumerate(used)}
    nodes = np.array([[PTS[n][0] + shift, PTS[n][1], 0.0] for n in used]).T
    faces, fn, cf = {}, [], []
    for ci, c in enumerate(cells):
        lp = [nid[n] for n in LOOPS[c]]
        for a, b in zip(lp, lp[1:] + lp[:1]):
            key = (min(a, b), max(a, b))
            if key not in faces:
                faces[key] = len(faces)
                fn.append(key)
                sgn = 1
            else:
                sgn = -1
            cf.append((faces[key], ci, sgn))
    nf = len(fn)
    rows = np.array([n for f in fn for n in f])
    cols = np.repeat(np.arange(nf), 2)
    face_nodes = sps.csc_matrix((np.ones(2 * nf, dtype=bool), (rows, cols)), shape=(len(used), nf))
    cell_faces = sps.csc_matrix(
        (np.array([s for _, _, s in cf]),
         (np.array([f for f, _, _ in cf]), np.array([c for _, c, _ in cf]))),
        shape=(nf, len(cells)))
    g = pp.Grid(2, nodes, face_nodes, cell_faces, "poly")
    g.compute_geometry()
    return g


def make_grid(spec, k):
    kind = spec[0]
    if kind == "tri":
        g = pp.StructuredTriangleGrid([spec[1], 1])
    elif kind == "quad":
        g = pp.CartGrid([spec[1], 1])
    elif kind == "poly":
        return polygrid(spec[1], 10.0 * (k + 1))
    elif kind == "hex":
        g = pp.CartGrid([spec[1], 1, 1])
    elif kind == "tet":
        g = pp.StructuredTetrahedralGrid([1, 1, 1])
    elif kind == "tensor3":
        g = pp.TensorGrid(np.array([0, 1.0]), np.array([0, 1.0]), np.arange(spec[1] + 1.0))
    elif kind == "line":
        g = pp.CartGrid([spec[1]])
    else:
        raise ValueError(kind)
    g.compute_geometry()
    return g


def well_mdg(nfrac):
    """Unit cube with horizontal fractures and one vertical well crossing them: the md-grid
    has codimension-TWO interfaces (fracture / well-point, dim 0) whose ids lie between those
    of the codimension-one interfaces of the same dimension (well segment / point)."""
    dom = pp.Domain({"xmin": 0, "xmax": 1, "ymin": 0, "ymax": 1, "zmin": 0, "zmax": 1})
    fr = [pp.PlaneFracture(np.array([[0, 1, 1, 0], [1, 1, 0, 0], [z, z, z, z]]))
          for z in (0.5, 0.2, 0.1)[:nfrac]]
    fn = pp.create_fracture_network(fr, dom)
    wn = pp.WellNetwork3d(dom, [pp.Well(np.array([[0.5, 0.5], [0.5, 0.5], [1, 0.1]]))],
                          parameters={"mesh_size": 1})
    mdg = fn.mesh({"mesh_size_frac": 1, "mesh_size_min": 1})
    pp.fracs.wells_3d.compute_well_fracture_intersections(wn, fn)
    wn.mesh(mdg)
    return mdg


def build_mdg(case):
    if case["base"] is None:
        mdg = pp.MixedDimensionalGrid()
    elif case["base"] == "well":
        mdg = well_mdg(len(case["fracs"]))
    else:
        mdg, _ = pp.mdg_library.square_with_orthogonal_fractures(
            case["base"], {"cell_size": 0.5}, fracture_indices=case["fracs"])
    extra = [make_grid(s, k) for k, s in enumerate(case["extra"])]
    if extra:
        mdg.add_subdomains(extra)
    return mdg


def cell_types(g):
    """Number of nodes of every cell — the classification the exporter itself uses."""
    if g.dim == 0:
        return [1] * g.num_cells
    return [int(x) for x in np.asarray(g.cell_nodes().count_nonzero(axis=0)).ravel()]


def q(v):
    """cell values are multiples of 1/4; the model holds them as integers"""
    w = float(v) * 4
    assert w == int(w)
    return int(w)


def gen_times(rng, steps):
    """The ``times`` handed to write_pvd: None (default: the step indices) or strictly
    increasing physical times (multiples of 1/8) that are NOT the step indices."""
    n = len(steps)
    r = rng.random()
    if n < 2 or r < 0.3:
        return None
    if r < 0.36:                       # the last two exports at the same time (as a
        t = [float(i) for i in range(n)]   # stationary model writes them)
        t[-1] = t[-2]
        return t
    if r < 0.5:                        # non-integer, uneven spacing, starting at 0
        t, out = 0.0, []
        for _ in range(n):
            out.append(t)
            t += rng.choice([1, 2, 3, 4, 5, 12]) / 8.0
        return out
    if r < 0.65:                       # constant dt = 1/2: 0, 0.5, 1.0, 1.5
        return [steps[0] + 0.5 * i for i in range(n)]
    if r < 0.8:                        # times far beyond the number of steps
        t0 = rng.choice([50.0, 1000.0, 12.5])
        dt = rng.choice([1.0, 2.5, 10.0])
        return [t0 + dt * i for i in range(n)]
    if r < 0.9:                        # every time equals the NEXT step's index
        return [float(s + 1) for s in steps]
    # the latest time equals an EARLIER step's index
    return [steps[0] - 1.0 - 0.25 * (n - 1 - i) for i in range(n - 1)] + [float(steps[0])]


# ------------------------------------------------------------------------------------------
class C38(Prop):
    id = "C38"
    props_file = "Props/C38.v"
    preamble = ("From Coq Require Import List ZArith Bool Arith.\nImport ListNotations.\n"
                "From PP Require Import Model.C38.\n")
    n_cases = (60, 700)
    design_ref = "DESIGN.md §5 C38"
    level_text = (
        "Coq theorems over an executable transcription of the exporter's cell bookkeeping: for "
        "ANY assignment of cell types to cells and ANY number/order of grids of one dimension "
        "the concatenated per-type cell-id lists are a permutation of 0..N-1 "
        "(C38_cell_ids_permutation), also when the blocks are sorted by type as for 3-D polyhedral grids "
        "(C38_poly3d_blocks_sorted), hence writing values[ids] per block and, on import, "
        "scattering the concatenated blocks back through the ids and chopping by the "
        "entities' cell counts returns every entity's array exactly, whatever the "
        "uninitialised buffer held (C38_roundtrip, C38_roundtrip_poly3d, any value type: scalars or vectors); the "
        "restart entry chosen from a pvd file is the one with the numerically largest time, the "
        "files imported are exactly those LISTED with it, and they are the files of the most "
        "recent export whenever the times increase — whatever the times are, not only step "
        "indices (C38_pvd_latest, C38_pvd_most_recent); the time/dt history "
        "written by write_time_information is what load_time_information returns, and "
        "restoring at index i (python indexing, -1 = latest) yields the i-th written pair "
        "(C38_time_roundtrip, C38_time_restore). Every run builds real md-grids (fractured "
        "Cartesian/simplex squares with interfaces plus hand-added subdomains mixing "
        "triangles, quads, pentagons in one dimension, and 3-D Cartesian/tetrahedral/tensor "
        "grids), exports with the real Exporter, reads the vtu files with meshio and lets Coq "
        "compare cell ids, file blocks, restored values, the pvd choice and the time files.")
    level_note = (
        "Proved about the model of the bookkeeping; the vtu/pvd/json byte formats, meshio and "
        "the geometry/connectivity part of the files are covered only by the tie and the "
        "oracle (values restored cell by cell on the real files). Point data, constant data "
        "and the mdg-pvd variant are not modelled. Interfaces: the side grids play the role "
        "of the grids, the interfaces that of the entities. 3-D polyhedral blocks are written "
        "in increasing node count (as repaired), the order meshio's reader needs; that need "
        "itself is a fact about meshio covered only by the tie. The end-to-end restart of a real model "
        "(SinglePhaseFlow run with dt != 1, restarted through restart_options from the "
        "conventional pvd and from the mdg pvd) is covered by the oracle only: state, time, dt "
        "and time-step counter must be those of the last export.")
    technique = ("Coq proof (stable partition by type is a permutation; scatter after gather is "
                 "the identity) + vm_compute execution correspondence on real Exporter "
                 "internals and real vtu/pvd/json files")
    rule = ("2 (thorough: 8) directed md-grids with a well (unit cube, 2-3 fractures, one "
            "well: codimension-two interfaces of dimension 0 interleaved with codimension-one "
            "ones), subdomain and interface data; md-grids: optional fractured unit square (Cartesian or simplex, 0-2 fractures, with "
            "interfaces) plus 0-4 hand-added subdomains out of triangle strips, quad strips, "
            "polygon grids mixing quad/triangle/pentagon cells in random cell order, lines, and "
            "3-D hex / tet / tensor grids; 1-4 exports at increasing time-step indices in 0..13 "
            "(crossing 9 -> 10), the pvd written with the default times (= step indices) or with "
            "physical times that differ from the indices (non-integer uneven spacing, constant "
            "dt 1/2, times far beyond the number of steps, times equal to the next / an "
            "earlier step's index), scalar and 3-vector cell data in multiples of 1/4, interface "
            "data when there are interfaces, the (grid, key, array) tuples handed over in "
            "shuffled order, a single key given as a plain string; import through import_from_pvd; plus 1 (thorough: 6) end-to-end restarts of a "
            "SinglePhaseFlow run with dt in {1/4, 1/2, 1, 2} from the conventional / mdg pvd; plus "
            "time-history cases (1-6 writes, restore index in range and out of range); non-trivial = at "
            "least two cell types in one dimension or two time steps; distinct by (case, output)")
    trusted = [
        "meshio (reading the written vtu files back for the comparison and inside the importer)",
        "cell values are multiples of 1/4 held as integers; time values multiples of 1/1024",
        "the classification of cells by node count is computed by the harness with the same "
        "porepy call the exporter uses (cell_nodes().count_nonzero)",
    ]
    assumptions = [
        "the importing Exporter is built on the same md-grid as the exporting one",
        "one array per entity and key for all entities of a dimension (the exporter requires it)",
    ]

    # ---------------------------------------------------------------- generation
    def generate(self, rng, n, tier):
        for k in range(1 if tier == "quick" else 6):
            yield {"kind": "e2e", "dt": rng.choice([0.5, 0.25, 2.0, 1.0]),
                   "nsteps": rng.choice([2, 3, 4]), "mdg_pvd": bool(k % 2)}
        # directed: md-grids with a well (codimension-two interfaces present), subdomain and
        # interface states exported and re-imported
        for k in range(2 if tier == "quick" else 8):
            steps = sorted(rng.sample(range(0, 12), rng.choice([1, 2])))
            yield {"kind": "vtu", "base": "well", "fracs": [0, 1] if k % 2 == 0 else [0, 1, 2],
                   "extra": [] if k < 2 else [["tri", 1], ["quad", 1]][: rng.randint(0, 2)],
                   "steps": steps, "times": gen_times(rng, steps), "str_key": False,
                   "vector": bool(k % 2), "seed": rng.randint(0, 10 ** 6)}
        for i in range(n):
            if i % 4 == 3:
                k = rng.randint(1, 6)
                steps = [[rng.randint(0, 4000) / 8.0, rng.randint(1, 800) / 16.0] for _ in range(k)]
                idx = rng.choice([-1, -1, -1, 0, k - 1, rng.randint(-k, k - 1), k, -k - 1])
                case = {"kind": "time", "steps": steps, "idx": idx}
                if rng.random() < 0.6:
                    # adaptive manager; logged dt below / above / on the bounds (the
                    # schedule correction may legitimately shorten a step below dt_min)
                    lo, hi = rng.choice([(0.5, 10.0), (1.0, 4.0), (2.0, 25.0)])
                    for st in steps:
                        st[1] = rng.choice([lo, hi, lo / 4, lo / 2, hi * 2, hi + 0.5, st[1]])
                    case["adaptive"] = [lo, hi]
                yield case
                continue
            r = rng.random()
            base = None if r < 0.45 else ("cartesian" if r < 0.75 else "simplex")
            fracs = None
            if base is not None:
                fracs = rng.choice([[0], [1], [0, 1], []])
            extra = []
            three_d = rng.random() < 0.3
            for _ in range(rng.choice([0, 1, 2, 3, 3, 4]) if base is None or rng.random() < 0.7 else 0):
                if three_d:
                    extra.append(rng.choice([["hex", rng.randint(1, 2)], ["tet", 1],
                                             ["tensor3", rng.randint(1, 2)]]))
                else:
                    c = rng.random()
                    if c < 0.3:
                        extra.append(["tri", rng.randint(1, 2)])
                    elif c < 0.55:
                        extra.append(["quad", rng.randint(1, 3)])
                    elif c < 0.9:
                        others = [x for x in "rlp" if rng.random() < 0.6]
                        cells = ["q"] + others
                        rng.shuffle(cells)
                        extra.append(["poly", cells])
                    else:
                        extra.append(["line", rng.randint(1, 3)])
            if base is None and not extra:
                extra = [["tri", 1], ["quad", 2], ["tri", 1]]
            nsteps = rng.choice([1, 2, 3, 4])
            start = rng.choice([0, 0, 1, 7, 8, 9])
            steps = sorted(rng.sample(range(start, start + 5), nsteps))
            yield {"kind": "vtu", "base": base, "fracs": fracs, "extra": extra, "steps": steps,
                   "times": gen_times(rng, steps), "str_key": rng.random() < 0.5,
                   "vector": rng.random() < 0.35, "seed": rng.randint(0, 10 ** 6)}

    # ---------------------------------------------------------------- implementation
    def _folder(self):
        d = os.path.join(TMP, f"run_{os.getpid()}")
        shutil.rmtree(d, ignore_errors=True)
        os.makedirs(d, exist_ok=True)
        return d

    def _run_e2e(self, case):
        folder = self._folder()

        class Model(pp.SinglePhaseFlow):
            def bc_values_pressure(self, bg):
                return np.full(bg.num_cells, 1.0 + self.time_manager.time)

            def bc_type_darcy_flux(self, sd):
                return pp.BoundaryCondition(sd, sd.get_boundary_faces(), "dir")

        def params(tend, restart=None):
            p = {"time_manager": pp.TimeManager(schedule=[0.0, tend], dt_init=case["dt"],
                                                constant_dt=True),
                 "folder_name": folder, "file_name": "run",
                 "meshing_arguments": {"cell_size": 0.5},
                 "material_constants": {"fluid": pp.FluidComponent(compressibility=0.1)}}
            if restart is not None:
                p["restart_options"] = restart
            return p

        try:
            n = case["nsteps"]
            m = Model(params(case["dt"] * n))
            pp.run_time_dependent_model(m)
            state = m.equation_system.get_variable_values(time_step_index=0).copy()
            pvd = (Path(folder) / f"run_{n:06d}.pvd") if case["mdg_pvd"] else Path(folder) / "run.pvd"
            m2 = Model(params(case["dt"] * (n + 2),
                              {"restart": True, "pvd_file": pvd, "is_mdg_pvd": case["mdg_pvd"]}))
            captured = {}
            orig = m2.time_manager.set_time_and_dt_from_exported_steps

            def spy(time_index=-1):
                orig(time_index)
                back = m2.equation_system.get_variable_values(time_step_index=0)
                captured.update(index=int(time_index), time=float(m2.time_manager.time),
                                dt=float(m2.time_manager.dt),
                                state_ok=bool(np.array_equal(back, state)))

            m2.time_manager.set_time_and_dt_from_exported_steps = spy
            # restart and continue for two more steps; the pvd file is continued (append)
            pp.run_time_dependent_model(m2)
            hist = json.load(open(Path(folder) / "times.json"))["time"]
            pvd_entries = []
            for el in ET.parse(Path(folder) / "run.pvd").iter("DataSet"):
                pvd_entries.append([float(el.attrib["timestep"]),
                                    int(Path(el.attrib["file"]).stem[-6:])])
            state_ok = captured.pop("state_ok", False)
            return {"restored": captured, "state_ok": state_ok,
                    "written": [case["dt"] * n, case["dt"], n],
                    "history": hist, "pvd": pvd_entries}
        finally:
            shutil.rmtree(folder, ignore_errors=True)

    def run_impl(self, case):
        if case["kind"] == "time":
            return self._run_time(case)
        if case["kind"] == "e2e":
            return self._run_e2e(case)
        import meshio
        folder = self._folder()
        try:
            return self._run_vtu(case, folder, meshio)
        finally:
            shutil.rmtree(folder, ignore_errors=True)

    def _run_time(self, case):
        folder = self._folder()
        path = Path(folder) / "times.json"
        try:
            tm = pp.TimeManager(schedule=[0.0, 1000.0], dt_init=1.0, constant_dt=True)
            for t, h in case["steps"]:
                tm.time, tm.dt = t, h
                tm.write_time_information(path)
            on_disk = json.load(open(path))
            if case.get("adaptive"):
                lo, hi = case["adaptive"]
                tm2 = pp.TimeManager(schedule=[0.0, 1000.0], dt_init=lo, constant_dt=False,
                                     dt_min_max=(lo, hi))
            else:
                tm2 = pp.TimeManager(schedule=[0.0, 1000.0], dt_init=1.0, constant_dt=True)
            tm2.load_time_information(path)
            try:
                tm2.set_time_and_dt_from_exported_steps(case["idx"])
                restored = [tm2.time, tm2.dt, list(tm2.exported_times), list(tm2.exported_dt)]
            except IndexError:
                restored = None
            return {"file": [on_disk["time"], on_disk["dt"]], "restored": restored}
        finally:
            shutil.rmtree(folder, ignore_errors=True)

    def _run_vtu(self, case, folder, meshio):
        rng = np.random.default_rng(case["seed"])
        mdg = build_mdg(case)
        ex = pp.Exporter(mdg, "f", folder_name=folder)
        sds = mdg.subdomains()
        intfs = mdg.interfaces(codim=1)
        nvec = 3 if case["vector"] else 1

        def rand(n):
            a = rng.integers(-400, 400, size=(nvec, n)) / 4.0
            return a if case["vector"] else a[0]

        written = {}
        for ts in case["steps"]:
            data = [(sd, "pres", rand(sd.num_cells)) for sd in sds]
            data += [(intf, "lam", rand(intf.num_cells)) for intf in intfs]
            # the (grid, key, array) tuples are handed over in a random, in general
            # non-canonical, order
            data = [data[i] for i in rng.permutation(len(data))]
            written[ts] = data
            ex.write_vtu(data, time_step=ts)
        times = case.get("times")
        if times is None:
            ex.write_pvd()
        else:
            ex.write_pvd(times=np.array(times, dtype=float))
        last = written[case["steps"][-1]]
        # what was written, per dimension
        dims = []
        for is_sd, geoms, ents in ((True, ex.meshio_geom, sds), (False, ex.m_meshio_geom, intfs)):
            for dim in sorted(geoms, reverse=True):
                geom = geoms[dim]
                if geom is None:
                    continue
                es = [e for e in ents if e.dim == dim]
                if is_sd:
                    grids = [cell_types(g) for g in es]
                else:
                    grids = [cell_types(g) for e in es for _, g in e.side_grids.items()]
                vals = [np.asarray(v) for e in es for (e2, _, v) in last if e2 is e]
                stem = f"f_{dim}_" if is_sd else f"f_mortar_{dim}_"
                fname = Path(folder) / f"{stem}{case['steps'][-1]:06d}.vtu"
                key = "pres" if is_sd else "lam"
                try:
                    blocks = [np.asarray(b).tolist() for b in meshio.read(fname).cell_data[key]]
                except ValueError as e:
                    if "Incompatible cell data" not in str(e):
                        raise
                    blocks = "unreadable"
                dims.append({"sd": is_sd, "dim": int(dim), "grids": grids,
                             "ids": [np.asarray(c).tolist() for c in geom.cell_ids],
                             "vals": [v.T.tolist() if case["vector"] else v.tolist() for v in vals],
                             "blocks": blocks})
        # the pvd file
        entries = []
        files = []
        for el in ET.parse(Path(folder) / "f.pvd").iter("DataSet"):
            files.append(el.attrib["file"])
            ts1024 = Fraction(el.attrib["timestep"]) * 1024
            assert ts1024.denominator == 1
            entries.append([int(ts1024), len(files) - 1])
        # import on a fresh exporter over the same md-grid, states emptied
        for _, d in mdg.subdomains(return_data=True):
            d[pp.TIME_STEP_SOLUTIONS] = {}
        for _, d in mdg.interfaces(return_data=True):
            d[pp.TIME_STEP_SOLUTIONS] = {}
        ex2 = pp.Exporter(mdg, "f", folder_name=folder)
        try:
            # a single key may be given as a plain string (documented)
            keys = "pres" if (case.get("str_key") and not intfs) else ["pres", "lam"]
            ti = ex2.import_from_pvd(Path(folder) / "f.pvd", keys=keys)
        except ValueError as e:
            if "Incompatible cell data" not in str(e):
                raise
            return {"dims": dims, "entries": entries, "picked": None, "restored": "meshio-unreadable"}
        picked = [int(ti), [files.index(str(f)) for f in ex2._restart_files],
                  [str(f) for f in ex2._restart_files], files]
        restored = []
        for dd in dims:
            ents = [e for e in (sds if dd["sd"] else intfs) if e.dim == dd["dim"]]
            key = "pres" if dd["sd"] else "lam"
            out = []
            for e in ents:
                d = mdg.subdomain_data(e) if dd["sd"] else mdg.interface_data(e)
                if key not in d[pp.TIME_STEP_SOLUTIONS]:
                    out.append("nothing-imported")
                    continue
                v = np.asarray(d[pp.TIME_STEP_SOLUTIONS][key][0])
                out.append(v.reshape((-1, nvec)).tolist() if case["vector"] else v.tolist())
            restored.append(out)
        return {"dims": dims, "entries": entries, "picked": picked, "restored": restored}

    # ---------------------------------------------------------------- oracle
    def oracle(self, case, res):
        if case["kind"] == "e2e":
            t, h, n = res["written"]
            r = res["restored"]
            if not res["state_ok"]:
                return "model restart: the variable values differ from the last exported state"
            if (r.get("time"), r.get("dt"), r.get("index")) != (t, h, n):
                return (f"model restart: time/dt/index restored {r}, the last export was at "
                        f"time {t} with dt {h}, time-step index {n}")
            # the pvd file continued after the restart: one entry per exported step (from
            # the restart step on; from step 0 on when continued from the conventional pvd),
            # each with the time at which that step was written
            hist = res["history"]
            first = n if case["mdg_pvd"] else 0
            want = [[hist[i], i] for i in range(first, len(hist))]
            if len(hist) != n + 3 or res["pvd"] != want:
                return (f"model restart: the continued pvd file lists (time, step) "
                        f"{res['pvd']}, the steps were written at {want}")
            return None
        if case["kind"] == "time":
            k = len(case["steps"])
            ts = [s[0] for s in case["steps"]]
            hs = [s[1] for s in case["steps"]]
            if res["file"] != [ts, hs]:
                return f"times.json holds {res['file']}, written {[ts, hs]}"
            i = case["idx"]
            if -k <= i < k:
                if res["restored"] is None or res["restored"][:2] != [ts[i], hs[i]]:
                    return f"restoring index {i} gave {res['restored']}, written {(ts[i], hs[i])}"
            return None
        if res["restored"] == "meshio-unreadable":
            return "the exported vtu file cannot be read back (ValueError inside meshio.read)"
        last = case["steps"][-1]
        suffix = f"_{last:06d}.vtu"
        want = sorted(f for f in res["picked"][3] if f.endswith(suffix))
        times = case.get("times")
        tied = times is not None and len(times) > 1 and times[-1] == times[-2]
        if tied:
            # two exports share the latest time: their files are all listed with it; the
            # property only asks for the values of the most recent one (checked below)
            if not set(want) <= set(res["picked"][2]):
                return (f"import_from_pvd restarted from the files {sorted(res['picked'][2])}, "
                        f"which lack the files of the most recent time-step index {last}: {want}")
        elif sorted(res["picked"][2]) != want:
            return (f"import_from_pvd restarted from the files {sorted(res['picked'][2])}, the "
                    f"files of the most recent time-step index {last} are {want}")
        if res["picked"][0] != last:
            return (f"import_from_pvd restarted from time step {res['picked'][0]}, the most "
                    f"recent one written is {last}")
        for dd, back in zip(res["dims"], res["restored"]):
            if back != dd["vals"]:
                what = "subdomains" if dd["sd"] else "interfaces"
                return (f"{what} of dimension {dd['dim']}: values restored {back} differ from "
                        f"the values written at the latest step {dd['vals']}")
        return None

    # ---------------------------------------------------------------- Coq
    def coq_case(self, case, res):
        if case["kind"] == "e2e":
            return None          # oracle only
        if case["kind"] == "time":
            enc = lambda v: cz(int(float(v) * 1024))
            steps = clist([f"({enc(t)}, {enc(h)})" for t, h in case["steps"]])
            file = f"({clist(res['file'][0], enc)}, {clist(res['file'][1], enc)})"
            r = res["restored"]
            rest = "None" if r is None else (
                f"(Some ({enc(r[0])}, {enc(r[1])}, {clist(r[2], enc)}, {clist(r[3], enc)}))")
            return f"time_agree {steps} {file} {cz(case['idx'])} {rest}"
        if res["restored"] == "meshio-unreadable":
            return None
        terms = []
        # vector values: one model run per component
        ncomp = 3 if case["vector"] else 1
        for dd, back in zip(res["dims"], res["restored"]):
            if dd["blocks"] == "unreadable":
                return None
            if "nothing-imported" in back:
                return "false"
            for c in range(ncomp):
                pick = (lambda x: q(x[c])) if case["vector"] else q
                grids = clist(dd["grids"], lambda g: clist(g, cz))
                ids = clist(dd["ids"], lambda b: clist(b, cnat))
                vals = clist(dd["vals"], lambda a: clist([pick(x) for x in a], cz))
                blocks = clist(dd["blocks"], lambda b: clist([pick(x) for x in b], cz))
                rest = clist(back, lambda a: clist([pick(x) for x in a], cz))
                three_d = cbool(dd["sd"] and dd["dim"] == 3)
                terms.append(f"dim_agree {three_d} {grids} {ids} {vals} {blocks} {rest}")
        entries = clist([f"({cz(t)}, {cnat(f)})" for t, f in res["entries"]])
        picked = f"(Some ({cz(res['picked'][0])}, {clist(res['picked'][1], cnat)}))"
        suffixes = clist([int(Path(f).stem[-6:]) for f in res["picked"][3]], cz)
        terms.append(f"pvd_agree {suffixes} {entries} {picked}")
        return "(" + " && ".join(terms) + ")"

    def nontrivial(self, case, res):
        if case["kind"] == "e2e":
            return True
        if case["kind"] == "time":
            return len(case["steps"]) > 1
        return len(case["steps"]) > 1 or any(
            len({t for g in dd["grids"] for t in g}) > 1 for dd in res["dims"])

    def finding_key(self, case, res, why):
        if case["kind"] == "vtu":
            if "import_from_pvd restarted from" in why:
                return "import_from_pvd: latest time step"
            if "nothing-imported" in why and case.get("str_key"):
                return "import_state_from_vtu: keys given as a single string"
            for dd in res["dims"]:
                if dd["sd"] and dd["dim"] == 3 and len(dd["ids"]) > 1 and (
                        "cannot be read back" in why):
                    return KNOWN_POLY3D
            return "import_state_from_vtu: interleaved cell types across subdomains of one dimension"
        if case["kind"] == "e2e":
            if "continued pvd" in why:
                return "write_pvd(append=True): continued pvd file after a model restart"
            return "import_from_pvd: time index of a conventional pvd written with physical times"
        return "time-information"

    def shrink(self, case, still_fails):
        if case["kind"] != "vtu":
            return case
        cur = dict(case)
        for key, val in (("vector", False), ("base", None)):
            t = dict(cur, **{key: val})
            if key == "base":
                t["fracs"] = None
            if (t["base"] is not None or t["extra"]) and still_fails(t):
                cur = t
        i = 0
        while i < len(cur["extra"]) and len(cur["extra"]) > 1:
            t = dict(cur, extra=cur["extra"][:i] + cur["extra"][i + 1:])
            if still_fails(t):
                cur = t
            else:
                i += 1
        return cur


PROP = C38()
