"""C12 — Tpfa.discretize: symmetric, single-valued, constant-preserving; M-matrix and
linear exactness on K-orthogonal grids; MPFA coincidence (oracle only)."""
import math
from fractions import Fraction

import numpy as np
import scipy.sparse as sps

from harness.core import Prop, cbool, clist

import porepy as pp
from porepy.numerics.linalg.matrix_operations import sparse_array_to_row_col_data

KW = "flow"


def cz(n):
    n = int(n)
    return str(n) if n >= 0 else f"({n})"


def cq(x):
    fr = Fraction(x)
    return f"({fr.numerator} # {fr.denominator})" if fr.numerator >= 0 else f"(({fr.numerator}) # {fr.denominator})"


def cvec(v):
    return f"({cq(v[0])}, {cq(v[1])}, {cq(v[2])})"


def make_grid(spec):
    kind = spec["kind"]
    if kind == "cart":
        g = pp.CartGrid(np.array(spec["n"]), np.array(spec["L"], dtype=float)) if "L" in spec \
            else pp.CartGrid(np.array(spec["n"]))
    elif kind == "tensor":
        g = pp.TensorGrid(*[np.array(x, dtype=float) for x in spec["x"]])
    elif kind == "tri":
        g = pp.StructuredTriangleGrid(np.array(spec["n"]), np.array(spec["physdims"], dtype=float)) \
            if spec.get("physdims") else pp.StructuredTriangleGrid(np.array(spec["n"]))
    elif kind == "tet":
        g = pp.StructuredTetrahedralGrid(np.array(spec["n"]))
    else:
        raise ValueError(kind)
    if spec.get("axperm"):
        # exact axis permutation of the node coordinates: the grid is embedded along other axes
        g.nodes = g.nodes[np.array(spec["axperm"])]
    aff = spec.get("affine")
    if aff:
        # translation and power-of-two scaling are exact; the rotation is a float operation
        # (the model receives whatever geometry porepy computes from the moved nodes)
        nodes = (g.nodes + np.array(aff.get("shift", [0, 0, 0]), dtype=float)[:, None]) \
            * math.ldexp(1.0, aff.get("scale", 0))
        if aff.get("rot"):
            ax, ang = aff["rot"]
            c, s_ = math.cos(ang), math.sin(ang)
            i, j = [(1, 2), (2, 0), (0, 1)][ax]
            R = np.eye(3)
            R[i, i], R[i, j], R[j, i], R[j, j] = c, -s_, s_, c
            nodes = R @ nodes
        g.nodes = nodes
    g.compute_geometry()
    if spec.get("pmap"):
        g.set_periodic_map(np.array(spec["pmap"], dtype=int))
    return g


def apply_second(g, second):
    """In-place change of the SAME grid object: anisotropic power-of-two stretch of the nodes
    (topology unchanged), geometry recomputed."""
    g.nodes = g.nodes * np.array(second["stretch"], dtype=float)[:, None]
    g.compute_geometry()


def aniso_k(rng, nc, const):
    """Strongly anisotropic tensor rotated in the xy-plane: R diag(ratio, 1) R^T."""
    def one():
        ratio = rng.choice([10.0, 100.0, 100.0, 1000.0])
        ang = math.radians(rng.choice([rng.uniform(150, 165), rng.uniform(0, 180), rng.uniform(15, 30)]))
        c, s_ = math.cos(ang), math.sin(ang)
        return (c * c * ratio + s_ * s_, s_ * s_ * ratio + c * c, c * s_ * (ratio - 1))
    vals = [one()] * nc if const else [one() for _ in range(nc)]
    return {"kxx": [v[0] for v in vals], "kyy": [v[1] for v in vals], "kzz": [1.0] * nc,
            "kxy": [v[2] for v in vals]}


def periodic_pairs(rng, spec):
    """Pairs of opposite boundary faces of a Cartesian/tensor grid (found on the un-permuted
    grid), for one or more axes; optionally the orientation of an axis is flipped (its max
    side goes to the first row of the map) and the pairs are shuffled."""
    base = dict(spec)
    base.pop("axperm", None)
    base.pop("affine", None)
    if base["kind"] == "tensor":      # same topology, unit spacing (face numbering is the same)
        base["x"] = [[float(i) for i in range(len(x))] for x in base["x"]]
    g = make_grid(base)
    fc = g.face_centers
    axes = [a for a in range(g.dim) if rng.random() < (0.7 if g.dim > 1 else 1.0)]
    if not axes:
        axes = [rng.randrange(g.dim)]
    pairs = []
    for k, a in enumerate(axes):
        lo, hi = fc[a].min(), fc[a].max()
        others = [b for b in range(3) if b != a]
        key = lambda f: tuple(fc[b, f] for b in others)
        left = sorted(np.where(fc[a] == lo)[0], key=key)
        right = sorted(np.where(fc[a] == hi)[0], key=key)
        flip = k > 0 and rng.random() < 0.5
        for l, r in zip(left, right):
            pairs.append((int(r), int(l)) if flip else (int(l), int(r)))
    if rng.random() < 0.5:
        rng.shuffle(pairs)
    return [[p[0] for p in pairs], [p[1] for p in pairs]]


def grid_spec(rng, tier):
    big = tier != "quick"
    r = rng.random()
    steps = [0.25, 0.5, 1.0, 2.0]
    if r < 0.12:
        return {"kind": "cart", "n": [rng.randint(1, 8)]}
    if r < 0.3:
        return {"kind": "cart", "n": [rng.randint(1, 5 if big else 4), rng.randint(1, 5 if big else 4)]}
    if r < 0.62:
        d = rng.choice([1, 2, 2, 3])
        xs = []
        for _ in range(d):
            n = rng.randint(1, 4 if d < 3 else (3 if big else 2))
            x = [rng.choice([0.0, -1.0, 0.5])]
            graded = rng.random() < 0.3      # boundary layers: cells of size 2^-25 next to O(1)
            for _ in range(n):
                x.append(x[-1] + (rng.choice([2.0 ** -25, 2.0 ** -21, 2.0 ** -18, 1.0, 0.5])
                                  if graded else rng.choice(steps)))
            xs.append(x)
        return {"kind": "tensor", "x": xs}
    if r < 0.8:
        sp = {"kind": "tri", "n": [rng.randint(1, 3), rng.randint(1, 3)]}
        if rng.random() < 0.5:
            sp["physdims"] = rng.choice([[2, 1], [1, 2], [4, 1], [1, 0.5]])
        return sp
    if r < 0.93:
        return {"kind": "cart", "n": [rng.randint(1, 3), rng.randint(1, 3), rng.randint(1, 3 if big else 2)]}
    return {"kind": "tet", "n": [1, rng.randint(1, 2), 1]}


def make_tensor(g, kspec):
    nc = g.num_cells
    arr = lambda key: np.array(kspec[key], dtype=float) if kspec.get(key) is not None else None
    kw = {}
    for key in ("kyy", "kzz", "kxy", "kxz", "kyz"):
        if kspec.get(key) is not None:
            kw[key] = arr(key)
    return pp.SecondOrderTensor(arr("kxx"), **kw)


def canon(m):
    m = sps.coo_matrix(m)
    m.sum_duplicates()
    ent = [[int(r), int(c), float(v)] for r, c, v in zip(m.row, m.col, m.data) if v != 0]
    ent.sort()
    return ent


def to_dense(ent, shape):
    a = np.zeros(shape)
    for r, c, v in ent:
        a[r, c] += v
    return a


class C12(Prop):
    id = "C12"
    props_file = "Props/C12.v"
    preamble = ("From Coq Require Import List ZArith Bool QArith.\nImport ListNotations.\n"
                "From PP Require Import Model.C12.\nLocal Open Scope Q_scope.\n")
    n_cases = (36, 450)
    design_ref = "DESIGN.md §5 C12"
    level_text = (
        "Coq theorems over an executable transcription of Tpfa.discretize (half "
        "transmissibilities (K s n).d/|d|^2 per incidence entry, harmonic mean per face by "
        "bincount, Dirichlet/Neumann/internal handling, flux, bound_flux, bound_pressure_cell, "
        "bound_pressure_face as coordinate lists) over the reals, for every incidence list, "
        "geometry, tensor field and flag assignment: Div*flux is symmetric (C12_symmetric, no "
        "hypothesis at all); an interior face row is t*(e_c1-e_c2) (C12_single_valued); constant "
        "pressure with matching Dirichlet data and zero Neumann data gives zero flux on every "
        "face (C12_constant_zero); under the stated K-orthogonality hypothesis (K s n parallel "
        "to x_f-x_c, same direction) transmissibilities are positive, the diagonal of Div*flux "
        "is non-negative (positive with a non-Neumann face) and off-diagonals are non-positive "
        "(C12_Mmatrix); the faces of a periodic pair get one transmissibility and one flux value "
        "(C12_periodic_pair); with one constant K the face flux of a linear pressure is "
        "-(K n).a on interior, Dirichlet and Neumann faces (C12_linear_exact_*), boundary "
        "pressure reconstruction included (C12_bound_pressure); for a constant vector source the "
        "vector_source flux cancels the flux of the hydrostatic pressure on every face of any grid "
        "(C12_hydrostatic_*); on periodic grids the stored cell_faces^T * flux is symmetric when "
        "every face is plain or in exactly one periodic pair (C12_periodic_symmetric). The "
        "rational execution and the real instance compute the same matrices (C12_transfer, "
        "division by zero included) and the rational K-orthogonality checker implies the real "
        "hypothesis (C12_korth_checker). The same polymorphic model is "
        "executed over exact rationals on the real geometry arrays (Fraction(float)) of "
        "generated grids and Coq compares flux, bound_flux, bound_pressure_cell/face, vector_source "
        "and bound_pressure_vector_source entrywise (relative 1e-9, or within 1e-12 of the matrix's "
        "largest entry for values that come out of a floating-point cancellation), the "
        "flux/bound_flux matrices of pp.Mpfa with the same verified model on K-orthogonal "
        "non-periodic instances (1e-9 of the largest entry), exact symmetry of cell_faces^T*flux, "
        "and evaluates the K-orthogonality checker on every instance.")
    level_note = (
        "Trusted: Coq kernel + vm_compute; harness (generator, exact float->Q literals); the "
        "field-polymorphic model is executed at Q and the theorems are proved at R; the Q->R "
        "transfer is proved for the four matrices (C12_transfer) and the K-orthogonality checker "
        "(C12_korth_checker), not for the two vector-source matrices; the exact "
        "K-orthogonality hypothesis is validated only on instances whose float geometry "
        "arrays satisfy it exactly (counted in the evidence), the oracle covers all "
        "Cartesian/tensor instances numerically; float rounding is not covered "
        "(comparison tolerance 1e-9 relative inside Coq). The MPFA coincidence claim is NOT a "
        "theorem about MPFA: on every K-orthogonal non-periodic instance the real pp.Mpfa matrices "
        "(cell aspect ratio <= 2^10; beyond that MPFA itself is too ill-conditioned) "
        "are compared inside Coq with the verified TPFA model (execution correspondence, the "
        "model acting as an executable model of MPFA on that subset) and by the oracle with the "
        "TPFA matrices. Linear "
        "exactness is stated as -(K n).a, equal to -n.K a for symmetric K. Periodic face maps are "
        "modelled by the code's entry extension (a pair = one face with two cells, per-entry "
        "geometry): C12_symmetric then speaks about Div over the same (identified) entry list; "
        "for the stored cell_faces^T of a periodic grid symmetry is NOT a general theorem — it "
        "follows pairwise from C12_periodic_pair and is checked exactly in Q by the tie on "
        "every periodic instance, and by the oracle on the implementation; MPFA comparison and "
        "linear pressures are not applied to periodic cases (a linear pressure is not periodic). "
        "The structure hypothesis of C12_periodic_symmetric is not validated per instance (the "
        "exact symmetry check is). Not modelled: Aavatsmark transmissibilities; boundary "
        "faces are assumed to have exactly one incidence entry (bndr_sgn ordering).")
    technique = ("Coq proof (double-sum exchange for symmetry, per-face algebra by field/nra over R) "
                 "+ vm_compute execution correspondence over exact rationals + K-orthogonality "
                 "checker evaluated per instance")
    rule = ("grids: CartGrid 1-3-D, TensorGrid with dyadic spacings and shifted origins 1-3-D, "
            "StructuredTriangleGrid, StructuredTetrahedralGrid; a quarter of the Cartesian/tensor "
            "grids carry a periodic face map on opposite sides (one or more axes, orientation of an "
            "axis optionally flipped, pairs optionally shuffled), half of the 1-D/2-D ones are "
            "embedded along other axes by an exact axis permutation with K anisotropic only in the "
            "embedding axes; 45% of the grids are moved by an exact translation (up to 1024) and/or an "
            "exact power-of-two scaling 2^-20..2^20 of the nodes, small ones also by a float rotation "
            "(1e-7 .. 2 rad about a coordinate axis; rotated grids get the structural claims only, they are "
            "not the Cartesian/tensor grids of the statement); K is "
            "scaled by 2^-40..2^30; length scales down to 2^-30 and graded tensor grids (cells of size "
            "2^-25 next to O(1)); simplex grids (also with physdims [2,1] etc.) get 10:1..1000:1 "
            "anisotropic tensors rotated by arbitrary angles (negative half transmissibilities); 30% of "
            "the cases are two-step histories on ONE Tpfa object and ONE grid object (discretize, "
            "stretch nodes in place / replace K, compute_geometry, discretize again; compared with the "
            "model on the final state and bitwise with a fresh object); ambient_dimension absent or "
            "dim..3; K per cell: isotropic, diagonal "
            "anisotropic, full SPD tensor (dyadic entries), or one constant tensor; bc: random "
            "Dirichlet/Neumann per boundary face (always at least the default Neumann); "
            "non-trivial = at least 2 cells")
    trusted = ["geometry arrays (face_normals, face_centers, cell_centers), k.values and the "
               "incidence triples of the real grid are passed to the model as exact rationals"]
    assumptions = ["Aavatsmark_transmissibilities off; every face of a periodic map has exactly one "
                   "stored incidence entry; cases where the implementation produces a non-finite "
                   "entry (an exactly zero half transmissibility), or where half transmissibilities of "
                   "opposite sign cancel in the harmonic mean to below 1e-6, are counted and skipped",
                   "non-zero half transmissibilities (no division by zero in 1/t_face)"]

    # ------------------------------------------------------------------ generation
    def generate(self, rng, n, tier):
        vals = [0.25, 0.5, 1.0, 2.0, 4.0, 1.5, 3.0]
        for _ in range(n):
            spec = grid_spec(rng, tier)
            if spec["kind"] in ("cart", "tensor"):
                d0 = len(spec["n"]) if spec["kind"] == "cart" else len(spec["x"])
                if rng.random() < 0.25:
                    spec["pmap"] = periodic_pairs(rng, spec)
                if d0 < 3 and rng.random() < 0.5:
                    spec["axperm"] = rng.choice([[1, 0, 2], [2, 0, 1], [1, 2, 0], [2, 1, 0], [0, 2, 1]])
            ra = rng.random()
            if ra < 0.45:
                aff = {}
                if rng.random() < 0.7:
                    aff["scale"] = rng.choice([-30, -27, -24, -21]) if rng.random() < 0.4 \
                        else rng.randint(-20, 20)
                if rng.random() < 0.5:
                    aff["shift"] = [rng.choice([0, 0.5, -3, 17, 256, -1024]) for _ in range(3)]
                ncells = 1
                for n_ in (spec.get("n") or [len(x) - 1 for x in spec.get("x", [])]):
                    ncells *= n_
                if rng.random() < 0.25 and spec["kind"] != "tet" and ncells <= 9:
                    aff["rot"] = [rng.choice([0, 1, 2]), rng.choice([1e-7, 3e-5, 0.3, 2.0])]
                if len(spec.get("n", spec.get("x", []))) == 1 and aff.get("rot"):
                    aff["rot"] = [2, aff["rot"][1]]
                spec["affine"] = aff
            try:
                g = make_grid(spec)
            except (RuntimeError, AssertionError):
                # porepy's own geometry computation gives up on some tiny / tilted planar grids
                # (absolute collinearity tolerance in compute_normal) — not a TPFA matter
                spec.pop("affine", None)
                if spec["kind"] == "tensor":
                    spec["x"] = [[float(i) for i in range(len(x))] for x in spec["x"]]
                g = make_grid(spec)
            nc, nf = g.num_cells, g.num_faces
            r = rng.random()
            const = r < 0.35
            pick = (lambda: [rng.choice(vals)] * nc) if const else (lambda: [rng.choice(vals) for _ in range(nc)])
            kmode = rng.choice(["iso", "diag", "diag", "full"]) if g.dim > 1 else rng.choice(["iso", "diag"])
            if spec.get("axperm") and rng.random() < 0.7:
                kmode = "diag"     # anisotropy that only shows in the embedding axes
            kexp = rng.choice([0, 0, 0, -40, -13, 7, 30])   # exact power-of-two scale of K
            if spec["kind"] in ("tri", "tet") and rng.random() < 0.6:
                kmode = "aniso"
            k = {"kxx": pick()}
            if kmode in ("diag", "full"):
                # often equal in the first axes and different in the third: isotropic for
                # SecondOrderTensor.is_isotropic(dim) but not in an embedding plane
                k["kyy"] = list(k["kxx"]) if rng.random() < (0.7 if spec.get("axperm") else 0.3) else pick()
                k["kzz"] = pick()
            if kmode == "full":
                # off-diagonals small enough for diagonal dominance (SPD)
                off = [0.125, -0.125, 0.0625, -0.0625]
                sel = (lambda: [rng.choice(off)] * nc) if const else (lambda: [rng.choice(off) for _ in range(nc)])
                k["kxy"] = sel()
                if g.dim == 3:
                    k["kxz"] = sel()
                    k["kyz"] = sel()
            bfaces = [int(f) for f in g.get_all_boundary_faces()]
            rb = rng.random()
            dirf = [f for f in bfaces if (rb < 0.15) or (rb < 0.9 and rng.random() < 0.5)]
            if kmode == "aniso":
                k = aniso_k(rng, nc, const)
            k = {key: [v * 2.0 ** kexp for v in vals_] for key, vals_ in k.items()}
            case = {"grid": spec, "k": k, "kmode": kmode, "const": const, "dir": dirf,
                    "ambient": rng.choice([None, None] + list(range(g.dim, 4))),
                    "second": None,
                    "lin": [rng.randint(-3, 3) for _ in range(4)], "p0": rng.randint(-5, 5)}
            if rng.random() < 0.3:
                # history on ONE Tpfa object and ONE grid object: discretize, stretch the nodes
                # in place (and possibly replace K), compute_geometry, discretize again
                st = [rng.choice([0.5, 2.0, 4.0, 1.0]), rng.choice([0.25, 1.0, 2.0]), rng.choice([1.0, 2.0, 0.5])]
                if st[0] == st[1] == st[2]:
                    st[0] *= 2
                k2 = None
                if rng.random() < 0.4:
                    fac = [rng.choice([0.5, 2.0, 4.0]) for _ in range(nc)]   # per-cell factor: stays SPD
                    k2 = {key: [v * f_ for v, f_ in zip(vals_, fac)] for key, vals_ in k.items()}
                case["second"] = {"stretch": st, "k": k2}
            try:
                # porepy's geometry computation must accept both states of the case
                self._setup(case, final=False)
                self._setup(case)
            except (RuntimeError, AssertionError):
                case["second"] = None
                case["grid"].pop("affine", None)
                try:
                    self._setup(case)
                except (RuntimeError, AssertionError):
                    continue
            yield case

    # ------------------------------------------------------------------ implementation
    def _setup(self, case, final=True):
        """Grid, tensor, bc, data of the FINAL state of the case (or of the initial one)."""
        g = make_grid(case["grid"])
        sec = case.get("second") if final else None
        if sec:
            apply_second(g, sec)
        K = make_tensor(g, (sec and sec.get("k")) or case["k"])
        bc = pp.BoundaryCondition(g, np.array(case["dir"], dtype=int), ["dir"] * len(case["dir"]))
        par = {"second_order_tensor": K, "bc": bc}
        if case.get("ambient"):
            par["ambient_dimension"] = int(case["ambient"])
        data = pp.initialize_data(g, {}, KW, par)
        return g, K, bc, data

    def run_impl(self, case):
        import warnings
        sec = case.get("second")
        g, K, bc, data = self._setup(case, final=False)
        discr = pp.Tpfa(KW)
        with warnings.catch_warnings():
            warnings.simplefilter("ignore")
            discr.discretize(g, data)
            if sec:
                # same Tpfa object, same grid object, same data dictionary
                apply_second(g, sec)
                if sec.get("k"):
                    K = make_tensor(g, sec["k"])
                    data[pp.PARAMETERS][KW]["second_order_tensor"] = K
                discr.discretize(g, data)
        md = data[pp.DISCRETIZATION_MATRICES][KW]
        if not all(np.all(np.isfinite(m.data)) for m in md.values() if hasattr(m, "data")):
            # an exactly zero half transmissibility (1/0): outside the stated assumptions
            self._stats["degenerate"] = self._stats.get("degenerate", 0) + 1
            return {"degenerate": True, "nc": int(g.num_cells)}
        fi, ci, sgn = sparse_array_to_row_col_data(g.cell_faces)
        if not (case["grid"].get("pmap")):
            # harmonic mean of half transmissibilities of opposite sign that nearly cancel:
            # 1/t1 + 1/t2 ~ 0 makes the floating-point result meaningless (skipped, counted)
            nrm = g.face_normals[:, fi] * sgn
            dv = g.face_centers[:, fi] - g.cell_centers[:, ci]
            kn = np.einsum("ijk,jk->ik", K.values[:, :, ci], nrm)
            th = (kn * dv).sum(axis=0) / (dv * dv).sum(axis=0)
            num = np.bincount(fi, weights=1 / th, minlength=g.num_faces)
            den = np.bincount(fi, weights=np.abs(1 / th), minlength=g.num_faces)
            if np.any(np.abs(num) < 1e-6 * den):
                self._stats["degenerate"] = self._stats.get("degenerate", 0) + 1
                return {"degenerate": True, "nc": int(g.num_cells)}
        pm = case["grid"].get("pmap") or [[], []]
        res = {"pmap": [[int(l), int(r)] for l, r in zip(pm[0], pm[1])],"dim": int(g.dim), "nf": int(g.num_faces), "nc": int(g.num_cells),
               "cf": [[int(a), int(b), int(c)] for a, b, c in zip(fi, ci, sgn)],
               "flux": canon(md[discr.flux_matrix_key]),
               "bound_flux": canon(md[discr.bound_flux_matrix_key]),
               "bpc": canon(md[discr.bound_pressure_cell_matrix_key]),
               "bpf": canon(md[discr.bound_pressure_face_matrix_key]),
               "bnd": [int(f) for f in g.get_all_boundary_faces()],
               "korth": bool(case["grid"]["kind"] in ("cart", "tensor") and case["kmode"] != "full"
                             and not (case["grid"].get("affine") or {}).get("rot"))}
        res["fresh_equal"] = True
        if sec:
            gf, Kf, bcf, dataf = self._setup(case)
            fresh = pp.Tpfa(KW)
            with warnings.catch_warnings():
                warnings.simplefilter("ignore")
                fresh.discretize(gf, dataf)
            mdf = dataf[pp.DISCRETIZATION_MATRICES][KW]
            for key in md:
                if key in mdf and (abs(md[key] - mdf[key])).max() != 0 if md[key].nnz + mdf[key].nnz else False:
                    res["fresh_equal"] = False
        res["vsd"] = int(case.get("ambient") or g.dim)
        res["vs"] = canon(md[discr.vector_source_matrix_key])
        res["bpvs"] = canon(md[discr.bound_pressure_vector_source_matrix_key])
        res["mpfa"] = None
        fi_, ci_, _ = sparse_array_to_row_col_data(g.cell_faces)
        hd = np.linalg.norm(g.face_centers[:, fi_] - g.cell_centers[:, ci_], axis=0)
        aspect = float(g.cell_diameters().max() / hd.min())
        if res["korth"] and not res["pmap"] and aspect <= 2.0 ** 10:
            # MPFA on the same data: compared with the verified TPFA model inside Coq (tie) and
            # with the TPFA matrices by the oracle.  Not on needle-shaped / strongly graded
            # cells, where MPFA's local systems are too ill-conditioned for a 1e-9 comparison
            # (and its own geometry mapping may give up).
            g2, K2, bc2, data2 = self._setup(case)
            mp = pp.Mpfa(KW)
            mp.discretize(g2, data2)
            md2 = data2[pp.DISCRETIZATION_MATRICES][KW]
            res["mpfa"] = [canon(md2[mp.flux_matrix_key]), canon(md2[mp.bound_flux_matrix_key])]
        res["korth_exact"] = self._korth_exact(g, K, res["cf"])
        self._stats["korth_rule"] += int(res["korth"])
        self._stats["korth_rule_and_exact"] += int(res["korth"] and res["korth_exact"])
        return res

    _stats = {"korth_rule": 0, "korth_rule_and_exact": 0}

    @staticmethod
    def _korth_exact(g, K, cf):
        """Exact (rational) K-orthogonality of the float geometry arrays: K (s n_f) x (x_f - x_c) = 0
        and (K s n_f).(x_f - x_c) > 0 for every incidence entry.  Independent of the Coq checker."""
        Fr = Fraction
        n = [[Fr(float(x)) for x in col] for col in g.face_normals.T]
        fc = [[Fr(float(x)) for x in col] for col in g.face_centers.T]
        cc = [[Fr(float(x)) for x in col] for col in g.cell_centers.T]
        for f, c, s in cf:
            Kc = [[Fr(float(K.values[i, j, c])) for j in range(3)] for i in range(3)]
            kn = [sum(Kc[i][j] * s * n[f][j] for j in range(3)) for i in range(3)]
            d = [fc[f][i] - cc[c][i] for i in range(3)]
            cr = [kn[1] * d[2] - kn[2] * d[1], kn[2] * d[0] - kn[0] * d[2], kn[0] * d[1] - kn[1] * d[0]]
            if any(x != 0 for x in cr) or not sum(kn[i] * d[i] for i in range(3)) > 0:
                return False
        return True

    def extra_evidence(self):
        return {"k_orthogonality": dict(self._stats, note=(
            "korth_rule = instances the oracle treats as K-orthogonal (Cartesian/tensor grid, "
            "diagonal K); korth_rule_and_exact = those whose float geometry arrays satisfy the "
            "exact hypothesis of the exactness theorems (validated by the Coq checker); the "
            "difference is float rounding in compute_geometry"))}

    # ------------------------------------------------------------------ oracle
    def oracle(self, case, res):
        if res.get("degenerate"):
            return None
        g, K, bc, data = self._setup(case)
        nf, nc = res["nf"], res["nc"]
        if not res.get("fresh_equal", True):
            return ("re-discretisation on the same Tpfa and grid objects after an in-place geometry/"
                    "permeability change differs from a fresh discretisation of the same data")
        flux = to_dense(res["flux"], (nf, nc))
        bflux = to_dense(res["bound_flux"], (nf, nf))
        div = g.cell_faces.T.toarray()
        A = div @ flux
        scale = (np.abs(flux).max() if flux.size else 0.0) or 1.0
        tol = 1e-10 * scale
        if np.abs(A - A.T).max() > tol:
            return f"Div*flux is not symmetric (max asymmetry {np.abs(A - A.T).max():.3e})"
        cfm = g.cell_faces.tocsr()
        for f in range(nf):
            cells = cfm[f].indices
            nzc = [c for c in range(nc) if flux[f, c] != 0]
            if len(cells) == 2:
                if not set(nzc) <= set(int(c) for c in cells) or abs(flux[f].sum()) > tol:
                    return f"interior face {f}: row {[(c, flux[f, c]) for c in nzc]} is not t*(e_c1 - e_c2)"
        # periodic pairs: one flux value for the pair, between the two cells only
        for l, r in res["pmap"]:
            cl, sl = int(cfm[l].indices[0]), float(cfm[l].data[0])
            cr, sr = int(cfm[r].indices[0]), float(cfm[r].data[0])
            for f in (l, r):
                nzc = [c for c in range(nc) if flux[f, c] != 0]
                if not set(nzc) <= {cl, cr} or abs(flux[f].sum()) > tol:
                    return f"periodic face {f}: row {[(c, flux[f, c]) for c in nzc]} is not t*(e_c1 - e_c2)"
            if np.abs(sl * flux[l] + sr * flux[r]).max() > tol:
                return (f"periodic pair ({l},{r}): the flux leaving cell {cl} "
                        f"{(sl * flux[l]).tolist()} differs from the flux entering cell {cr} "
                        f"{(-sr * flux[r]).tolist()}")
        # constant pressure
        p0 = float(case["p0"])
        bv = np.zeros(nf)
        bv[bc.is_dir] = p0
        q = flux @ (p0 * np.ones(nc)) + bflux @ bv
        if np.abs(q).max() > tol * max(1.0, abs(p0)):
            return f"constant pressure {p0} with matching Dirichlet data gives flux {np.abs(q).max():.3e}"
        # hydrostatic consistency of the vector-source matrix (any grid, non-periodic):
        # p = g.x + b over the first vsd components, Dirichlet data p(x_f), zero Neumann data
        if not res["pmap"]:
            vsd = res["vsd"]
            gvec = np.array(case["lin"][:3], dtype=float)
            gvec[vsd:] = 0
            vs = to_dense(res["vs"], (nf, nc * vsd))
            ph = gvec @ g.cell_centers + float(case["lin"][3])
            bvh = np.zeros(nf)
            bvh[bc.is_dir] = (gvec @ g.face_centers + float(case["lin"][3]))[bc.is_dir]
            qh = flux @ ph + bflux @ bvh + vs @ np.tile(gvec[:vsd], nc)
            mag = scale * (np.abs(ph).max() + np.abs(bvh).max() + 1e-300)
            if np.abs(qh).max() > 1e-8 * mag:
                return (f"vector source: hydrostatic pressure g.x+b with g={gvec.tolist()} leaves a "
                        f"net flux {np.abs(qh).max():.3e} (scale {mag:.3e})")
        if not res["korth"]:
            return None
        # M-matrix signs
        for i in range(nc):
            for j in range(nc):
                if i != j and A[i, j] > tol:
                    return f"K-orthogonal grid: positive off-diagonal A[{i},{j}] = {A[i, j]}"
            selfp = {f for l, r in res["pmap"] for f in (l, r)
                     if cfm[l].indices[0] == cfm[r].indices[0]}   # cell periodic with itself
            has_open = any((not bc.is_neu[f]) and f not in selfp
                           for f in g.cell_faces.tocsc()[:, i].indices)
            if (has_open and not A[i, i] > 0) or A[i, i] < 0:
                return f"K-orthogonal grid: diagonal A[{i},{i}] = {A[i, i]} not positive"
        if res["pmap"]:
            return None      # MPFA comparison and linear pressures do not apply to periodic maps
        # MPFA coincidence
        if res["mpfa"] is not None:
            mflux = to_dense(res["mpfa"][0], (nf, nc))
            mbflux = to_dense(res["mpfa"][1], (nf, nf))
        if res["mpfa"] is None:
            mflux, mbflux = flux, bflux
        bscale = max(scale, np.abs(bflux).max() if bflux.size else 0.0)
        if not (np.allclose(mflux, flux, rtol=1e-9, atol=1e-9 * scale)
                and np.allclose(mbflux, bflux, rtol=1e-9, atol=1e-9 * bscale)):
            return ("MPFA and TPFA differ on a K-orthogonal grid: "
                    f"flux {np.abs(mflux - flux).max():.3e}, bound_flux {np.abs(mbflux - bflux).max():.3e}")
        if not case["const"] or res["pmap"] or (case.get("second") or {}).get("k"):
            return None
        # linear exactness: p = a.x + b, flux must be -n.K a on every face
        a = np.array(case["lin"][:3], dtype=float)
        b0 = float(case["lin"][3])
        Kc = K.values[:, :, 0]
        p = a @ g.cell_centers + b0
        exact = -(g.face_normals.T @ (Kc @ a))
        bv = np.zeros(nf)
        bfaces = g.get_all_boundary_faces()
        sgn_b = np.zeros(nf)
        for f in bfaces:
            sgn_b[f] = cfm[f].data[0]
        pf = a @ g.face_centers + b0
        bv[bc.is_dir] = pf[bc.is_dir]
        neu = np.zeros(nf, dtype=bool)
        neu[bfaces] = bc.is_neu[bfaces]
        bv[neu] = sgn_b[neu] * exact[neu]
        q = flux @ p + bflux @ bv
        lin_tol = 1e-8 * (np.abs(exact).max() + scale * (np.abs(p).max() + np.abs(bv).max()) + 1e-300)
        if np.abs(q - exact).max() > lin_tol:
            return (f"linear pressure a={a.tolist()} not reproduced on a K-orthogonal grid with constant K: "
                    f"max flux error {np.abs(q - exact).max():.3e}")
        return None

    # ------------------------------------------------------------------ tie
    def _input(self, case, res):
        g, K, bc, data = self._setup(case)
        trip = lambda t: f"({cz(t[0])}, {cz(t[1])}, {cz(t[2])})"
        normals = clist(g.face_normals.T, cvec)
        fcs = clist(g.face_centers.T, cvec)
        ccs = clist(g.cell_centers.T, cvec)
        perms = clist(range(g.num_cells),
                      lambda c: "(" + ", ".join(cvec(K.values[i, :, c]) for i in range(3)) + ")")
        return ("(mk_input {} {} {} {}%Z {}%Z {} {} {} {} {} {} {} {}%Z)".format(
            cz(res["dim"]), cz(res["nf"]), cz(res["nc"]), clist(res["cf"], trip),
            clist(res["pmap"], lambda lr: f"({cz(lr[0])}, {cz(lr[1])})"),
            normals, fcs, ccs, perms,
            clist(bc.is_dir, cbool), clist(bc.is_neu, cbool), clist(bc.is_internal, cbool),
            clist(res["bnd"], cz)))

    def coq_case(self, case, res):
        if res.get("degenerate"):
            return None
        ent = lambda t: f"({cz(t[0])}, {cz(t[1])}, {cq(t[2])})"
        m = lambda x: clist(x, ent)
        mp = "None" if res["mpfa"] is None else f"(Some ({m(res['mpfa'][0])}, {m(res['mpfa'][1])}))"
        return (f"agree_rel {self._input(case, res)} {cbool(res['korth_exact'])} (Some ({m(res['flux'])}, "
                f"{m(res['bound_flux'])}, {m(res['bpc'])}, {m(res['bpf'])})) "
                f"{cz(res['vsd'])}%Z {m(res['vs'])} {m(res['bpvs'])} {mp}")

    def coq_diag(self, case, res):
        if res.get("degenerate"):
            return None
        return f"option_map qdiscretize {self._input(case, res)}"

    def nontrivial(self, case, res):
        return res["nc"] >= 2

    def finding_key(self, case, res, why):
        if "symmetric" in why:
            return "asymmetric"
        if "interior face" in why or "periodic" in why:
            return "not-single-valued"
        if "constant pressure" in why:
            return "constant-not-zero"
        if "re-discretisation" in why:
            return "stale-rediscretisation"
        if "vector source" in why:
            return "vector-source-hydrostatic"
        if "MPFA" in why:
            return "mpfa-differs"
        if "linear pressure" in why:
            return "linear-not-exact"
        return "m-matrix-sign"


PROP = C12()
