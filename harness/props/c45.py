"""C45 — operator hash keys identify operator trees (porepy/numerics/ad/operators.py)."""
import copy
import struct

import numpy as np
import scipy.sparse as sps

from harness.core import Prop, cz, clist, cbool, cstring

import porepy as pp

BINOPS = {"add": "OAdd", "sub": "OSub", "mul": "OMul", "rmul": "ORmul", "matmul": "OMatmul",
          "rmatmul": "ORmatmul", "div": "ODiv", "rdiv": "ORdiv", "pow": "OPow", "rpow": "ORpow"}
PYOP = {"add": lambda a, b: a + b, "sub": lambda a, b: a - b, "mul": lambda a, b: a * b,
        "div": lambda a, b: a / b, "pow": lambda a, b: a ** b, "matmul": lambda a, b: a @ b}
SPARSE_TYPES = ["csr_matrix", "csc_matrix", "coo_matrix", "csr_array", "csc_array", "coo_array",
                "bsr_matrix", "bsr_array", "dia_matrix", "dia_array"]
DT = {"float64": 1, "int64": 2, "int32": 3}
KNOWN_EVAL = "evaluate-node-key-omits-function-and-arity"

_GRIDS = []
_POOLS = {}
KIND = {"sd": 0, "intf": 1, "bg": 2}
KNOWN_STALE = "composite-key-stale-after-Scalar.set_value"


def grids():
    """subdomain pool (4 grids).  The first two belong to a fractured md-grid whose interface
    and boundary grids are the pools of the other two kinds of domain; the three kinds are
    numbered by separate counters, so ids coincide across kinds."""
    if not _GRIDS:
        mdg, _ = pp.mdg_library.square_with_orthogonal_fractures(
            "cartesian", {"cell_size": 0.5}, [1])
        _GRIDS.extend(mdg.subdomains())
        for n in (1, 4):
            g = pp.CartGrid(np.array([n, 1]))
            g.compute_geometry()
            _GRIDS.append(g)
        _POOLS["sd"] = _GRIDS
        _POOLS["intf"] = list(mdg.interfaces())
        _POOLS["bg"] = list(mdg.boundaries())
    return _GRIDS


def dom(s, i):
    grids()
    pool = _POOLS[s.get("dk", "sd")]
    return pool[i % len(pool)]


def doms_of(s):
    """the domains of a list-valued spec, without repetitions (small pools wrap around)"""
    out = []
    for i in s["doms"]:
        g = dom(s, i)
        if all(g is not h for h in out):
            out.append(g)
    return out


def kind_of(domains):
    if not domains:
        return 3
    d = domains[0]
    return 1 if isinstance(d, pp.MortarGrid) else 2 if isinstance(d, pp.BoundaryGrid) else 0


def fbits(x) -> int:
    return struct.unpack("<q", struct.pack("<d", float(x)))[0]


def idx_array(spec):
    """index arrays: plain list, or {"arange": n, "patch": [[pos, val], ...]} (large)."""
    if isinstance(spec, dict):
        a = np.arange(spec["arange"])
        for pos, val in spec.get("patch", []):
            a[pos] = val
        return a
    return np.array(spec, dtype=int)


# --------------------------------------------------------------------------------------
# building real operators from a spec
# --------------------------------------------------------------------------------------
class Builder:
    def __init__(self):
        self.pool = {}
        self.later = []

    def pooled(self, s, make):
        oid = s.get("oid")
        if oid is None:
            return make()
        if oid not in self.pool:
            self.pool[oid] = make()
            if s.get("warm_base", True):
                self.pool[oid]._key()
        return self.pool[oid]

    def shift(self, s, base):
        op = base
        if s.get("t", 0) > 0:
            op = op.previous_timestep(steps=s["t"])
        if s.get("i", 0) > 0:
            op = op.previous_iteration(steps=s["i"])
        return op

    @staticmethod
    def apply(op, a, b):
        if op == "pow" and isinstance(a, pp.ad.SparseArray):
            op = "mul"          # SparseArray ** x is rejected by the overload itself
        return PYOP[op](a, b)

    def build(self, s):
        op = self._build(s)
        if s.get("warm"):
            op._key()
        return op

    def _build(self, s):
        k = s["k"]
        G = grids()
        if k == "scalar":
            sc = pp.ad.Scalar(s["v"])
            if "set" in s:          # history: key computed, then the value is changed in place
                sc._key()
                sc.set_value(s["set"])
            if "set_later" in s:    # changed after the enclosing tree was built and hashed
                self.later.append((sc, s["set_later"]))
            return sc
        if k == "dense":
            return pp.ad.DenseArray(np.array(s["vals"], dtype=float).reshape(s["shape"]))
        if k == "sparse":
            m, n = s["shape"]
            ent = s["entries"]
            coo = sps.coo_matrix(([e[2] for e in ent], ([e[0] for e in ent], [e[1] for e in ent])),
                                 shape=(m, n), dtype=float)
            mat = getattr(sps, s["fmt"])(coo)
            return pp.ad.SparseArray(mat)
        if k == "tdda":
            base = self.pooled(s, lambda: pp.ad.TimeDependentDenseArray(
                s["name"], doms_of(s)))
            return self.shift(s, base)
        if k == "var":
            base = self.pooled(s, lambda: pp.ad.Variable(s["name"], {"cells": 1}, dom(s, s["dom"])))
            return self.shift(s, base)
        if k == "mdvar":
            base = self.pooled(s, lambda: pp.ad.MixedDimensionalVariable(
                [pp.ad.Variable(s["name"], {"cells": 1}, g) for g in doms_of(s)]))
            return self.shift(s, base)
        if k == "proj":
            return pp.ad.Projection(domain_indices=idx_array(s["dom"]),
                                    range_indices=idx_array(s["rng"]),
                                    domain_size=s["ds"], range_size=s["rs"])
        if k == "projlist":
            return pp.ad.ProjectionList([self.build(p) for p in s["ps"]])
        if k == "merged":       # a discretization matrix (ad_utils.MergedOperator)
            d = getattr(pp.ad, s["cls"])(s["kw"], [G[i] for i in s["doms"]])
            return getattr(d, s["term"])(s["inner"]) if s.get("inner") else getattr(d, s["term"])()
        if k == "div":          # grid_operators.Divergence
            return pp.ad.Divergence([G[i] for i in s["doms"]], dim=s["dim"])
        if k == "bin":
            return self.apply(s["op"], self.build(s["a"]), self.build(s["b"]))
        if k == "rnum":   # plain number / ndarray as the LEFT operand
            num = s["num"]
            num = np.array(num, dtype=float) if isinstance(num, list) else num
            return PYOP[s["op"]](num, self.build(s["b"]))
        if k == "lnum":   # plain number / ndarray as the RIGHT operand
            num = s["num"]
            num = np.array(num, dtype=float) if isinstance(num, list) else num
            return self.apply(s["op"], self.build(s["a"]), num)
        if k == "neg":
            return -self.build(s["a"])
        if k == "eval":
            f = pp.ad.Function(lambda *a: a[0], s["f"])
            return f(*[self.build(a) for a in s["args"]])
        if k == "prev":   # previous_timestep / previous_iteration of a whole tree
            base = self.build(s["a"])
            return self.shift(s, base)
        raise ValueError(k)


# --------------------------------------------------------------------------------------
# serialising the REAL operator objects (this is what Coq and the oracle see)
# --------------------------------------------------------------------------------------
def ser_buf(a):
    a = np.asarray(a)
    name = a.dtype.name
    if name == "float64":
        return [DT[name], [fbits(x) for x in a.ravel()]]
    return [DT[name], [int(x) for x in a.ravel()]]


def ser_proj(op):
    sl = op._slicer
    return ["proj", [int(i) for i in sl.range_indices], [int(i) for i in sl.domain_indices],
            int(sl.domain_size), int(sl.range_size), bool(sl._is_transposed)]


def ser(op):
    A = pp.ad
    if isinstance(op, A.Scalar):
        return ["scalar", fbits(op._value)]
    if isinstance(op, A.DenseArray):
        return ["dense", [int(n) for n in op._values.shape], ser_buf(op._values)]
    if isinstance(op, A.SparseArray):
        m = op._mat
        ty = type(m).__name__
        if ty[:3] in ("csr", "csc", "bsr"):
            props = [m.data, m.indices, m.indptr]
        elif ty[:3] == "coo":
            props = [m.data, m.row, m.col]
        elif ty[:3] == "dia":
            props = [m.data, m.offsets]
        else:
            raise ValueError(ty)
        return ["sparse", ty, [int(n) for n in m.shape], [ser_buf(p) for p in props]]
    if isinstance(op, A.TimeDependentDenseArray):
        return ["tdda", op.name, kind_of(op.domains), [int(d.id) for d in op.domains],
                int(op._time_step_index)]
    if isinstance(op, A.MixedDimensionalVariable):
        return ["mdvar", op.name, kind_of(op.domains), [int(d.id) for d in op.domains],
                int(op._time_step_index), int(op._iterate_index)]
    if isinstance(op, A.Variable):
        return ["var", op.name, kind_of([op.domain]), int(op.domain.id), int(op._time_step_index),
                int(op._iterate_index)]
    if isinstance(op, A.Projection):
        return ser_proj(op)
    if isinstance(op, A.ProjectionList):
        return ["projlist", [ser_proj(c) for c in op.children]]
    if isinstance(op, A.MergedOperator):
        return ["merged", op.name, kind_of(op.domains), [int(d.id) for d in op.domains],
                op._discretization_matrix_key,
                op._physics_key, op._inner_physics_key]
    if isinstance(op, A.Divergence):
        return ["div", int(op.dim), [int(d.id) for d in op.subdomains]]
    if type(op) is A.Operator:
        name = op.operation.value
        if name in BINOPS and len(op.children) == 2:
            return ["bin", name, ser(op.children[0]), ser(op.children[1])]
        if name == "evaluate":
            return ["eval", op.func.__self__.name, [ser(c) for c in op.children]]
    raise ValueError(f"operator outside the modelled classes: {type(op).__name__}")


def ref_tokens(t, erase_eval=False):
    """Independent reference: prefix serialisation that keeps ALL leaf data (and, unless
    erase_eval, function identity and arity)."""
    if t[0] == "bin":
        return [t[1]] + ref_tokens(t[2], erase_eval) + ref_tokens(t[3], erase_eval)
    if t[0] == "eval":
        head = ["evaluate"] if erase_eval else ["evaluate", t[1], len(t[2])]
        return head + [x for c in t[2] for x in ref_tokens(c, erase_eval)]
    return [repr(t)]


def has_eval(t):
    if t[0] == "bin":
        return has_eval(t[2]) or has_eval(t[3])
    return t[0] == "eval"


def _census(t):
    if t[0] == "bin":
        return ["op:" + t[1]] + _census(t[2]) + _census(t[3])
    if t[0] == "eval":
        return ["op:evaluate"] + [x for c in t[2] for x in _census(c)]
    extra = []
    if t[0] in ("var", "mdvar") and (t[-1] >= 0 or t[-2] >= 0):
        extra = [t[0] + ":shifted"]
    if t[0] == "tdda" and t[-1] >= 0:
        extra = ["tdda:shifted"]
    return ["leaf:" + t[0]] + extra


def size(t):
    if t[0] == "bin":
        return 1 + size(t[2]) + size(t[3])
    if t[0] == "eval":
        return 1 + sum(size(c) for c in t[2])
    return 1


# --------------------------------------------------------------------------------------
# Coq emission
# --------------------------------------------------------------------------------------
def zl(l):
    return clist(l, cz)


def cbuf(b):
    return f"{{| dt := {cz(b[0])}; elems := {zl(b[1])} |}}"


def cproj(p):
    return (f"{{| p_range := {zl(p[1])}; p_domain := {zl(p[2])}; p_domain_size := {cz(p[3])}; "
            f"p_range_size := {cz(p[4])}; p_transposed := {cbool(p[5])} |}}")


def ctree(t):
    k = t[0]
    if k == "scalar":
        return f"(Leaf (LScalar {cz(t[1])}))"
    if k == "dense":
        return f"(Leaf (LDense {zl(t[1])} {cbuf(t[2])}))"
    if k == "sparse":
        return f"(Leaf (LSparse {cstring(t[1])} {zl(t[2])} {clist(t[3], cbuf)}))"
    if k == "tdda":
        return f"(Leaf (LTdda {cstring(t[1])} {cz(t[2])} {zl(t[3])} {cz(t[4])}))"
    if k == "var":
        return f"(Leaf (LVar {cstring(t[1])} {cz(t[2])} {cz(t[3])} {cz(t[4])} {cz(t[5])}))"
    if k == "mdvar":
        return f"(Leaf (LMdVar {cstring(t[1])} {cz(t[2])} {zl(t[3])} {cz(t[4])} {cz(t[5])}))"
    if k == "proj":
        return f"(Leaf (LProj {cproj(t)}))"
    if k == "projlist":
        return f"(Leaf (LProjList {clist(t[1], cproj)}))"
    if k == "merged":
        ik = "None" if t[6] is None else f"(Some {cstring(t[6])})"
        return (f"(Leaf (LMerged {cstring(t[1])} {cz(t[2])} {zl(t[3])} {cstring(t[4])} "
                f"{cstring(t[5])} {ik}))")
    if k == "div":
        return f"(Leaf (LDiv {cz(t[1])} {zl(t[2])}))"
    if k == "bin":
        return f"(Bin {BINOPS[t[1]]} {ctree(t[2])} {ctree(t[3])})"
    if k == "eval":
        return f"(Eval {cstring(t[1])} {clist(t[2], ctree)})"
    raise ValueError(k)


# --------------------------------------------------------------------------------------
# generator
# --------------------------------------------------------------------------------------
NAMES = ["p", "q", "lam", "u_1", "src"]


def gen_proj(rng):
    n = rng.randint(1, 4)
    ds = rng.randint(n, n + 3)
    rs = rng.randint(n, n + 3)
    return {"k": "proj", "dom": sorted(rng.sample(range(ds), n)),
            "rng": rng.sample(range(rs), n), "ds": ds, "rs": rs}


MERGED = {"MpfaAd": ["flux", "bound_flux", "bound_pressure_cell", "vector_source"],
          "TpfaAd": ["flux", "bound_flux", "bound_pressure_face"],
          "UpwindAd": ["upwind", "bound_transport_dir", "bound_transport_neu"],
          "MpsaAd": ["stress", "bound_stress", "bound_displacement_cell"]}
COUPLING = ["scalar_gradient", "displacement_divergence", "consistency", "bound_pressure"]


def gen_merged(rng):
    doms = rng.sample(range(4), rng.randint(1, 3))
    kw = rng.choice(["flow", "transport", "mechanics"])
    if rng.random() < 0.3:
        return {"k": "merged", "cls": "BiotAd", "kw": kw, "doms": doms,
                "term": rng.choice(COUPLING), "inner": rng.choice(["flow", "temperature"])}
    cls = rng.choice(sorted(MERGED))
    return {"k": "merged", "cls": cls, "kw": kw, "doms": doms, "term": rng.choice(MERGED[cls])}


def gen_leaf(rng, allow_sparse=True):
    r = rng.random()
    if r < 0.18:
        return {"k": "scalar", "v": rng.choice([0.0, -0.0, 1, 2, -1, 0.5, 3.25, 1e-3, 7])}
    if r < 0.30:
        shape = rng.choice([[1], [2], [3], [4], [2, 2], [1, 4], [4, 1]])
        n = int(np.prod(shape))
        return {"k": "dense", "shape": shape, "vals": [rng.randint(-4, 4) / 2 for _ in range(n)]}
    if r < 0.42 and allow_sparse:
        m, n = rng.randint(1, 3), rng.randint(1, 3)
        cells = [(i, j) for i in range(m) for j in range(n)]
        ent = [[i, j, rng.choice([1, 2, -1, 0.5])]
               for (i, j) in sorted(rng.sample(cells, rng.randint(0, len(cells))))]
        return {"k": "sparse", "fmt": rng.choice(SPARSE_TYPES), "shape": [m, n], "entries": ent}
    if r < 0.50:
        return {"k": "tdda", "name": rng.choice(NAMES), "dk": rng.choice(["sd", "sd", "intf", "bg"]),
                "doms": rng.sample(range(4), rng.randint(0, 2)), "t": rng.choice([0, 0, 1, 2])}
    if r < 0.72:
        s = {"k": "var", "name": rng.choice(NAMES), "dom": rng.randrange(4),
             "dk": rng.choice(["sd", "sd", "intf"])}
        sh = rng.random()
        if sh < 0.25:
            s["t"] = rng.choice([1, 1, 2])
        elif sh < 0.5:
            s["i"] = rng.choice([1, 1, 2])
        return s
    if r < 0.84:
        s = {"k": "mdvar", "name": rng.choice(NAMES),
             "doms": rng.sample(range(4), rng.randint(0, 3))}
        sh = rng.random()
        if sh < 0.25:
            s["t"] = rng.choice([1, 2])
        elif sh < 0.5:
            s["i"] = rng.choice([1, 2])
        return s
    if r < 0.90:
        return gen_proj(rng)
    if r < 0.93:
        return {"k": "projlist", "ps": [gen_proj(rng) for _ in range(rng.randint(1, 3))]}
    if r < 0.98:
        return gen_merged(rng)
    return {"k": "div", "dim": rng.choice([1, 2, 3]), "doms": rng.sample(range(4), rng.randint(0, 3))}


def gen_tree(rng, depth, evals):
    r = rng.random()
    if depth == 0 or r < 0.25:
        s = gen_leaf(rng)
    elif r < 0.80:
        op = rng.choice(["add", "sub", "mul", "div", "pow", "matmul", "add", "mul"])
        a = gen_tree(rng, depth - 1, evals)
        b = gen_tree(rng, depth - 1, evals)
        if op == "pow" and a["k"] == "sparse":
            op = "mul"      # SparseArray ** x is rejected by the overload
        s = {"k": "bin", "op": op, "a": a, "b": b}
    elif r < 0.86:
        s = {"k": "rnum", "op": rng.choice(["add", "sub", "mul", "div", "pow"]),
             "num": rng.choice([2, 0.5, -1, 3]), "b": gen_tree(rng, depth - 1, evals)}
    elif r < 0.91:
        s = {"k": "lnum", "op": rng.choice(["add", "sub", "mul", "div", "pow"]),
             "num": rng.choice([2, 0.5, [1.0, 2.0], 3]), "a": gen_tree(rng, depth - 1, evals)}
        if s["a"]["k"] == "sparse" and s["op"] == "pow":
            s["op"] = "mul"
    elif r < 0.95:
        s = {"k": "neg", "a": gen_tree(rng, depth - 1, evals)}
    elif r < 0.98 or not evals:
        s = {"k": "prev", "a": gen_tree(rng, depth - 1, False),
             **rng.choice([{"t": 1}, {"i": 1}, {"t": 2}])}
        if _has_shift(s["a"]):
            s = s["a"]      # previous_* of already shifted leaves raises; keep it simple
    else:
        s = {"k": "eval", "f": rng.choice(["exp", "log", "f"]),
             "args": [gen_tree(rng, depth - 1, evals) for _ in range(rng.randint(1, 3))]}
    if rng.random() < 0.3:
        s["warm"] = True
    return s


def _has_shift(s):
    if s.get("t", 0) or s.get("i", 0):
        return True
    return any(_has_shift(c) for c in _children(s))


def _valid(s):
    """previous_* of a tree whose leaves are already shifted is rejected by porepy"""
    if s["k"] == "prev" and _has_shift(s["a"]):
        return False
    return all(_valid(c) for c in _children(s))


def _children(s):
    out = []
    for f in ("a", "b"):
        if isinstance(s.get(f), dict):
            out.append(s[f])
    if s["k"] == "eval":
        out += s["args"]
    return out


def leaf_paths(s, path=()):
    """paths to the leaf specs (projection lists count as one leaf)"""
    cs = [(f, s[f]) for f in ("a", "b") if isinstance(s.get(f), dict)]
    if s["k"] == "eval":
        cs += [(("args", i), c) for i, c in enumerate(s["args"])]
    if not cs:
        return [path]
    out = []
    for f, c in cs:
        out += leaf_paths(c, path + (f,))
    return out


def node_paths(s, path=()):
    out = [path] if s["k"] == "bin" else []
    for f in ("a", "b"):
        if isinstance(s.get(f), dict):
            out += node_paths(s[f], path + (f,))
    if s["k"] == "eval":
        for i, c in enumerate(s["args"]):
            out += node_paths(c, path + (("args", i),))
    return out


def eval_paths(s, path=()):
    out = [path] if s["k"] == "eval" else []
    for f in ("a", "b"):
        if isinstance(s.get(f), dict):
            out += eval_paths(s[f], path + (f,))
    if s["k"] == "eval":
        for i, c in enumerate(s["args"]):
            out += eval_paths(c, path + (("args", i),))
    return out


def get_at(s, path):
    for f in path:
        s = s[f[0]][f[1]] if isinstance(f, tuple) else s[f]
    return s


def set_at(s, path, new):
    if not path:
        return new
    s = copy.deepcopy(s)
    cur = s
    for f in path[:-1]:
        cur = cur[f[0]][f[1]] if isinstance(f, tuple) else cur[f]
    f = path[-1]
    if isinstance(f, tuple):
        cur[f[0]][f[1]] = new
    else:
        cur[f] = new
    return s


def mutate_leaf(rng, s):
    """a minimal change of one datum of a leaf spec"""
    s = copy.deepcopy(s)
    k = s["k"]
    if k == "scalar":
        s["v"] = rng.choice([v for v in [0.0, -0.0, 1, 2, 0.5, 2.0000000000000004]
                             if fbits(v) != fbits(s["v"])])
    elif k == "dense":
        n = len(s["vals"])
        if rng.random() < 0.4 and n == 4:
            s["shape"] = rng.choice([sh for sh in ([4], [2, 2], [1, 4], [4, 1]) if sh != s["shape"]])
        else:
            s["vals"][rng.randrange(n)] += rng.choice([1, 0.5, 2 ** -40])
    elif k == "sparse":
        r = rng.random()
        if r < 0.3:
            s["fmt"] = rng.choice([f for f in SPARSE_TYPES if f != s["fmt"]])
        elif r < 0.5:
            # the shape ONLY (empty trailing rows and / or columns): for csc (csr) the stored
            # data / indices / indptr stay identical when rows (columns) are appended
            dr, dc = rng.choice([(1, 0), (0, 1), (1, 1), (3, 0), (0, 2)])
            s["shape"] = [s["shape"][0] + dr, s["shape"][1] + dc]
        elif s["entries"] and r < 0.8:
            s["entries"][rng.randrange(len(s["entries"]))][2] += 1
        else:
            m, n = s["shape"]
            free = [(i, j) for i in range(m) for j in range(n)
                    if [i, j] not in [e[:2] for e in s["entries"]]]
            if free:
                i, j = rng.choice(free)
                s["entries"] = sorted(s["entries"] + [[i, j, 1]])
            else:
                s["entries"] = s["entries"][:-1]
    elif k in ("tdda", "var", "mdvar") and rng.random() < 0.2:
        # the KIND of domain only: the ids of the new domains coincide with the old ones
        kinds = ["sd", "intf", "bg"] if k == "tdda" else ["sd", "intf"]
        s["dk"] = rng.choice([x for x in kinds if x != s.get("dk", "sd")])
    elif k in ("tdda", "var", "mdvar"):
        r = rng.random()
        if r < 0.45:                     # time / iterate shift only
            if s.get("t", 0) or s.get("i", 0):
                if rng.random() < 0.5:
                    s.pop("t", None), s.pop("i", None)
                elif s.get("t", 0):
                    s["t"] += 1
                else:
                    s["i"] += 1
            elif k == "tdda" or rng.random() < 0.5:
                s["t"] = rng.choice([1, 2])
            else:
                s["i"] = rng.choice([1, 2])
        elif r < 0.7:
            s["name"] = rng.choice([n for n in NAMES if n != s["name"]])
        elif k == "var":
            s["dom"] = (s["dom"] + rng.randint(1, 3)) % 4
        else:
            d = s["doms"]
            if len(d) >= 2 and rng.random() < 0.4:
                s["doms"] = d[::-1]
            elif len(d) < 4 and rng.random() < 0.6:
                s["doms"] = d + [rng.choice([x for x in range(4) if x not in d])]
            elif d:
                s["doms"] = d[:-1]
            else:
                s["doms"] = [rng.randrange(4)]
    elif k == "proj":
        r = rng.random()
        if r < 0.35:
            s["ds"] += rng.choice([1, 2])            # domain size only
        elif r < 0.55:
            s["rs"] += 1                              # range size only
        else:
            which = rng.choice(["dom", "rng"])
            lim = s["ds"] if which == "dom" else s["rs"]
            arr = list(s[which])
            j = rng.randrange(len(arr))
            arr[j] = (arr[j] + 1) % lim
            s[which] = arr
    elif k == "projlist":
        r = rng.random()
        ps = s["ps"]
        if r < 0.5:
            j = rng.randrange(len(ps))
            ps[j] = mutate_leaf(rng, ps[j])
        elif r < 0.7 and len(ps) >= 2:
            ps.reverse()
        elif r < 0.85 and len(ps) >= 2:
            ps.pop()
        else:
            ps.append(gen_proj(rng))
    elif k == "merged":
        r = rng.random()
        if r < 0.25:
            s["kw"] = rng.choice([x for x in ("flow", "transport", "mechanics") if x != s["kw"]])
        elif r < 0.5:
            if s["cls"] == "BiotAd":
                s["term"] = rng.choice([x for x in COUPLING if x != s["term"]])
            else:
                s["term"] = rng.choice([x for x in MERGED[s["cls"]] if x != s["term"]])
        elif r < 0.7 and s["cls"] in ("MpfaAd", "TpfaAd"):
            s["cls"] = "TpfaAd" if s["cls"] == "MpfaAd" else "MpfaAd"
            s["term"] = "flux"
        elif r < 0.85 and s.get("inner"):
            s["inner"] = "flow" if s["inner"] != "flow" else "temperature"
        else:
            d = s["doms"]
            s["doms"] = d[::-1] if len(d) >= 2 and rng.random() < 0.5 else \
                (d + [rng.choice([x for x in range(4) if x not in d])] if len(d) < 4 else d[:-1])
    elif k == "div":
        if rng.random() < 0.5:
            s["dim"] = s["dim"] % 3 + 1
        else:
            d = s["doms"]
            s["doms"] = d[::-1] if len(d) >= 2 and rng.random() < 0.5 else \
                (d + [rng.choice([x for x in range(4) if x not in d])] if len(d) < 4 else d[:-1])
    else:
        return gen_leaf(rng)
    return s


def big_proj_pair(rng):
    n = rng.choice([1001, 1500, 2500])
    pos = rng.randrange(3, n - 3)
    a = {"k": "proj", "dom": {"arange": n}, "rng": {"arange": n}, "ds": n, "rs": n}
    b = copy.deepcopy(a)
    b[rng.choice(["dom", "rng"])]["patch"] = [[pos, (pos + 1) % n]]
    return a, b


class C45(Prop):
    id = "C45"
    props_file = "Props/C45.v"
    preamble = ("From Coq Require Import List ZArith String.\nImport ListNotations.\n"
                "From PP Require Import Model.C45.\n")
    n_cases = (400, 8000)
    design_ref = "DESIGN.md §5 C45, §6, §6.1, Appendix A"
    level_text = (
        "Coq theorems over a transcription of Operator._key / __hash__ (incl. the function token of "
        "evaluate nodes) and of the _key override of every leaf class: Scalar, DenseArray, "
        "SparseArray, TimeDependentDenseArray, Variable, MixedDimensionalVariable, Projection, "
        "ProjectionList (operators.py), MergedOperator (ad_utils.py) and Divergence "
        "(grid_operators.py), as repaired by the fix commits: the key is a prefix code for ALL "
        "trees - two-children operation nodes and function nodes of any arity "
        "(C45_prefix_injective, for every leaf/token type); every leaf key determines its leaf data "
        "(C45_leaf_keys_injective); equal trees have equal keys and hashes "
        "(C45_equal_trees_equal_keys); key equality is equivalent to structural equality "
        "(C45_distinct_trees_distinct_keys, full statement, no guard) and a change of one leaf under "
        "any path of operation and function nodes changes the key "
        "(C45_single_leaf_mutation_changes_key); the evaluate-node key before the repair is refuted "
        "(C45_old_evaluate_key_refuted). The model is tied to the code on every run: random pairs of "
        "trees are built with the real classes and overloads, the real objects are serialised, and "
        "Coq recomputes key equality of the model on the same trees and compares it with equality "
        "of the real _key() strings/hashes.")
    level_note = (
        "Assumption inside the theorems (explicit premise, not an axiom): sha256 is injective on the "
        "buffers in play (sha_inj). Token abstraction: a key is modelled as the list of tokens that "
        "' '.join concatenates; that the joined STRING determines the token list is proved only "
        "under the premise that rendered tokens are prefix-free (C45_join_injective) - it fails for "
        "adversarial variable / function names containing ') (' patterns; float repr and int "
        "printing are assumed injective (floats are identified by their bit pattern, NaN excluded); "
        "numpy buffers are identified with (item type, element list). A function is identified by "
        "the NAME of the object whose func is evaluated (two Function objects with one name and "
        "different callables share keys by design). Not modelled: AbstractFunction._key (raises "
        "NotImplementedError; a function object is never a child), the per-object key cache "
        "(a tree that was hashed keeps its key when a Scalar below it is changed with set_value: "
        "open known finding, oracle only), SurrogateOperator nodes are "
        "function nodes named after their factory (not generated by the harness), Python's str hash "
        "(only 'equal keys give equal hashes' is used). The theorems are about the model; the "
        "implementation is covered on the generated tree pairs only.")
    technique = ("Coq proof (prefix-code induction over operator trees + per-leaf-class injectivity) "
                 "+ vm_compute execution correspondence on the equality pattern of real keys")
    rule = ("random operator-tree pairs (depth <=3 quick / <=4 thorough) over all ten leaf classes "
            "(incl. discretization matrices of Mpfa/Tpfa/Upwind/Mpsa/Biot with coupling keywords and "
            "Divergence) and function nodes of arity 1-3 (function renamed, arguments regrouped), "
            "built with the real classes through the real overloads (incl. numbers/arrays as left or "
            "right operand, unary minus, previous_timestep/previous_iteration of leaves and of whole "
            "trees, key caches warmed before copying, shared leaf objects): identical rebuilds from "
            "fresh objects, single-leaf mutations of one datum (domain-size-only, shift-only, shape-"
            "only, one index, one sparse entry, storage type, name, domain list order, KIND of domain "
            "only - subdomain / interface / boundary grid with coinciding ids), Scalar.set_value "
            "histories, domain ORDER only for every leaf kind with a domain list, sparse leaves in "
            "csr/csc/coo/bsr/dia (matrix and array) differing ONLY in shape (empty trailing rows / "
            "columns, identical stored arrays), swapped "
            "children, changed operation, independent pairs, index arrays > 1000 entries differing in "
            "the middle, function nodes (known-finding region); non-trivial = the two trees differ "
            "or have more than one node")
    trusted = ["the serialiser of real operator objects into model trees (harness/props/c45.py: "
               "ser) reads exactly the attributes the _key methods read",
               "sha256 modelled as an injective function of (item type, elements); the executable "
               "instance uses the identity"]
    assumptions = ["sha256 has no collision among the arrays in play",
                   "names of variables/arrays do not contain key delimiters; no NaN scalars"]

    # ---------------------------------------------------------------------------------
    def generate(self, rng, n, tier):
        depth = 3 if tier == "quick" else 4
        nbig = 3 if tier == "quick" else 12
        for c in range(n):
            if c < nbig:
                a, b = big_proj_pair(rng)
                ctx = gen_tree(rng, 1, False)
                yield {"kind": "big-index", "t1": {"k": "bin", "op": "matmul", "a": a, "b": ctx},
                       "t2": {"k": "bin", "op": "matmul", "a": b, "b": ctx}}
                continue
            if nbig + 26 <= c < nbig + 26 + 2 * len(SPARSE_TYPES):
                # sparse leaves in every storage format that differ ONLY in shape: empty trailing
                # rows, resp. columns (identical stored arrays for csc, resp. csr)
                j = c - nbig - 26
                fmt, rows = SPARSE_TYPES[j // 2], j % 2 == 0
                ent = [[0, 0, 1.0], [1, 0, 2.0], [1, 2, -1.0], [3, 1, 0.5]]
                a = {"k": "sparse", "fmt": fmt, "shape": [4, 4], "entries": ent}
                b = dict(a, shape=[7, 4] if rows else [4, 6])
                if rng.random() < 0.5:
                    x = {"k": "var", "name": "p", "dom": 0}
                    a, b = ({"k": "bin", "op": "matmul", "a": a, "b": x},
                            {"k": "bin", "op": "matmul", "a": b, "b": x})
                yield {"kind": "sparse-shape-only", "t1": a, "t2": b}
                continue
            if nbig + 24 <= c < nbig + 26:
                # known finding: a composite that was hashed keeps its key when a Scalar below it
                # is changed with set_value (only the Scalar's own cached key is dropped)
                x = {"k": "var", "name": "p", "dom": 0}
                yield {"kind": "set-value-composite",
                       "t1": {"k": "bin", "op": "mul", "a": {"k": "scalar", "v": 1.0, "set_later": 2.0}, "b": x},
                       "t2": {"k": "bin", "op": "mul", "a": {"k": "scalar", "v": 2.0}, "b": x}}
                continue
            if c < nbig + 24:
                # directed single-datum mutations of the leaf classes outside operators.py and
                # of function nodes, inside a random context
                biot = {"k": "merged", "cls": "BiotAd", "kw": "mechanics", "doms": [0, 1],
                        "term": "scalar_gradient", "inner": "flow"}
                mp = {"k": "merged", "cls": "MpfaAd", "kw": "flow", "doms": [1, 2], "term": "flux"}
                dv = {"k": "div", "dim": 1, "doms": [0, 2]}
                x = {"k": "var", "name": "p", "dom": 0}
                y = {"k": "var", "name": "q", "dom": 1}
                td = {"k": "tdda", "name": "src", "doms": [0], "dk": "sd"}
                td2 = {"k": "tdda", "name": "src", "doms": [0, 1], "dk": "sd"}
                pairs = [
                    # domain ORDER only: the same grids listed in another order parse to another vector
                    (td2, dict(td2, doms=[1, 0])), (dict(td2, t=1), dict(td2, doms=[1, 0], t=1)),
                    (dict(td2, dk="bg"), dict(td2, dk="bg", doms=[1, 0])),
                    (dict(td2, doms=[0, 2, 3]), dict(td2, doms=[2, 0, 3])),
                    ({"k": "mdvar", "name": "p", "doms": [0, 2]}, {"k": "mdvar", "name": "p", "doms": [2, 0]}),
                    (td, dict(td, dk="intf")), (td, dict(td, dk="bg")),
                    (dict(td, dk="bg", doms=[1], t=1), dict(td, doms=[1], t=1)),
                    (dict(x, dk="sd"), dict(x, dk="intf")),
                    ({"k": "mdvar", "name": "p", "doms": [0]}, {"k": "mdvar", "name": "p", "doms": [0], "dk": "intf"}),
                    ({"k": "scalar", "v": 2.0}, {"k": "scalar", "v": 1.0, "set": 2.0}),
                    ({"k": "scalar", "v": 1.0}, {"k": "scalar", "v": 1.0, "set": 2.0}),
                    (biot, dict(biot, inner="temperature")), (biot, dict(biot, kw="flow")),
                    (biot, dict(biot, term="consistency")), (mp, dict(mp, cls="TpfaAd")),
                    (mp, dict(mp, doms=[2, 1])), (mp, dict(mp, term="bound_flux")),
                    (dv, dict(dv, dim=2)), (dv, dict(dv, doms=[2, 0])), (dv, dict(dv, doms=[0])),
                    ({"k": "eval", "f": "exp", "args": [x]}, {"k": "eval", "f": "log", "args": [x]}),
                    ({"k": "eval", "f": "f", "args": [{"k": "eval", "f": "g", "args": [x]}, y]},
                     {"k": "eval", "f": "f", "args": [{"k": "eval", "f": "g", "args": [x, y]}]}),
                    ({"k": "eval", "f": "f", "args": [x, y]}, {"k": "eval", "f": "f", "args": [y, x]}),
                ]
                a, b = pairs[c - nbig]
                ctx = gen_tree(rng, 1, False)
                op = rng.choice(["matmul", "mul", "add"])
                yield {"kind": "directed-mutation", "t1": {"k": "bin", "op": op, "a": a, "b": ctx},
                       "t2": {"k": "bin", "op": op, "a": copy.deepcopy(b), "b": ctx}}
                continue
            evals = rng.random() < 0.2
            t1 = gen_tree(rng, rng.randint(0, depth), evals)
            if evals and rng.random() < 0.7:
                # make sure function nodes (also nested ones) occur
                args = [gen_tree(rng, rng.randint(0, depth - 1), True) for _ in range(rng.randint(1, 3))]
                if rng.random() < 0.4:
                    args[0] = {"k": "eval", "f": rng.choice(["g", "exp"]), "args": [args[0]]}
                t1 = {"k": "eval", "f": rng.choice(["exp", "log", "f"]), "args": args}
                if rng.random() < 0.4:
                    t1 = {"k": "bin", "op": rng.choice(["add", "mul"]), "a": t1, "b": gen_leaf(rng)}
            r = rng.random()
            if r < 0.25:
                kind, t2 = "rebuild", copy.deepcopy(t1)
                for p in leaf_paths(t2):        # vary cache warming between the two builds
                    lf = get_at(t2, p)
                    if rng.random() < 0.5:
                        lf["warm"] = not lf.get("warm", False)
            elif r < 0.65:
                kind = "mutate-leaf"
                p = rng.choice(leaf_paths(t1))
                old = get_at(t1, p)
                new = mutate_leaf(rng, old)
                if rng.random() < 0.5 and old["k"] in ("var", "mdvar", "tdda"):
                    # both trees use the SAME python object as the base of the leaf
                    old = dict(old, oid=1)
                    new = dict(new, oid=1) if all(old.get(f) == new.get(f)
                                                  for f in ("name", "dom", "doms")) else new
                    t1 = set_at(t1, p, old)
                t2 = set_at(t1, p, new)
            elif r < 0.75:
                nodes = node_paths(t1)
                if nodes:
                    kind = "swap-children"
                    p = rng.choice(nodes)
                    nd = copy.deepcopy(get_at(t1, p))
                    nd["a"], nd["b"] = nd["b"], nd["a"]
                    if nd["op"] == "pow" and nd["a"]["k"] == "sparse":
                        nd["op"] = "mul"
                    t2 = set_at(t1, p, nd)
                else:
                    kind, t2 = "independent", gen_tree(rng, rng.randint(0, depth), evals)
            elif r < 0.85:
                nodes = node_paths(t1)
                if nodes:
                    kind = "change-op"
                    p = rng.choice(nodes)
                    nd = copy.deepcopy(get_at(t1, p))
                    nd["op"] = rng.choice([o for o in ("add", "sub", "mul", "div", "matmul")
                                           if o != nd["op"]])
                    t2 = set_at(t1, p, nd)
                else:
                    kind, t2 = "independent", gen_leaf(rng)
            elif r < 0.92 and evals and eval_paths(t1):
                # a function node: other function name, or the arguments regrouped
                kind = "mutate-function"
                p = rng.choice(eval_paths(t1))
                nd = copy.deepcopy(get_at(t1, p))
                if rng.random() < 0.5 or len(nd["args"]) < 2:
                    nd["f"] = rng.choice([f for f in ("exp", "log", "f", "g") if f != nd["f"]])
                else:       # f(a, b, ..) -> f(g(a, b), ..)  : same children keys, other arities
                    nd["args"] = [{"k": "eval", "f": nd["f"], "args": nd["args"][:2]}] + nd["args"][2:]
                t2 = set_at(t1, p, nd)
            elif r < 0.92:
                kind = "prev-of-tree"
                base = gen_tree(rng, rng.randint(1, depth - 1), False)
                while _has_shift(base):
                    base = gen_tree(rng, rng.randint(1, depth - 1), False)
                base["warm"] = True
                t1 = base
                t2 = {"k": "prev", "a": copy.deepcopy(base), **rng.choice([{"t": 1}, {"i": 1}])}
            else:
                kind, t2 = "independent", gen_tree(rng, rng.randint(0, depth), evals)
            if not (_valid(t1) and _valid(t2)):
                kind, t2 = "rebuild", copy.deepcopy(t1)
            yield {"kind": kind, "t1": t1, "t2": t2}

    def run_impl(self, case):
        b = Builder()

        def built(spec):
            o = b.build(spec)
            if b.later:     # history: hash the tree, then change scalar values in place
                o._key()
                for sc, v in b.later:
                    sc.set_value(v)
                b.later = []
            return o

        o1 = built(case["t1"])
        k1 = o1._key()
        h1 = hash(o1)
        o2 = built(case["t2"])
        k2 = o2._key()
        h2 = hash(o2)
        # keys are stable
        assert o1._key() == k1 and o2._key() == k2
        s1, s2 = ser(o1), ser(o2)
        st = self._stats
        kk = case.get("kind", "?") + ("/same" if s1 == s2 else "/different")
        st["pairs"][kk] = st["pairs"].get(kk, 0) + 1
        for t in (s1, s2):
            for c in _census(t):
                st["nodes"][c] = st["nodes"].get(c, 0) + 1
        return {"s1": s1, "s2": s2, "key_eq": k1 == k2, "hash_eq": h1 == h2,
                "eq": bool(o1 == o2), "same": s1 == s2}

    def oracle(self, case, res):
        same = ref_tokens(res["s1"]) == ref_tokens(res["s2"])
        assert same == res["same"]
        if same:
            if not res["key_eq"]:
                return "structurally identical trees over the same leaf data have different keys"
            if not res["hash_eq"]:
                return "structurally identical trees over the same leaf data have different hashes"
            return None
        if res["key_eq"]:
            return "different operator trees / leaf data share one key"
        return None

    def finding_key(self, case, res, why):
        if case.get("kind") == "set-value-composite" and why.startswith("structurally identical"):
            return KNOWN_STALE
        if why.startswith("different") and (has_eval(res["s1"]) or has_eval(res["s2"])):
            # attributable to the evaluate nodes only: everything else (all leaf data, all
            # operations, the order) coincides once function identity and arity are erased
            if ref_tokens(res["s1"], True) == ref_tokens(res["s2"], True):
                return KNOWN_EVAL       # (fixed; a regression is reported under this key)
        if why.startswith("different"):
            return "key-collision"
        return "identical-trees-different-keys"

    def coq_case(self, case, res):
        if case.get("kind") == "set-value-composite":
            return None     # the per-object key cache is not part of the model
        return (f"agree {ctree(res['s1'])} {ctree(res['s2'])} "
                f"{cbool(res['key_eq'])} {cbool(res['hash_eq'])}")

    def coq_diag(self, case, res):
        return f"(ikey {ctree(res['s1'])}, ikey {ctree(res['s2'])})"

    def nontrivial(self, case, res):
        return (not res["same"]) or size(res["s1"]) > 1

    def describe(self, case):
        return case

    def shrink(self, case, still_fails):
        cur = case
        changed = True
        while changed:
            changed = False
            t1, t2 = cur["t1"], cur["t2"]
            cands = []
            for f in ("a", "b"):
                if isinstance(t1.get(f), dict) and isinstance(t2.get(f), dict):
                    cands.append(dict(cur, t1=t1[f], t2=t2[f]))
            if t1["k"] == "eval" and t2["k"] == "eval":
                for x, y in zip(t1["args"], t2["args"]):
                    cands.append(dict(cur, t1=x, t2=y))
            for c in cands:
                if still_fails(c):
                    cur, changed = c, True
                    break
        return cur

    _stats = {"pairs": {}, "nodes": {}}

    def extra_evidence(self):
        return {"input_distribution": self._stats,
                "refuted": ["C45_old_evaluate_key_refuted (the evaluate-node key before the repair)"]}


PROP = C45()
